"""bycycle.cyclepoints.extrema.find_extrema — C02 (and the alternation contract its callers rely on, C01).

The contract that contracts/cyclepoints.py states for the callers (strict alternation, equal counts, inside the boundary)
is PROVED here from the code, relative to
  * the assumed contracts of the external filter (a real array of the input's length) and of numpy (pad, argmax, ...),
  * the meaning of the hypothesis predicate osc3 ("the band-passed signal contains at least three full oscillations
    inside the boundary"), given as a definitional clause over the zero-crossings of the filter output.
"""
import z3

from . import contract, CONTRACTS
from .cyclepoints import ALTERNATE_PEAK_FIRST, _two_int_arrays
from vf.values import BOOL, INT, REAL, STR, Z, Arr, fresh_name
from vf.spec import form
from vf.engine import Unsupported, zbool, lift, to_real, to_int
from vf.lib import term_int

Q = 'bycycle.cyclepoints.extrema.find_extrema'
FILT = "call_result('neurodsp.filt.filter_signal')"


def _crossings(E, F, rise):
    """the zero-crossing index array of find_flank_zerox, written independently: i with F[i] <= 0 < F[i+1] (rise) or
    F[i] > 0 >= F[i+1] (decay), in increasing order"""
    from vf.calls import nonzero_indices
    n = F.n if not isinstance(F.n, int) else z3.IntVal(F.n)
    src = E.st.heap[F.ident]
    off, st = F.off, F.stride
    at = lambda i: to_real(src(off + i * st))
    if rise:
        clo = lambda i: Z(z3.And(at(i) <= 0, at(i + 1) > 0), BOOL)
    else:
        clo = lambda i: Z(z3.And(at(i) > 0, at(i + 1) <= 0), BOOL)
    m = z3.simplify(z3.If(n >= 1, n - 1, z3.IntVal(0)))
    key = ('crossmask', F.ident, id(src), rise)
    mask = E.st.ghost.get(key)
    if mask is None:
        mask = E.new_arr(m, BOOL, clo)
        E.st.ghost[key] = mask
    return nonzero_indices(E, mask, None)


@form('rises')
def f_rises(E, node):
    return _crossings(E, E.eval(node.args[0]), True)


@form('decays')
def f_decays(E, node):
    return _crossings(E, E.eval(node.args[0]), False)


def first_gt_fn(E, a):
    """for an integer array a: fg(v) = the least index whose entry exceeds v (len(a) if none); a definitional extension:
    0 <= fg(v) <= n, entries before fg(v) are <= v, the entry at fg(v) (if any) is > v"""
    key = ('first_gt', a.ident, id(E.st.heap[a.ident]), str(a.off), str(a.n))
    hit = E.st.ghost.get(key)
    if hit is not None:
        return hit
    fg = z3.Function(fresh_name('first_gt'), z3.IntSort(), z3.IntSort())
    n = a.n if not isinstance(a.n, int) else z3.IntVal(a.n)
    v = z3.Int(fresh_name('v'))
    i = z3.Int(fresh_name('i'))
    at = lambda t: to_int(E.rd(a, t))
    ax = [z3.ForAll([v], z3.And(fg(v) >= 0, fg(v) <= n, z3.Implies(fg(v) < n, at(fg(v)) > v)), patterns=[fg(v)]),
          z3.ForAll([v, i], z3.Implies(z3.And(i >= 0, i < fg(v)), at(i) <= v), patterns=[z3.MultiPattern(fg(v), at(i))])]
    for t in ax:
        E.assumptions_quant(t)
    inst = dict(fn=fg, n=n, at=at,
                rng=lambda x: z3.And(fg(x) >= 0, fg(x) <= n, z3.Implies(fg(x) < n, at(fg(x)) > x)),
                below=lambda x, j: z3.Implies(z3.And(j >= 0, j < fg(x)), at(j) <= x))
    E.st.ghost[key] = inst
    return inst


@form('first_gt')
def f_first_gt(E, node):
    a = E.eval(node.args[0])
    v = term_int(E.eval(node.args[1]))
    return Z(first_gt_fn(E, a)['fn'](v), INT)


@form('witness')
def f_witness(E, node):
    """witness('name'): a constant whose existence the surrounding (assumed, definitional) clause asserts"""
    name = E.eval(node.args[0])
    return Z(z3.Int('witness.' + name), INT)


# ---------------------------------------------------------------------------------------------------------------------
H = "(int(np.ceil(filt_len / 2)) if pad else 0)"          # zeros added in front of the signal (locals of the function)

# osc3 := three consecutive rise crossings of the band-passed (padded) signal, each followed by a decay crossing, such
# that all of these half-waves lie strictly inside the boundary of the unpadded signal
W = ("implies(osc3(param('sig'), fs, f_range, boundary, param('filter_kwargs'), pass_type, pad), "
     "0 <= witness('a') and witness('a') + 2 < len(rises(sig_filt)) and len(decays(sig_filt)) >= 1 and "
     "rises(sig_filt)[witness('a')] - {H} > boundary and "
     "first_gt(decays(sig_filt), rises(sig_filt)[witness('a') + 2]) < len(decays(sig_filt)) and "
     "decays(sig_filt)[first_gt(decays(sig_filt), rises(sig_filt)[witness('a') + 2])] - {H} <= sig_len - boundary)").format(H=H)


def _cases():
    out = []
    for fl, ft in (('None', 'none'), ('given', 'opaque')):
        out.append(dict(
            label='first=peak,fk=%s' % fl,
            params={'sig': ('arr', REAL), 'fs': REAL, 'f_range': ('tuple', [REAL, REAL]), 'boundary': INT,
                    'first_extrema': ('const', 'peak'), 'filter_kwargs': ft, 'pass_type': STR, 'pad': BOOL},
            requires=["boundary >= 0", "osc3(sig, fs, f_range, boundary, filter_kwargs, pass_type, pad)"],
            define={('after_assign', 'sig_filt'): [W]},
            ensures=ALTERNATE_PEAK_FIRST,
            loops={
                1: dict(index='p', mutates=['peaks'], invariant=[
                    "len(peaks) == n_peaks",
                    "view_start(_decay_xs) == (0 if p == 0 else first_gt(decay_xs, rise_xs[p - 1]))",
                    "len(_decay_xs) == len(decay_xs) - view_start(_decay_xs)",
                    "forall(q, 0 <= q < p, rise_xs[q] <= peaks[q] and peaks[q] < decay_xs[first_gt(decay_xs, rise_xs[q])])",
                ]),
                2: dict(index='j', preserved=['_decay_xs'], invariant=[
                    "forall(i, 0 <= i < j, _decay_xs[i] <= last_rise)"]),
                3: dict(index='t', mutates=['troughs'], invariant=[
                    "len(troughs) == n_troughs",
                    "view_start(_rise_xs) == (0 if t == 0 else first_gt(rise_xs, decay_xs[t - 1]))",
                    "len(_rise_xs) == len(rise_xs) - view_start(_rise_xs)",
                    "forall(q, 0 <= q < t, decay_xs[q] <= troughs[q] and troughs[q] < rise_xs[first_gt(rise_xs, decay_xs[q])])",
                ]),
                4: dict(index='j', preserved=['_rise_xs'], invariant=[
                    "forall(i, 0 <= i < j, _rise_xs[i] <= last_decay)"]),
            }))
    return out


_old = CONTRACTS[Q]
contract(Q, cases=_cases(), raises={'ValueError': "fs < 0"}, modifies=[], result=_two_int_arrays)
