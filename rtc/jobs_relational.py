"""Relational corpus jobs: mirror symmetry (C09), unit covariance (C10), purity across call sequences (C15)."""
import copy
import random

import numpy as np
import pandas as pd

from .core import job, stable_hash
from . import oracles as O
from .signals import FAMILIES, make_signal
from .jobs_pipeline import TH_PRESETS, AMP_TH, AMP_BK, FEK

FEAT_SWAP = {'time_peak': 'time_trough', 'time_trough': 'time_peak', 'volt_peak': 'volt_trough',
             'volt_trough': 'volt_peak', 'time_rise': 'time_decay', 'time_decay': 'time_rise',
             'volt_rise': 'volt_decay', 'volt_decay': 'volt_rise'}
SAMPLE_SWAP = {'sample_peak': 'sample_trough', 'sample_zerox_decay': 'sample_zerox_rise',
               'sample_zerox_rise': 'sample_zerox_decay', 'sample_last_zerox_decay': 'sample_last_zerox_rise',
               'sample_last_trough': 'sample_last_peak', 'sample_next_trough': 'sample_next_peak'}


def mirror(df):
    """peak-centred table of -x, renamed / negated / one-minus as C09 says -> what the trough-centred table of x must be"""
    out = df.rename(columns={**FEAT_SWAP, **SAMPLE_SWAP}).copy()
    out['volt_peak'] = -out['volt_peak']
    out['volt_trough'] = -out['volt_trough']
    out['time_rdsym'] = 1 - out['time_rdsym']
    out['time_ptsym'] = 1 - out['time_ptsym']
    return out


def option_cases(tier, seed, methods=('cycles', 'amp')):
    rng = random.Random(seed)
    for fam in FAMILIES:
        for s in range(1 if tier == 'quick' else 3):
            for method in methods:
                th = rng.choice(list(TH_PRESETS if method == 'cycles' else AMP_TH))
                bk = 'none' if method == 'cycles' else rng.choice(list(AMP_BK))
                fek = rng.choice(list(FEK))
                yield dict(family=fam, seed=seed * 100 + s, method=method, th=th, bk=bk, fek=fek)


def opts(c, centre):
    return dict(center_extrema=centre, burst_method=c['method'],
                burst_kwargs=copy.deepcopy(AMP_BK[c['bk']]),
                threshold_kwargs=copy.deepcopy((TH_PRESETS if c['method'] == 'cycles' else AMP_TH)[c['th']]),
                find_extrema_kwargs=copy.deepcopy(FEK[c['fek']]))


@job('mirror', props=['C09'], function='bycycle.features.features.compute_features')
class Mirror:
    chunk = 2

    def bound(self, tier):
        return 'signal corpus (%d families x %d seeds) x both burst methods x sampled option presets' % (len(FAMILIES), 1 if tier == 'quick' else 3)

    def gen(self, tier, seed):
        return option_cases(tier, seed)

    def nontrivial(self, c):
        return True

    def run(self, c):
        from bycycle.features import compute_features
        sig = make_signal(c['family'], c['seed'])
        a = compute_features(sig, 500.0, (7.0, 13.0), **opts(c, 'trough'))
        b = compute_features(-sig, 500.0, (7.0, 13.0), **opts(c, 'peak'))
        exp = mirror(b)
        if len(a) != len(exp):
            return 'different number of cycles: %d vs %d' % (len(a), len(exp))
        for col in a.columns:
            if col not in exp.columns:
                return 'column %s missing in the mirrored table' % col
            exact = col.startswith('sample_') or col == 'is_burst' or col in ('period', 'time_peak', 'time_trough', 'time_rise', 'time_decay')
            tol = 0.0 if exact else 1e-12
            if col in ('amp_fraction', 'amp_consistency', 'period_consistency', 'monotonicity', 'burst_fraction', 'band_amp',
                       'volt_peak', 'volt_trough', 'volt_rise', 'volt_decay', 'volt_amp'):
                tol = 0.0           # "identical burst features": same operations on the same numbers
            if not O.same_array(a[col].values, exp[col].values, tol):
                return 'column %s: trough-centred %s vs mirrored peak-centred %s' % (col, a[col].values[:5], exp[col].values[:5])
        return None


VOLT = ('volt_peak', 'volt_trough', 'volt_rise', 'volt_decay', 'volt_amp', 'band_amp')


@job('covariance', props=['C10'], function='bycycle.features.features.compute_features')
class Covariance:
    chunk = 2

    def bound(self, tier):
        return ('signal corpus x both centrings x both burst methods; amplitude factors 2^k, k in {-20,-3,1,7,20}; '
                'base fs 512, 500 or 31.96875 with the band at the same ratio; (fs, f_range) by every factor 2^k, k in {-4,-3,-1,1,4} ({1,2,4} for the smallest base; 31.25 and 62.5 Hz are non-integer rates; below about 20 Hz neurodsp\'s transition-band diagnostic rejects the filter, a dependency limit outside the property\'s reach); exact comparison of the tables').replace('{-20,-3,1,7,20}', '{-40,-30,-20,-3,1,7,20,40}')

    def gen(self, tier, seed):
        rng = random.Random(seed + 7)
        for c in option_cases(tier, seed):
            if c['fek'] == 'nsec':
                c = dict(c, fek='ncyc5')      # the statement fixes the filter length in cycles
            for centre in ('peak', 'trough'):
                yield dict(c, centre=centre, ka=rng.choice([-40, -30, -20, -3, 1, 7, 20, 40]), kf='all', base=rng.choice([512.0, 500.0, 1023 / 32.]))

    def nontrivial(self, c):
        return True

    def run(self, c):
        from bycycle.features import compute_features
        sig = make_signal(c['family'], c['seed'])
        fs = c.get('base', 512.0)            # powers of two / dyadic so that the scalings are exact in floating point
        fr = (8.0 * fs / 512.0, 12.0 * fs / 512.0)
        base = compute_features(sig, fs, fr, **opts(c, c['centre']))
        a = 2.0 ** c['ka']
        if c['method'] == 'cycles' or True:
            scaled = compute_features(sig * a, fs, fr, **opts(c, c['centre']))
            if len(scaled) != len(base):
                return 'amplitude x%g changes the number of cycles (%d -> %d)' % (a, len(base), len(scaled))
            for col in base.columns:
                want = base[col].values * a if col in VOLT else base[col].values
                if not O.same_array(scaled[col].values, want, 0.0 if col not in VOLT else 1e-12):
                    return 'amplitude x%g: column %s %s, expected %s' % (a, col, scaled[col].values[:5], np.asarray(want)[:5])
        for kf in (([-4, -3, -1, 1, 4] if fs > 100 else [1, 2, 4]) if c['kf'] == 'all' else [c['kf']]):
            f = 2.0 ** kf
            o = opts(c, c['centre'])
            if o['burst_kwargs'] and 'min_burst_duration' in o['burst_kwargs']:
                o['burst_kwargs']['min_burst_duration'] = o['burst_kwargs']['min_burst_duration'] / f
            re = compute_features(sig, fs * f, (fr[0] * f, fr[1] * f), **o)
            d = O.frames_identical(re, base)
            if d:
                return 'fs and band x%g (fs %g -> %g): %s' % (f, fs, fs * f, d)
        return None


@job('purity', props=['C15'], function='*')
class Purity:
    chunk = 1

    def bound(self, tier):
        return ('seeded sequences (length %d) of API calls sharing one signal, one option set and the resulting tables: '
                'compute_features, shape / burst / cyclepoint functions, recompute_edges, limit_df, epoch_df, drop_samples_df, '
                'group functions, plotting functions; inputs deep-compared before/after, first-call results compared with repeats'
                % (8 if tier == 'quick' else 20))

    def gen(self, tier, seed):
        for fam in FAMILIES[:5 if tier == 'quick' else None]:
            for method in ('cycles', 'amp'):
                for centre in ('peak', 'trough'):
                    yield dict(family=fam, seed=seed, method=method, centre=centre, steps=8 if tier == 'quick' else 20)

    def nontrivial(self, c):
        return True

    def run(self, c):
        import matplotlib
        matplotlib.use('Agg')
        import matplotlib.pyplot as plt
        from bycycle.features import compute_features, compute_shape_features, compute_burst_features, compute_cyclepoints
        from bycycle.features.shape import compute_durations, compute_extrema_voltage, compute_symmetry, compute_band_amp
        from bycycle.features.burst import (compute_amp_fraction, compute_amp_consistency, compute_period_consistency,
                                            compute_monotonicity, compute_burst_fraction)
        from bycycle.burst.utils import recompute_edges
        from bycycle.utils import limit_df, epoch_df, drop_samples_df
        from bycycle.group import compute_features_2d, compute_features_3d
        from bycycle.plts import plot_burst_detect_summary, plot_cyclepoints_df, plot_cyclepoints_array, plot_burst_detect_param
        rng = random.Random(c['seed'] * 31 + stable_hash(c['family']) % 1000)
        sig = make_signal(c['family'], c['seed'], n=1200)
        fs, fr = 500.0, (7.0, 13.0)
        th = dict(TH_PRESETS['loose']) if c['method'] == 'cycles' else dict(burst_fraction_threshold=.5, min_n_cycles=2)
        bk = dict(min_n_cycles=2) if c['method'] == 'amp' else None
        fek = dict(boundary=3, filter_kwargs=dict(n_cycles=3))
        kw = dict(center_extrema=c['centre'], burst_method=c['method'], burst_kwargs=bk, threshold_kwargs=th,
                  find_extrema_kwargs=fek)
        df = compute_features(sig, fs, fr, **kw)
        shapes = compute_shape_features(sig, fs, fr, center_extrema=c['centre'], find_extrema_kwargs=fek)
        samples = compute_cyclepoints(sig, fs, fr, **copy.deepcopy(fek))
        sigs2 = np.stack([sig[:600], sig[600:]])
        sigs3 = sigs2.reshape(1, 2, 600)
        gk = dict(kw)
        gk_list = [copy.deepcopy(dict(kw, return_samples=True)) for _ in range(2)]          # per-row / per-epoch option lists
        gk_list[1]['threshold_kwargs'] = dict(gk_list[1]['threshold_kwargs'], min_n_cycles=3)
        gk_grid = [[copy.deepcopy(kw) for _ in range(2)]]
        shared = dict(sig=sig, kw=kw, df=df, shapes=shapes, samples=samples, sigs2=sigs2, sigs3=sigs3, gk=gk,
                      gk_list=gk_list, gk_grid=gk_grid)
        snap = copy.deepcopy(shared)

        def bf_kwargs():
            return dict(burst_method=c['method'], burst_kwargs=dict(fs=fs, f_range=fr, **(bk or {})) if c['method'] == 'amp' else None)
        calls = {
            'compute_features': lambda: compute_features(sig, fs, fr, **kw),
            'compute_shape_features': lambda: compute_shape_features(sig, fs, fr, center_extrema=c['centre'], find_extrema_kwargs=fek),
            'compute_cyclepoints': lambda: compute_cyclepoints(sig, fs, fr, **fek),
            'compute_durations': lambda: pd.concat(compute_durations(samples), axis=1),
            'compute_extrema_voltage': lambda: pd.DataFrame(dict(zip('ab', compute_extrema_voltage(samples, sig)))),
            'compute_symmetry': lambda: pd.DataFrame(compute_symmetry(samples, sig)),
            'compute_band_amp': lambda: pd.DataFrame({'b': compute_band_amp(samples, sig, fs, fr)}),
            'compute_amp_fraction': lambda: pd.DataFrame({'v': compute_amp_fraction(shapes)}),
            'compute_amp_consistency': lambda: pd.DataFrame({'v': compute_amp_consistency(shapes)}),
            'compute_period_consistency': lambda: pd.DataFrame({'v': compute_period_consistency(shapes)}),
            'compute_monotonicity': lambda: pd.DataFrame({'v': compute_monotonicity(shapes, sig)}),
            'compute_burst_fraction': lambda: pd.DataFrame({'v': compute_burst_fraction(shapes, sig, fs, fr)}),
            'compute_burst_features': lambda: compute_burst_features(shapes, sig, **bf_kwargs()),
            'limit_df': lambda: limit_df(df, fs, start=0.4, stop=1.9),
            # a window that drops no cycle at all (start before the first cycle, no stop) with re-indexing
            'limit_df_keep_all': lambda: limit_df(df, fs, start=0.004),
            'limit_df_keep_all_noreset': lambda: limit_df(df, fs, start=0.004, reset_indices=False),
            'epoch_df': lambda: pd.concat(epoch_df(df, len(sig), 300), axis=0),
            'drop_samples_df': lambda: drop_samples_df(df),
            'compute_features_2d': lambda: pd.concat(compute_features_2d(sigs2, fs, fr, compute_features_kwargs=gk, axis=0, n_jobs=1), axis=0),
            'compute_features_2d_None': lambda: pd.concat(compute_features_2d(sigs2, fs, fr, compute_features_kwargs=gk, axis=None, n_jobs=1), axis=0),
            'compute_features_3d': lambda: pd.concat(compute_features_3d(sigs3, fs, fr, compute_features_kwargs=gk, axis=(0, 1), n_jobs=1)[0], axis=0),
            'compute_features_2d_list': lambda: pd.concat(compute_features_2d(sigs2, fs, fr, compute_features_kwargs=gk_list, axis=0, n_jobs=1), axis=0),
            'compute_features_2d_None_list': lambda: pd.concat(compute_features_2d(sigs2, fs, fr, compute_features_kwargs=gk_list, axis=None, n_jobs=1), axis=0),
            'compute_features_3d_grid': lambda: pd.concat(compute_features_3d(sigs3, fs, fr, compute_features_kwargs=gk_grid, axis=(0, 1), n_jobs=1)[0], axis=0),
            'compute_features_3d_axis1_list': lambda: pd.concat(compute_features_3d(sigs3, fs, fr, compute_features_kwargs=gk_list, axis=1, n_jobs=1)[0], axis=0),
        }
        if c['method'] == 'cycles':
            calls['recompute_edges'] = lambda: recompute_edges(df, th)

            def p1():
                plot_burst_detect_summary(df, sig, fs, th, xlim=(0.5, 1.5))
                plt.close('all')
                return pd.DataFrame()
            calls['plot_burst_detect_summary'] = p1

            def p4():
                plot_burst_detect_param(df, sig, fs, 'monotonicity', .5, xlim=(0.5, 1.5))
                plt.close('all')
                return pd.DataFrame()
            calls['plot_burst_detect_param'] = p4

        def p2():
            plot_cyclepoints_df(df, sig, fs, xlim=(0.2, 1.0))
            plt.close('all')
            return pd.DataFrame()

        def p3():
            r = O.roles(df)
            plot_cyclepoints_array(sig, fs, peaks=df[r['C']].values, troughs=df[r['L']].values)
            plt.close('all')
            return pd.DataFrame()
        calls['plot_cyclepoints_df'] = p2
        calls['plot_cyclepoints_array'] = p3
        names = sorted(calls)
        first = {}
        seq = [rng.choice(names) for _ in range(c['steps'])]
        must = [nm for nm in names if nm.endswith('_list') or nm.endswith('_grid')]
        seq += must + [rng.choice(must)]
        for k, name in enumerate(seq):
            try:
                res = calls[name]()
            except Exception as e:
                return '%s raised %r at step %d of %s' % (name, e, k, seq[:k + 1])
            for key in shared:
                if not deep_equal(shared[key], snap[key]):
                    return '%s modified the caller\'s %s (step %d of %s)' % (name, key, k, seq[:k + 1])
            if name in first:
                d = O.frames_identical(res, first[name])
                if d:
                    return '%s returned a different result on repetition after %s: %s' % (name, seq[:k], d)
            else:
                first[name] = res
        return None


def deep_equal(a, b):
    if isinstance(a, pd.DataFrame):
        return isinstance(b, pd.DataFrame) and O.frames_identical(a, b) is None
    if isinstance(a, np.ndarray):
        return isinstance(b, np.ndarray) and a.shape == b.shape and O.same_array(a, b)
    if isinstance(a, dict):
        return isinstance(b, dict) and list(a) == list(b) and all(deep_equal(a[k], b[k]) for k in a)
    if isinstance(a, (list, tuple)):
        return type(a) is type(b) and len(a) == len(b) and all(deep_equal(x, y) for x, y in zip(a, b))
    return a == b or (a != a and b != b)
