"""Loops: concrete unrolling, invariant-based cutting of symbolic loops, comprehensions, next(genexp)."""
import ast

import z3

from .values import (INT, REAL, BOOL, STR, XR, Z, X, Opt, Arr, Frame, SDict, Obj, Opaque, Ref, PyList,
                     fresh_name)
from . import lib
from .lib import Marker, term_int, _norm_elem, _elem_type
from .engine import (_chk, Unsupported, RaiseSig, BreakSig, ContinueSig, StopPath, Infeasible, lift, to_int,
                     zbool, is_sym)


class Iter:
    """iteration description: either concrete items, or (count term, element function)"""

    def __init__(self, items=None, count=None, elem=None, deps=()):
        self.items = items
        self.count = count
        self.elem = elem
        self.deps = deps          # array idents read lazily


def _concrete_int(v):
    return isinstance(v, int) and not isinstance(v, bool)


def make_iter(E, it, node):
    if isinstance(it, PyList):
        return Iter(items=list(it.items))
    if isinstance(it, (tuple, list)) and not (it and isinstance(it[0], str) and it[0] in
                                              ('range', 'enumerate', 'zip', 'genexp', 'symkeys', 'product')):
        return Iter(items=list(it))
    if isinstance(it, tuple) and it and it[0] == 'range':
        lo, hi = it[1], it[2]
        if _concrete_int(lo) and _concrete_int(hi):
            return Iter(items=list(range(lo, hi)))
        lo_t, hi_t = term_int(lo), term_int(hi)
        cnt = z3.simplify(z3.If(hi_t > lo_t, hi_t - lo_t, z3.IntVal(0)))
        return Iter(count=cnt, elem=lambda k: Z(z3.simplify(lo_t + k), INT))
    if isinstance(it, tuple) and it and it[0] == 'enumerate':
        inner = make_iter(E, it[1], node)
        if inner.items is not None:
            return Iter(items=[(i, x) for i, x in enumerate(inner.items)])
        return Iter(count=inner.count, elem=lambda k: (Z(k, INT) if not isinstance(k, int) else k, inner.elem(k)),
                    deps=inner.deps)
    if isinstance(it, tuple) and it and it[0] == 'zip' and len(it) == 2 and isinstance(it[1], tuple) and len(it[1]) == 2 \
            and it[1][0] == '*':
        # zip(*rows): the columns of a list of equally long lists
        from . import grid as _grid
        g = it[1][1]
        if _grid.is_grid(g) and g.lead == 2 and len(g.shape) == 2:
            n0, n1 = g.shape
            n0t = n0 if not isinstance(n0, int) else z3.IntVal(n0)
            n1t = n1 if not isinstance(n1, int) else z3.IntVal(n1)
            # (zip over zero rows yields nothing)
            cnt = z3.simplify(z3.If(n0t > 0, n1t, z3.IntVal(0)))
            return Iter(count=cnt, elem=lambda j: _grid.grid(E, (n0,), 1, (lambda i, j=j: E.st.heap[g.ident](i, j)), 'tuple',
                                                             owner=_grid.owner_of(g)), deps=(g.ident,))
        raise Unsupported('zip(*%r)' % (g,))
    if isinstance(it, tuple) and it and it[0] == 'zip':
        inners = [make_iter(E, x, node) for x in it[1:]]
        if all(i.items is not None for i in inners):
            return Iter(items=[tuple(t) for t in zip(*[i.items for i in inners])])
        if any(i.items is not None for i in inners):
            raise Unsupported('zip of concrete and symbolic iterables')
        cnt = inners[0].count
        for i in inners[1:]:
            cnt = z3.If(i.count < cnt, i.count, cnt)
        return Iter(count=z3.simplify(cnt), elem=lambda k: tuple(i.elem(k) for i in inners),
                    deps=tuple(d for i in inners for d in i.deps))
    if isinstance(it, tuple) and it and it[0] == 'product' and len(it) == 3:
        # itertools.product(a, b): all pairs, the second component running fastest
        ia, ib = make_iter(E, it[1], node), make_iter(E, it[2], node)
        if ia.items is not None and ib.items is not None:
            return Iter(items=[(x, y) for x in ia.items for y in ib.items])
        ca = ia.count if ia.items is None else z3.IntVal(len(ia.items))
        cb = ib.count if ib.items is None else z3.IntVal(len(ib.items))
        if ia.items is not None or ib.items is not None:
            raise Unsupported('product of a concrete and a symbolic iterable')
        return Iter(count=z3.simplify(ca * cb), elem=lambda k: (ia.elem(k / cb), ib.elem(k % cb)), deps=ia.deps + ib.deps)
    from . import grid as _grid
    if isinstance(it, _grid.Lazy):
        return Iter(count=it.count, elem=it.elem)
    if _grid.is_grid(it):
        return _grid.grid_iter(E, it)
    if isinstance(it, Arr):
        if it.ndim != 1:
            raise Unsupported('iteration over N-d array')
        src = E.st.heap[it.ident]
        a = it
        return Iter(count=a.n if not isinstance(a.n, int) else z3.IntVal(a.n),
                    elem=lambda k: src(a.off + k * a.stride), deps=(a.ident,))
    if isinstance(it, Marker) and it.kind == 'records':
        f = it.obj
        srcs = {c: (E.st.heap[a.ident], a) for c, a in f.cols.items()}
        return Iter(count=f.n, elem=lambda k: {c: s(a.off + k * a.stride) for c, (s, a) in srcs.items()})
    if isinstance(it, Marker) and it.kind in ('items', 'keys'):
        d = it.obj
        if all(isinstance(p, bool) for p, _ in d.items.values()):
            if it.kind == 'items':
                return Iter(items=[(k, v) for k, (p, v) in d.items.items() if p])
            return Iter(items=[k for k, (p, v) in d.items.items() if p])
        return Iter(items=[('maybe', p, (k, v) if it.kind == 'items' else k) for k, (p, v) in d.items.items()])
    if isinstance(it, tuple) and it and it[0] == 'symkeys':
        d = it[1]
        return Iter(items=[('maybe', p, k) for k, (p, v) in d.items.items()])
    if isinstance(it, Marker) and it.kind == 'columns':
        return Iter(items=list(it.obj.cols))
    raise Unsupported('iteration over %r (line %s)' % (it, getattr(node, 'lineno', '?')))


def assigned_names(body):
    names = set()
    for stmt in body:
        for n in ast.walk(stmt):
            if isinstance(n, ast.Name) and isinstance(n.ctx, ast.Store):
                names.add(n.id)
    return names


def stored_roots(body):
    """names of objects mutated through subscript stores / known mutating methods inside body"""
    roots = set()
    for stmt in body:
        for n in ast.walk(stmt):
            tgt = []
            if isinstance(n, ast.Assign):
                tgt = n.targets
            elif isinstance(n, ast.AugAssign):
                tgt = [n.target]
            for t in tgt:
                for sub in ast.walk(t):
                    if isinstance(sub, ast.Subscript):
                        r = sub.value
                        while isinstance(r, (ast.Subscript, ast.Attribute)):
                            r = r.value
                        if isinstance(r, ast.Name):
                            roots.add(r.id)
            if isinstance(n, ast.Call) and isinstance(n.func, ast.Attribute) and n.func.attr in ('append', 'pop'):
                r = n.func.value
                while isinstance(r, (ast.Subscript, ast.Attribute)):
                    r = r.value
                if isinstance(r, ast.Name):
                    roots.add(r.id)
    return roots


def havoc_value(E, name, v):
    if isinstance(v, bool):
        return E.fresh_z(name, BOOL)
    if isinstance(v, int):
        return E.fresh_z(name, INT)
    if isinstance(v, float):
        return E.fresh_z(name, REAL)
    if isinstance(v, Z):
        return E.fresh_z(name, v.ty)
    if isinstance(v, X):
        return E.fresh_z(name, XR)
    if isinstance(v, Frame):
        # a table local rebound inside the loop: same shape, unknown contents (pinned again by the invariant)
        cols = {c: E.new_arr(v.n, a.ty, kind='series', base='%s.%s@loop' % (name, c)) for c, a in v.cols.items()}
        f = Frame(v.ident, v.n, cols)
        return f
    if isinstance(v, Arr) and v.ndim == 1 and getattr(v, 'lead', None) is None and v.stride == 1:
        # a rebound 1-D array local: the same storage, an unknown window INSIDE the window it had at loop entry (every
        # iteration must re-establish this: 'rebound-window' obligation after the body)
        off2 = z3.Int(fresh_name(name + '.start@loop'))
        n2 = z3.Int(fresh_name(name + '.len@loop'))
        n0 = v.n if not isinstance(v.n, int) else z3.IntVal(v.n)
        off0 = v.off if not isinstance(v.off, int) else z3.IntVal(v.off)
        E.assume(z3.And(off2 >= off0, n2 >= 0, off2 + n2 <= off0 + n0))
        return Arr(v.ident, (n2,), v.ty, v.kind, off2, 1, writeable=v.writeable)
    if isinstance(v, Arr):
        raise Unsupported('array local %s rebound inside a symbolic loop' % name)
    if v is None:
        raise Unsupported('local %s is None before the loop and assigned inside it' % name)
    raise Unsupported('cannot havoc %s = %r' % (name, v))


def _keep_by_instances(E, goal, hyps, s, nm):
    """a universally quantified invariant re-established for arbitrary (fresh) values of its bound variables from the
    INSTANCES, at those same values, of the quantified hypotheses (the invariant before the iteration, the named facts):
    a quantifier-free query; when it does not go through, the ordinary quantified attempt follows"""
    import itertools
    nv = goal.num_vars()
    fresh = [z3.Const(fresh_name('keep.' + goal.var_name(k)), goal.var_sort(k)) for k in range(nv)]
    body = z3.substitute_vars(goal.body(), *reversed(fresh))
    ground = []
    for h in hyps:
        if z3.is_quantifier(h) and h.is_forall():
            m = h.num_vars()
            if m > 2:
                continue
            cands = [f for f in fresh]
            for combo in itertools.product(cands, repeat=m):
                if all(c.sort() == h.var_sort(k) for k, c in enumerate(combo)):
                    ground.append(z3.substitute_vars(h.body(), *reversed(combo)))
        else:
            ground.append(h)
    from .engine import Obligation, _has_quant
    qf = [a for a in E.assumptions if not _has_quant(a)]
    sol = z3.Solver()
    sol.set('timeout', min(E.timeout_ms, 4000))
    for a in qf + ground:
        sol.add(a)
    sol.add(z3.Not(body))
    import time as _t
    t0 = _t.time()
    r = _chk(sol)
    if r != z3.unsat:
        return False
    ob = Obligation(nm, 'inv-keep', qf + ground, body, getattr(s, 'lineno', None), 'by instances')
    ob.status, ob.backend, ob.time = 'unsat', 'z3', _t.time() - t0
    ob.path = list(E.trace[:E.pos])
    E.stats['z3_time'] += ob.time
    E.stats['checks'] += 1
    E._record(ob)
    E.assume(goal)
    return True


def _check_attr_stores(body, base, attrs):
    for stmt in body:
        for n in ast.walk(stmt):
            tgts = n.targets if isinstance(n, ast.Assign) else ([n.target] if isinstance(n, ast.AugAssign) else [])
            for t in tgts:
                for sub in ast.walk(t):
                    if isinstance(sub, (ast.Subscript, ast.Attribute)) and isinstance(sub.ctx, ast.Store):
                        r = sub
                        chain = []
                        while isinstance(r, (ast.Subscript, ast.Attribute)):
                            if isinstance(r, ast.Attribute):
                                chain.append(r.attr)
                            r = r.value
                        if isinstance(r, ast.Name) and r.id == base:
                            if not chain or chain[-1] not in attrs:
                                raise Unsupported('store through %s outside the declared attributes %s' % (base, sorted(attrs)))


def _same_binding(a, b):
    if a is b:
        return True
    if isinstance(a, Arr) and isinstance(b, Arr):
        return a.ident == b.ident and str(a.off) == str(b.off) and a.stride == b.stride and str(a.n) == str(b.n)
    if isinstance(a, Z) and isinstance(b, Z):
        return a.t.eq(b.t)
    return a == b if isinstance(a, (int, float, str, bool, type(None))) else False


def exec_for(E, s):
    it = E.eval(s.iter)
    if isinstance(it, tuple) and it and it[0] == 'zip':
        for k, comp in enumerate(it[1:]):
            E.st.env['_zip%d' % k] = comp          # ghost names for loop invariants
    spec_iter = make_iter(E, it, s)
    if spec_iter.items is not None:
        try:
            for item in spec_iter.items:
                if isinstance(item, tuple) and len(item) == 3 and item[0] == 'maybe':
                    p = item[1]
                    if not E.branch(Z(p, BOOL) if not isinstance(p, bool) else p, 'key-present'):
                        continue
                    item = item[2]
                E.assign(s.target, item)
                try:
                    E.exec_block(s.body)
                except ContinueSig:
                    continue
        except BreakSig:
            return
        E.exec_block(s.orelse)
        return
    # ---------------- symbolic loop: cut by the invariant from the sidecar contract
    ordinal = E.loop_ordinals.get(id(s))
    spec = (E.case.get('loops') or {}).get(ordinal) or (E.contract.get('loops') or {}).get(ordinal)
    if spec is None:
        raise Unsupported('loop #%s (line %d) has symbolic length and no invariant in the contract'
                          % (ordinal, s.lineno))
    kname = spec.get('index', '_k')
    N = spec_iter.count
    env = E.st.env
    E.run_hook(('loop_entry', ordinal), s)
    # lists grown by append inside the loop
    for name, ty in (spec.get('appends') or {}).items():
        v = env.get(name)
        if isinstance(v, PyList) and not v.items:
            env[name] = E.new_arr(0, ty, lambda i: lift(0), 'list')
    invs = spec.get('invariant', [])

    def inv_env(kval):
        e = dict(E.st.env)
        e[kname] = kval
        return e
    for j, inv in enumerate(invs):
        E.oblige('inv-init', E.spec_bool(inv, inv_env(0)), s, name='%s/loop%d/inv-init#%d' % (E.fn_short, ordinal, j + 1))
    names = assigned_names(s.body) | assigned_names([ast.Assign(targets=[s.target], value=ast.Constant(0))])
    roots = stored_roots(s.body) | set(spec.get('mutates') or [])
    target_names = {n.id for n in ast.walk(s.target) if isinstance(n, ast.Name)}

    preserved = set(spec.get('preserved') or [])
    entry_vals = {name: env[name] for name in names if name in env}

    def check_rebinding():
        # after a body path that continues with the next iteration
        for name in sorted(preserved):
            if name in entry_vals and not _same_binding(entry_vals[name], env.get(name)):
                raise Unsupported('loop local %s is declared preserved but a continuing path rebinds it' % name)
        for name in sorted(names - target_names - preserved - set(regrown)):
            v0, v1 = entry_vals.get(name), env.get(name)
            if isinstance(v0, Arr) and name not in roots and v0.ndim == 1 and getattr(v0, 'lead', None) is None:
                if not (isinstance(v1, Arr) and v1.ident == v0.ident and v1.stride == v0.stride == 1):
                    raise Unsupported('array local %s rebound to different storage inside a symbolic loop' % name)
                t = lambda x: x if not isinstance(x, int) else z3.IntVal(x)
                E.oblige('rebound-window', z3.And(t(v1.off) >= t(v0.off), t(v1.n) >= 0,
                                                  t(v1.off) + t(v1.n) <= t(v0.off) + t(v0.n)), s,
                         name='%s/loop%d/rebound-window:%s' % (E.fn_short, ordinal, name))

    regrown = dict(spec.get('regrown') or {})

    def havoc():
        for name, ty in regrown.items():
            # an array local that every iteration REBINDS to a new, longer array (x = np.append(x, ...)): at the loop head it
            # is some array of unknown length and contents, constrained by the invariant alone
            n_ = z3.Int(fresh_name(name + '.len'))
            E.assume(n_ >= 0)
            env[name] = E.new_arr(n_, ty, base=name + '@loop')
        for name in sorted(names - target_names):
            if name in regrown:
                continue
            if name in preserved:
                continue          # assigned only on paths that leave the loop: checked after every body path
            if name in env and name not in roots:
                env[name] = havoc_value(E, name, env[name])

        attr_roots = {r.split('.', 1)[0] for r in roots if '.' in r}
        for name in sorted(roots):
            if name in attr_roots and isinstance(env.get(name), Obj):
                # stores through an object go to the attributes named in `mutates` ('self.models'); which attributes a
                # store inside the body may reach is checked syntactically
                _check_attr_stores(s.body, name, {r.split('.', 1)[1] for r in roots if r.startswith(name + '.')})
                continue
            if '.' in name:
                base, attr = name.split('.', 1)
                o = env.get(base)
                v = o.attrs.get(attr) if isinstance(o, Obj) else None
            else:
                v = env.get(name)
            if isinstance(v, Arr) and getattr(v, 'lead', None) is not None:
                # a list / array of element objects mutated in place, element by element
                if v.ident in spec_iter.deps and not spec.get('elementwise'):
                    raise Unsupported('loop mutates the array it iterates over')
                from .engine import _opq
                fn = z3.Function(fresh_name(name + '@loop'), *([z3.IntSort()] * v.lead), z3.DeclareSort('Val'))
                E.st.heap[v.ident] = (lambda *idx, fn=fn: _opq(fn(*idx)))
            elif isinstance(v, Arr):
                if v.ident in spec_iter.deps:
                    raise Unsupported('loop mutates the array it iterates over')
                E.st.heap[v.ident] = E.base_closure(name + '@loop', v.ty)
                if v.kind == 'list' and name in (spec.get('appends') or {}):
                    n = z3.Int(fresh_name(name + '.len'))
                    E.assume(n >= 0)
                    env[name] = Arr(v.ident, (n,), v.ty, 'list')
            elif isinstance(v, PyList) and name in (spec.get('opaque_lists') or []):
                env[name] = PyList(v.ident, [])      # a list only appended to; its contents are not tracked
            elif isinstance(v, Frame):
                if name in assigned_names(s.body):
                    continue                          # re-created in every iteration
                raise Unsupported('frame mutated in symbolic loop: %s' % name)
            elif v is None:
                continue
            else:
                raise Unsupported('mutated object %s = %r in symbolic loop' % (name, v))
    c = E.choose(2, 'loop%d' % ordinal)
    if c == 0:
        havoc()
        k = z3.Int(fresh_name(kname))
        E.assume(z3.And(k >= 0, k < N))
        inv_assumed = []
        for inv in invs:
            t = E.spec_bool(inv, inv_env(Z(k, INT)))
            inv_assumed.append(t)
            E.assume(t)
        E.st.ghost.setdefault('facts', {})['loop%d-inv' % ordinal] = list(inv_assumed)
        if not E.feasible():
            raise Infeasible()
        E.assign(s.target, spec_iter.elem(k))
        try:
            E.exec_block(s.body)
        except ContinueSig:
            pass
        except BreakSig:
            return
        check_rebinding()
        for j, be in enumerate(spec.get('body_ensures') or []):
            # facts about the locals of an arbitrary iteration (per-iteration postcondition)
            goal_be = E.spec_bool(be, inv_env(Z(k, INT)))
            nm_be = '%s/loop%d/body-ensures#%d' % (E.fn_short, ordinal, j + 1)
            bu = spec.get('body_using')
            facts_ = E.st.ghost.get('facts', {})
            if bu is not None and all(u in facts_ for u in bu):
                hyps_ = []
                for u in bu:
                    v_ = facts_[u]
                    hyps_.extend(v_ if isinstance(v_, list) else [v_])
                E.oblige_focused('body-ensures', hyps_, goal_be, s, name=nm_be)
            else:
                E.oblige('body-ensures', goal_be, s, name=nm_be)
        using = spec.get('using')
        for j, inv in enumerate(invs):
            goal = E.spec_bool(inv, inv_env(Z(k + 1, INT)))
            nm = '%s/loop%d/inv-keep#%d' % (E.fn_short, ordinal, j + 1)
            if using is None:
                E.oblige('inv-keep', goal, s, name=nm)
            else:
                facts = E.st.ghost.get('facts', {})
                hyps = list(inv_assumed)
                for u in using:
                    v = facts.get(u)
                    if v is not None:
                        hyps.extend(v if isinstance(v, list) else [v])
                if z3.is_quantifier(goal) and goal.is_forall() and _keep_by_instances(E, goal, hyps, s, nm):
                    continue
                E.oblige_focused('inv-keep', hyps, goal, s, name=nm)
        raise StopPath()
    havoc()
    exit_facts = []
    for inv in invs:
        t = E.spec_bool(inv, inv_env(Z(N, INT)))
        exit_facts.append(t)
        E.assume(t)
    E.st.ghost.setdefault('facts', {})['loop%d-exit' % ordinal] = exit_facts
    E.st.ghost.setdefault('facts', {})['loop%d-inv' % ordinal] = exit_facts
    if not E.feasible():
        raise Infeasible()
    E.st.env[kname] = Z(N, INT)
    E.exec_block(s.orelse)


def eval_comprehension(E, n):
    if len(n.generators) == 2 and not n.generators[0].ifs and not n.generators[1].ifs:
        # [x for row in rows for x in row] over a list of equally long lists of opaque values: the row-major flattening
        from . import grid as _grid
        g0, g1 = n.generators
        outer = E.eval(g0.iter)
        if (_grid.is_grid(outer) and outer.lead == 2 and len(outer.shape) == 2 and isinstance(g0.target, ast.Name)
                and isinstance(g1.iter, ast.Name) and g1.iter.id == g0.target.id and isinstance(g1.target, ast.Name)
                and isinstance(n.elt, ast.Name) and n.elt.id == g1.target.id):
            flat = _grid.grid_flatten(E, outer, n)
            flat.kind = 'list'
            if getattr(outer, 'elem_kind', None):
                flat.elem_kind = outer.elem_kind
            return flat
        raise Unsupported('nested comprehension')
    if len(n.generators) != 1:
        raise Unsupported('nested comprehension')
    gen = n.generators[0]
    it = E.eval(gen.iter)
    spec_iter = make_iter(E, it, n)
    env = E.st.env
    saved = dict(env)
    try:
        if spec_iter.items is not None:
            out = []
            for item in spec_iter.items:
                if isinstance(item, tuple) and len(item) == 3 and item[0] == 'maybe':
                    raise Unsupported('comprehension over symbolic-presence keys')
                E.assign(gen.target, item)
                keep = True
                for cond in gen.ifs:
                    c = E.eval(cond)
                    if E.spec_mode:
                        if is_sym(c):
                            raise Unsupported('symbolic filter in spec comprehension')
                        keep = bool(c)
                    else:
                        keep = E.branch(c, 'comp-if')
                    if not keep:
                        break
                if keep:
                    out.append(E.eval(n.elt))
            return PyList(E.new_ident(), out)
        N = spec_iter.count
        # pass 1: a generic element in code mode, for its obligations
        if not E.spec_mode:
            k = z3.Int(fresh_name('ck'))
            E.assume(z3.And(k >= 0, k < N))
            E.assign(gen.target, spec_iter.elem(k))
            ok = True
            for cond in gen.ifs:
                ok = E.branch(E.eval(cond), 'comp-if')
                if not ok:
                    break
            if ok:
                E.eval(n.elt)
        # pass 2: definitional closures
        base_env = dict(saved)

        def at(i, node):
            E.spec_mode += 1
            old_env = E.st.env
            E.st.env = dict(base_env)
            try:
                E.assign(gen.target, spec_iter.elem(i))
                return E.eval(node)
            finally:
                E.st.env = old_env
                E.spec_mode -= 1
        from . import grid as _grid
        probe0 = at(z3.Int(fresh_name('probe')), n.elt)
        if _grid.is_grid(probe0) and probe0.lead == 1 and not gen.ifs:
            # a list of lists of opaque values: entry [i][j] = (element i of the comprehension)[j]
            def cell(i, j):
                g = at(i, n.elt)
                return E.st.heap[g.ident](j)
            return _grid.grid(E, (N, probe0.shape[0]), 2, cell, 'list')
        probe = _norm_elem(probe0)
        ty = _elem_type(probe)
        values = E.new_arr(N, ty, lambda i: _norm_elem(at(i, n.elt)), 'list')
        if not gen.ifs:
            return values

        def mask_at(i):
            ts = [zbool(at(i, cond)) for cond in gen.ifs]
            return Z(z3.And(*ts), BOOL)
        mask = E.new_arr(N, BOOL, mask_at, 'list')
        r = lib.compress(E, values, mask, n)
        r.kind = 'list'
        return r
    finally:
        env.clear()
        env.update(saved)
        E.st.env = env


def eval_next(E, args, node):
    g = args.pos[0]
    if isinstance(g, dict) and g.get('__cycle__') is not None:
        # itertools.cycle over a python list: the position is concrete
        items = g['__cycle__']
        v = items[g['pos'] % len(items)]
        g['pos'] += 1
        return v
    if not (isinstance(g, tuple) and g and g[0] == 'genexp'):
        raise Unsupported('next() of %r' % (g,))
    gnode, genv = g[1], g[2]
    if len(gnode.generators) != 1:
        raise Unsupported('nested generator')
    gen = gnode.generators[0]
    saved = E.st.env
    E.st.env = dict(genv)
    try:
        it = E.eval(gen.iter)
        spec_iter = make_iter(E, it, node)
        if spec_iter.items is not None:
            for item in spec_iter.items:
                E.assign(gen.target, item)
                if all(E.branch(E.eval(c), 'next-if') for c in gen.ifs):
                    return E.eval(gnode.elt)
            raise RaiseSig('StopIteration', node)
        N = spec_iter.count
        base_env = dict(E.st.env)

        def pred(i):
            E.spec_mode += 1
            old_env = E.st.env
            E.st.env = dict(base_env)
            try:
                E.assign(gen.target, spec_iter.elem(i))
                ts = [zbool(E.eval(c)) for c in gen.ifs]
                return z3.And(*ts) if ts else z3.BoolVal(True)
            finally:
                E.st.env = old_env
                E.spec_mode -= 1
        # an explicit witness from the sidecar contract (keyed by the line-order ordinal of this next() call) turns
        # "some element satisfies the predicate" into a ground obligation; StopIteration is then unreachable
        nexts = sorted([n_ for n_ in ast.walk(E.fdef) if isinstance(n_, ast.Call) and isinstance(n_.func, ast.Name)
                        and n_.func.id == 'next'], key=lambda n_: (n_.lineno, n_.col_offset))
        ordinal = 1 + [id(n_) for n_ in nexts].index(id(node)) if id(node) in [id(n_) for n_ in nexts] else None
        wit = ((E.case.get('witness') or {}).get(ordinal) or (E.contract.get('witness') or {}).get(ordinal)) if ordinal else None
        have_witness = False
        if wit is not None and not E.spec_mode:
            env_w = dict(saved)
            w = E.spec_eval(wit, env_w)
            wt = term_int(w)
            E.oblige('proof', z3.And(wt >= 0, wt < N, pred(wt)), node,
                     name='%s/next#%d-witness' % (E.fn_short, ordinal))
            have_witness = True
        j = z3.Int(fresh_name('j'))
        exists = z3.Exists([j], z3.And(j >= 0, j < N, pred(j)))
        c = 0 if have_witness else E.choose(2, 'next')
        if c == 1:
            jj = z3.Int(fresh_name('j'))
            E.assumptions_quant(z3.ForAll([jj], z3.Implies(z3.And(jj >= 0, jj < N), z3.Not(pred(jj)))))
            if not E.feasible():
                raise Infeasible()
            raise RaiseSig('StopIteration', node)
        r = z3.Int(fresh_name('first'))
        E.assume(z3.And(r >= 0, r < N, pred(r)))
        jj = z3.Int(fresh_name('j'))
        none_before = z3.ForAll([jj], z3.Implies(z3.And(jj >= 0, jj < r), z3.Not(pred(jj))))
        E.assumptions_quant(none_before)
        if ordinal and not E.spec_mode:
            E.st.ghost.setdefault('facts', {})['next#%d' % ordinal] = [z3.And(r >= 0, r < N, pred(r)), none_before]
        if not E.feasible():
            raise Infeasible()
        E.assign(gen.target, spec_iter.elem(r))
        return E.eval(gnode.elt)
    finally:
        E.st.env = saved
