"""Sidecar contracts for the real functions under /repo/bycycle (no edit of /repo)."""
CONTRACTS = {}


def contract(qual, **kw):
    CONTRACTS[qual] = kw
    return kw


# ---- result makers for call sites: a fresh value of the declared shape, constrained only by `ensures`
def arr_result(ty, kind='ndarray', n_of=None):
    def make(E, env):
        import z3
        from vf.values import fresh_name
        n = z3.Int(fresh_name('res.len'))
        E.assume(n >= 0)
        return E.new_arr(n, ty, kind=kind, base='res')
    return make


def frame_result(cols_of):
    """cols_of(env) -> {column: type}"""
    def make(E, env):
        import z3
        from vf.values import fresh_name, Frame
        n = z3.Int(fresh_name('res.nrows'))
        E.assume(n >= 0)
        cols = {c: E.new_arr(n, ty, kind='series', base='res.' + c) for c, ty in cols_of(env).items()}
        return Frame(E.new_ident(), n, cols)
    return make
