"""Symbolic value domain of the pyvc engine (DESIGN.md section 2.2)."""
import itertools
import z3

INT, REAL, BOOL, STR, XR, VAL = 'int', 'real', 'bool', 'str', 'xr', 'val'

_counter = itertools.count()


def reset_names():
    global _counter
    _counter = itertools.count()


def fresh_name(base):
    return '%s!%d' % (base, next(_counter))


# ---------------------------------------------------------------- strings (interned enum)
_STR_CODES = {}


def str_code(s):
    if s not in _STR_CODES:
        _STR_CODES[s] = len(_STR_CODES) + 1
    return _STR_CODES[s]


def str_of_code(c):
    for s, k in _STR_CODES.items():
        if k == c:
            return s
    return '<other string #%s>' % c


ValSort = z3.DeclareSort('Val')
SeqSort = z3.DeclareSort('Seq')     # array values as opaque terms of a sequence algebra (for reductions)     # opaque python values (signals, tables, option sets at group level)


def sort_of(ty):
    return {INT: z3.IntSort(), REAL: z3.RealSort(), BOOL: z3.BoolSort(), STR: z3.IntSort(),
            VAL: ValSort, XR: XRS}[ty]


# extended real: tag 0 finite, 1 nan, 2 +inf, 3 -inf
FIN, NAN, PINF, NINF = 0, 1, 2, 3


class Z:
    """Symbolic scalar: z3 term + python-level type tag."""
    __slots__ = ('t', 'ty')

    def __init__(self, t, ty):
        self.t = t
        self.ty = ty

    def __repr__(self):
        return 'Z(%s:%s)' % (self.t, self.ty)




_XR = z3.Datatype('XR')
_XR.declare('mk', ('tag', z3.IntSort()), ('val', z3.RealSort()))
XRS = _XR.create()


class X:
    """Extended real scalar (IEEE specials without rounding): one term of the datatype XR."""
    __slots__ = ('t',)
    ty = XR

    def __init__(self, t):
        self.t = t

    @property
    def tag(self):
        return XRS.tag(self.t)

    @property
    def val(self):
        return XRS.val(self.t)

    def __repr__(self):
        return 'X(%s)' % (self.t,)


def x_fin(v):
    return X(XRS.mk(z3.IntVal(FIN), v))


def x_nan():
    return X(XRS.mk(z3.IntVal(NAN), z3.RealVal(0)))


class NoneT:
    pass


class Opt:
    """None-or-scalar decided by a symbolic flag (used for dict.get / pop defaults of None)."""
    __slots__ = ('isnone', 'val')

    def __init__(self, isnone, val):
        self.isnone = isnone
        self.val = val


class Arr:
    """ndarray / Series / symbolic-length list.  Contents live in state.heap[ident] as a python
    closure index-term -> element value; views share ident with (off, stride)."""

    def __init__(self, ident, shape, ty, kind='ndarray', off=0, stride=1, writeable=True, rows=None):
        self.ident = ident
        self.shape = tuple(shape)
        self.ty = ty
        self.kind = kind
        self.off = off
        self.stride = stride
        self.writeable = writeable

    @property
    def n(self):
        return self.shape[0]

    @property
    def ndim(self):
        return len(self.shape)

    def __repr__(self):
        return 'Arr(#%s %s %s%s)' % (self.ident, self.kind, self.ty, list(self.shape))


class Frame:
    """pandas DataFrame with a static column set; each column is an Arr of kind 'series'."""

    def __init__(self, ident, n, cols):
        self.ident = ident
        self.n = n
        self.cols = cols        # ordered dict name -> Arr

    def __repr__(self):
        return 'Frame(#%s n=%s cols=%s)' % (self.ident, self.n, list(self.cols))


class SDict:
    """dict over a finite declared key universe with symbolic presence bits."""

    def __init__(self, ident, items):
        self.ident = ident
        self.items = items      # key -> [present (z3 Bool or python bool), value]

    def __repr__(self):
        return 'SDict(#%s %s)' % (self.ident, list(self.items))


class Obj:
    """python object with attributes (self of the Bycycle classes, modules of no interest)."""

    def __init__(self, ident, cls, attrs=None):
        self.ident = ident
        self.cls = cls
        self.attrs = attrs if attrs is not None else {}


class Opaque:
    """A value the engine does not look into; carried as a term of sort Val."""

    def __init__(self, t, note=''):
        self.t = t
        self.note = note

    def __repr__(self):
        return 'Opaque(%s)' % self.t


class Ref:
    """Reference to a callable or module by qualified name."""

    def __init__(self, qual, kind='func', bound=None):
        self.qual = qual
        self.kind = kind
        self.bound = bound

    def __repr__(self):
        return 'Ref(%s)' % self.qual


class PyList:
    """python list of statically known length (mutable, identity tracked)."""

    def __init__(self, ident, items):
        self.ident = ident
        self.items = items

    def __repr__(self):
        return 'PyList(#%s %r)' % (self.ident, self.items)
