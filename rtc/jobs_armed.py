"""Armed contracts: the SAME contract text the deductive side proves is evaluated concretely on real calls of the
functions under contract, on corpus inputs.  A failure here means the contract (or the engine's reading of it) disagrees
with the real code on a real input: a checker error if the proof went through, a violation replay otherwise."""
import copy
import json
import os
import random

import numpy as np
import pandas as pd

from .core import job
from . import ceval
from .signals import FAMILIES, make_signal

_C = None


def contracts():
    global _C
    if _C is None:
        with open(os.environ.get('VF_CONTRACTS_JSON', '/verif/evidence/.contracts.json')) as f:
            _C = json.load(f)
    return _C


def tmatch(T, v):
    if isinstance(T, str):
        if T == 'none':
            return v is None
        if T == 'any':
            return True
        if T == 'opaque':
            return isinstance(v, dict)
        if T == 'str':
            return isinstance(v, str)
        if T == 'bool':
            return isinstance(v, (bool, np.bool_))
        if T == 'int':
            return isinstance(v, (int, np.integer)) and not isinstance(v, bool)
        if T in ('real', 'xr'):
            return isinstance(v, (int, float, np.integer, np.floating)) and not isinstance(v, bool)
        return False
    tag = T[0]
    if tag == 'const':
        c = T[1]
        if isinstance(c, list):
            c = tuple(c)
        return type(v) is type(c) and v == c
    if tag in ('arr', 'series', 'list', 'nd'):
        return isinstance(v, (np.ndarray, pd.Series, list))
    if tag == 'frame':
        return isinstance(v, pd.DataFrame) and all(c in v.columns for c in T[1])
    if tag == 'dict':
        return isinstance(v, dict) and all(k in T[1] for k in v)
    if tag == 'tuple':
        return isinstance(v, tuple) and len(v) == len(T[1])
    return False


def pick_case(qual, args):
    c = contracts()[qual]
    for case in c['cases']:
        types = dict(c.get('params', {}))
        types.update(case.get('params', {}))
        if all(tmatch(T, args.get(p)) for p, T in types.items() if p in args):
            ok = True
            for r in case.get('requires', []):
                try:
                    if not ceval.eval_clause(r, args, args):
                        ok = False
                        break
                except ceval.Skip:
                    continue
                except Exception:
                    ok = False
                    break
            if ok:
                return c, case
    return c, None


def armed_call(qual, fn, args):
    c, case = pick_case(qual, args)
    if case is None:
        return None          # outside every typed case: nothing to say
    r = ceval.check_call(fn, args, case, c['base'])
    if r and r.startswith('SKIP'):
        return None
    if r:
        return '%s[%s]: %s' % (qual.split('.')[-1], case.get('label', ''), r)
    return None


@job('armed', props=['C01', 'C04', 'C05', 'C06', 'C07', 'C08', 'C15', 'C19'], function='*')
class Armed:
    chunk = 1

    def bound(self, tier):
        return ('every function under contract called on real intermediate values of the pipeline for the signal corpus '
                '(%d seed(s) per family, both centrings, both burst methods); contract clauses evaluated concretely with '
                'tolerance 1e-12 on real-valued clauses' % (1 if tier == 'quick' else 3))

    def gen(self, tier, seed):
        for fam in FAMILIES:
            for s in range(1 if tier == 'quick' else 3):
                for centre in ('peak', 'trough'):
                    for method in ('cycles', 'amp'):
                        yield dict(family=fam, seed=seed * 10 + s, centre=centre, method=method)

    def nontrivial(self, c):
        return True

    def run(self, c):
        from bycycle.features import compute_features, compute_shape_features, compute_burst_features, compute_cyclepoints
        from bycycle.features import shape as sh, burst as bu
        from bycycle.burst import detect_bursts_cycles, detect_bursts_amp
        from bycycle.burst.utils import check_min_burst_cycles
        from bycycle.utils.dataframes import rename_extrema_df, drop_samples_df
        rng = random.Random(c['seed'])
        sig = make_signal(c['family'], c['seed'], n=1000)
        fs, fr = 500.0, (7.0, 13.0)
        fek = rng.choice([None, {'boundary': 2}, {'filter_kwargs': {'n_cycles': 4}, 'boundary': 0}])
        centre = c['centre']
        s_used = sig if centre == 'peak' else -sig
        P = 'bycycle.features.'
        calls = []
        samples = compute_cyclepoints(s_used, fs, fr, **(copy.deepcopy(fek) or {'filter_kwargs': {'n_cycles': 3}}))
        calls.append((P + 'cyclepoints.compute_cyclepoints', compute_cyclepoints,
                      dict(sig=s_used, fs=fs, f_range=fr, find_extrema_kwargs=copy.deepcopy(fek) or {'filter_kwargs': {'n_cycles': 3}})))
        calls.append((P + 'shape.compute_durations', sh.compute_durations, dict(df_samples=samples)))
        calls.append((P + 'shape.compute_extrema_voltage', sh.compute_extrema_voltage, dict(df_samples=samples, sig=s_used)))
        calls.append((P + 'shape.compute_symmetry', sh.compute_symmetry,
                      dict(df_samples=samples, sig=s_used, period=None, time_peak=None, time_trough=None)))
        calls.append((P + 'shape.compute_band_amp', sh.compute_band_amp,
                      dict(df_samples=samples, sig=s_used, fs=fs, f_range=fr, n_cycles=3.0)))
        calls.append((P + 'shape.compute_shape_features', compute_shape_features,
                      dict(sig=sig, fs=fs, f_range=fr, center_extrema=centre, find_extrema_kwargs=copy.deepcopy(fek), n_cycles=3.0)))
        shapes = compute_shape_features(sig, fs, fr, center_extrema=centre, find_extrema_kwargs=copy.deepcopy(fek))
        for d in ('both', 'next', 'last'):
            calls.append((P + 'burst.compute_amp_consistency', bu.compute_amp_consistency, dict(df_shape_features=shapes, direction=d)))
            calls.append((P + 'burst.compute_period_consistency', bu.compute_period_consistency, dict(df_shape_features=shapes, direction=d)))
        calls.append((P + 'burst.compute_amp_fraction', bu.compute_amp_fraction, dict(df_shape_features=shapes)))
        calls.append((P + 'burst.compute_monotonicity', bu.compute_monotonicity, dict(df_samples=shapes, sig=sig)))
        calls.append((P + 'burst.compute_burst_fraction', bu.compute_burst_fraction,
                      dict(df_samples=shapes, sig=sig, fs=fs, f_range=fr, amp_threshes=(1.0, 2.0), min_n_cycles=3,
                           min_burst_duration=None, filter_kwargs=None)))
        if c['method'] == 'cycles':
            th = dict(amp_fraction_threshold=0.1, amp_consistency_threshold=.4, period_consistency_threshold=.4,
                      monotonicity_threshold=.6, min_n_cycles=2)
            bk = None
            calls.append((P + 'burst.compute_burst_features', compute_burst_features,
                          dict(df_shape_features=shapes, sig=sig, burst_method='cycles', burst_kwargs=None)))
            feats = pd.concat((compute_burst_features(shapes, sig), shapes), axis=1)
            calls.append(('bycycle.burst.cycle.detect_bursts_cycles', detect_bursts_cycles, dict(df_features=feats.copy(), **th)))
        else:
            th = dict(burst_fraction_threshold=.5, min_n_cycles=2)
            bk = rng.choice([None, {'min_n_cycles': 3}, {'amp_threshes': (0.5, 1.5)}])
            bkk = dict(fs=fs, f_range=fr, **(bk or {}))
            calls.append((P + 'burst.compute_burst_features', compute_burst_features,
                          dict(df_shape_features=shapes, sig=sig, burst_method='amp', burst_kwargs=bkk)))
            feats = pd.concat((compute_burst_features(shapes, sig, burst_method='amp', burst_kwargs=dict(bkk)), shapes), axis=1)
            calls.append(('bycycle.burst.amp.detect_bursts_amp', detect_bursts_amp, dict(df_features=feats.copy(), **th)))
        for rs in (True, False):
            calls.append((P + 'features.compute_features', compute_features,
                          dict(sig=sig, fs=fs, f_range=fr, center_extrema=centre, burst_method=c['method'],
                               burst_kwargs=copy.deepcopy(bk), threshold_kwargs=dict(th), find_extrema_kwargs=copy.deepcopy(fek),
                               return_samples=rs)))
        full = compute_features(sig, fs, fr, center_extrema=centre, burst_method=c['method'], burst_kwargs=copy.deepcopy(bk),
                                threshold_kwargs=dict(th), find_extrema_kwargs=copy.deepcopy(fek))
        calls.append(('bycycle.utils.dataframes.drop_samples_df', drop_samples_df, dict(df_features=full)))
        b = np.array([rng.random() < 0.6 for _ in range(rng.randint(0, 25))], dtype=bool)
        calls.append(('bycycle.burst.utils.check_min_burst_cycles', check_min_burst_cycles,
                      dict(is_burst=b, min_n_cycles=rng.randint(0, 5))))
        for qual, fn, args in calls:
            r = armed_call(qual, fn, args)
            if r:
                return r
        return None


@job('armed_limit', props=['C18', 'C15'], function='bycycle.utils.dataframes.limit_df')
class ArmedLimit:
    chunk = 4

    def bound(self, tier):
        return ('the limit_df contract evaluated concretely on real calls: corpus tables (both centrings, both burst methods) x '
                'windows with either limit absent, on and off the sample grid, keep-all windows and empty windows x reset_indices')

    def gen(self, tier, seed):
        for fam in FAMILIES:
            for s in range(1 if tier == 'quick' else 3):
                for centre in ('peak', 'trough'):
                    yield dict(family=fam, seed=seed * 10 + s, centre=centre, method='cycles' if (s + len(fam)) % 2 else 'amp')

    def nontrivial(self, c):
        return True

    def run(self, c):
        from bycycle.features import compute_features
        from bycycle.utils.dataframes import limit_df
        sig = make_signal(c['family'], c['seed'], n=1500)
        fs, fr = 500.0, (7.0, 13.0)
        df = compute_features(sig, fs, fr, center_extrema=c['centre'], burst_method=c['method'])
        side = 'trough' if c['centre'] == 'peak' else 'peak'
        first, last = int(df['sample_last_' + side].values[0]), int(df['sample_next_' + side].values[-1])
        mid = int(df['sample_next_' + side].values[len(df) // 2])
        wins = [(None, None), (0.4, None), (None, 1.9), (0.4, 1.9), (0.5003, 2.0007), (first / fs, last / fs),
                (0.002, None), (mid / fs, mid / fs), (mid / fs, None), (None, mid / fs), (2.9, 2.95), (0.0, 0.0)]
        for start, stop in wins:
            for reset in (True, False):
                r = armed_call('bycycle.utils.dataframes.limit_df', limit_df,
                               dict(df=df, fs=fs, start=start, stop=stop, reset_indices=reset))
                if r:
                    return 'start=%r stop=%r reset=%r: %s' % (start, stop, reset, r)
        return None
