"""rtc: the run-time side (runs under /venv/bin/python against the real numpy / pandas / bycycle working tree).

Three jobs (DESIGN.md 2.6): replay of solver counter-models on the real code, the bounded stand-in
(exhaustive small-scope enumeration with a stated bound; never counted as proved), and conformance of the
assumed library contracts.
"""
