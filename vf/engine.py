"""pyvc: symbolic execution of the real bycycle AST against sidecar contracts (DESIGN.md 2).

Replay-based path exploration: every path re-executes the function from its entry following a
recorded decision trace, so no state copying is needed and fresh names are deterministic.
Arrays are *definitional*: heap[ident] is a python closure from an index term to the element
value, so pointwise numpy/pandas code yields quantifier-free verification conditions.
"""
import ast
import math
import time
from fractions import Fraction

import z3

from .values import (INT, REAL, BOOL, STR, XR, VAL, Z, X, Opt, Arr, Frame, SDict, Obj, Opaque, Ref,
                     PyList, fresh_name, reset_names, str_code, sort_of, x_fin, x_nan,
                     FIN, NAN, PINF, NINF, ValSort)
from . import xops


class Infeasible(Exception):
    pass


class Unsupported(Exception):
    pass


class RaiseSig(Exception):
    def __init__(self, cls, node=None, why=''):
        self.cls = cls
        self.node = node
        self.why = why


class ReturnSig(Exception):
    def __init__(self, value):
        self.value = value


class BreakSig(Exception):
    pass


class ContinueSig(Exception):
    pass


class StopPath(Exception):
    pass


class StopAll(Exception):
    """abort the exploration (used by canary runs: one failed obligation is all that is asked for)"""


INF = float('inf')


class Obligation:
    def __init__(self, name, kind, assumptions, goal, line=None, note=''):
        self.name = name
        self.kind = kind
        self.assumptions = assumptions
        self.goal = goal
        self.line = line
        self.note = note
        self.status = None       # 'unsat' (discharged) | 'sat' | 'unknown'
        self.backend = None
        self.time = 0.0
        self.model = None
        self.path = None

    def key(self):
        # obligations are merged only if name, goal AND every assumption coincide (same VC reached on two paths)
        return (self.name, self.status, hash(self.goal.sexpr()), hash(tuple(a.get_id() for a in self.assumptions)),
                len(self.assumptions))


class State:
    def __init__(self):
        self.env = {}
        self.heap = {}
        self.fresh = set()
        self.next_ident = 0
        self.calls = []          # ghost log of calls to contracted / external functions
        self.ghost = {}
        self.entry_heap = {}


def is_sym(v):
    return isinstance(v, (Z, X))


def lift(v):
    if isinstance(v, (Z, X)):
        return v
    if isinstance(v, bool):
        return Z(z3.BoolVal(v), BOOL)
    if isinstance(v, int):
        return Z(z3.IntVal(v), INT)
    if isinstance(v, float):
        if v != v:
            return x_nan()
        if v in (INF, -INF):
            return X(xops.PINFV if v > 0 else xops.NINFV)
        fr = Fraction(v)
        return Z(z3.RealVal(str(fr.numerator) + '/' + str(fr.denominator)), REAL)
    if isinstance(v, str):
        return Z(z3.IntVal(str_code(v)), STR)
    if isinstance(v, Fraction):
        return Z(z3.RealVal(str(v.numerator) + '/' + str(v.denominator)), REAL)
    raise Unsupported('cannot lift %r' % (v,))


def to_real(z):
    if z.ty == REAL:
        return z.t
    if z.ty == INT:
        return z3.ToReal(z.t)
    if z.ty == BOOL:
        return z3.If(z.t, z3.RealVal(1), z3.RealVal(0))
    raise Unsupported('to_real of %s' % z.ty)


def to_int(z):
    if z.ty == INT:
        return z.t
    if z.ty == BOOL:
        return z3.If(z.t, z3.IntVal(1), z3.IntVal(0))
    raise Unsupported('to_int of %s' % z.ty)


def zbool(v):
    """value -> z3 Bool term (python truthiness for scalars)"""
    if isinstance(v, bool):
        return z3.BoolVal(v)
    if isinstance(v, Z):
        if v.ty == BOOL:
            return v.t
        if v.ty == INT:
            return v.t != 0
        if v.ty == REAL:
            return v.t != 0
        if v.ty == STR:
            return v.t != str_code('')           # a string is true unless it is empty
    if v is None:
        return z3.BoolVal(False)
    if isinstance(v, (int, float)):
        return z3.BoolVal(bool(v))
    raise Unsupported('truth value of %r' % (v,))


class Engine:
    """Runs one function under contract; collects and discharges obligations."""

    def __init__(self, sources, contracts, lib, timeout_ms=10000, max_paths=4000):
        self.sources = sources
        self.contracts = contracts
        self.lib = lib
        self.timeout_ms = timeout_ms
        self.max_paths = max_paths
        self.obligations = []
        self.seen = set()
        self.unsupported = []
        self.paths = 0
        self.spec_mode = 0
        self.binders = 0
        self.stats = {'z3_time': 0.0, 'checks': 0}

    # ------------------------------------------------------------------ path machinery
    def choose(self, n, label=''):
        if self.pos < len(self.trace):
            c = self.trace[self.pos]
        else:
            c = 0
            self.trace.append(0)
            for alt in range(n - 1, 0, -1):
                self.pending.append(self.trace[:self.pos] + [alt])
        self.pos += 1
        return c

    def assume(self, t):
        if isinstance(t, bool):
            if not t:
                raise Infeasible()
            return
        t = z3.simplify(t)
        if z3.is_true(t):
            return
        if z3.is_false(t):
            raise Infeasible()
        self.assumptions.append(t)
        self.solver.add(t)
        if not _has_quant(t):
            self.qf.add(t)

    def feasible(self):
        # replayed paths share their prefixes: the same assumption list has the same answer
        fc = self.__dict__.setdefault('feas_cache', {})
        key = hash(tuple(a.get_id() for a in self.assumptions))
        hit = fc.get(key)
        if hit is not None and hit[0] == len(self.assumptions):
            return hit[1]
        r = self._feasible()
        fc[key] = (len(self.assumptions), r, list(self.assumptions))        # (terms kept alive: ids stay unique)
        return r

    def _feasible(self):
        t0 = time.time()
        self.qf.set('timeout', 300)
        if _chk(self.qf) == z3.unsat:
            self.stats['z3_time'] += time.time() - t0
            return False
        self.solver.set('timeout', 150)
        r = _chk(self.solver)
        self.stats['z3_time'] += time.time() - t0
        self.stats['checks'] += 1
        return r != z3.unsat

    def branch(self, cond, label=''):
        """python-style truth test; forks on symbolic conditions"""
        if self.spec_mode:
            raise Unsupported('branch in spec mode')
        if isinstance(cond, Opt):
            raise Unsupported('truth of Opt')
        if isinstance(cond, (bool, int, float, str, tuple, list, dict)) or cond is None:
            return bool(cond)
        if isinstance(cond, (PyList,)):
            return bool(cond.items)
        if isinstance(cond, SDict):
            raise Unsupported('truth value of symbolic dict')
        if isinstance(cond, (Frame, Opaque, Ref, Obj)):
            return True
        if isinstance(cond, Arr):
            raise Unsupported('truth value of array')
        t = z3.simplify(zbool(cond))
        if z3.is_true(t):
            return True
        if z3.is_false(t):
            return False
        c = self.choose(2, label)
        if c == 0:
            self.assume(t)
            if not self.feasible():
                raise Infeasible()
            return True
        self.assume(z3.Not(t))
        if not self.feasible():
            raise Infeasible()
        return False

    def oblige(self, kind, goal, node=None, note='', name=None):
        """Emit a proof obligation under the current path condition, then assume it."""
        if self.spec_mode:
            return
        if isinstance(goal, bool):
            goal = z3.BoolVal(goal)
        line = getattr(node, 'lineno', None)
        if name is None:
            self.ob_counter[kind] = self.ob_counter.get(kind, 0) + 1
            name = '%s/%s@L%s' % (self.fn_short, kind, line if line is not None else '-')
            if note:
                name += ':' + note
        ob = Obligation(name, kind, list(self.assumptions), goal, line, note)
        ob.path = list(self.trace[:self.pos])
        g = z3.simplify(goal)
        if z3.is_true(g):
            ob.status, ob.backend = 'unsat', 'simplify'
            self._record(ob)
            return
        if not _has_quant(g) and self._qf_discharge(ob):
            self._record(ob)
            self.assume(goal)
            return
        if kind == 'ensures' and _has_quant(g):
            # a clause that a callee's contract already states about the very same values (a pass-through postcondition)
            for fk, fv in self.st.ghost.get('facts', {}).items():
                if fk.startswith('call:') and any(_alpha_eq(h, goal) for h in (fv if isinstance(fv, list) else [fv])):
                    ob.status, ob.backend = 'unsat', 'simplify'
                    self._record(ob)
                    self.assume(goal)
                    return
        if kind == 'requires@call' and _has_quant(g):
            # a callee precondition that a proof hook has already established as a named fact (every named fact is part of
            # the path): the goal is that assumption up to the names of its bound variables
            for fk, fv in self.st.ghost.get('facts', {}).items():
                if any(_alpha_eq(h, goal) for h in (fv if isinstance(fv, list) else [fv]) if z3.is_expr(h)):
                    ob.status, ob.backend = 'unsat', 'simplify'
                    self._record(ob)
                    self.assume(goal)
                    return
        if kind == 'lib-pre' and _has_quant(g) and self.st.ghost.get('facts', {}).get('requires'):
            # first try: from the function's own precondition and the quantifier-free part of the path (a subset of the
            # assumptions; anything else falls through to the full context)
            s_ = z3.Solver()
            s_.set('timeout', 3000)
            for a in self.assumptions:
                if not _has_quant(a):
                    s_.add(a)
            for a in self.st.ghost['facts']['requires']:
                s_.add(a)
            s_.add(z3.Not(goal))
            t0 = time.time()
            r_ = _chk(s_)
            self.stats['z3_time'] += time.time() - t0
            if r_ == z3.unsat:
                ob.status, ob.backend, ob.time = 'unsat', 'z3', time.time() - t0
                self.stats['checks'] += 1
                self._record(ob)
                self.assume(goal)
                return
        self._discharge(ob)
        self._record(ob)
        self.assume(goal)

    def _qf_discharge(self, ob):
        """first try: the goal from the quantifier-free part of the path alone (a subset of the assumptions, hence sound
        when it succeeds; anything else falls through to the full context)"""
        t0 = time.time()
        self.qf.push()
        try:
            self.qf.add(z3.Not(ob.goal))
            self.qf.set('timeout', 400)
            r = _chk(self.qf)
        finally:
            self.qf.pop()
        if r == z3.unsat:
            ob.status, ob.backend, ob.time = 'unsat', 'z3', time.time() - t0
            self.stats['z3_time'] += ob.time
            self.stats['checks'] += 1
            return True
        return False

    def oblige_isolated(self, kind, hyps, goal, node=None, name=None):
        """an obligation with extra local hypotheses that are NOT added to the path afterwards"""
        if self.spec_mode:
            return
        ob = Obligation(name, kind, list(self.assumptions) + list(hyps), goal, getattr(node, 'lineno', None), '')
        ob.path = list(self.trace[:self.pos])
        self.solver.push()
        for h in hyps:
            self.solver.add(h)
        try:
            self._discharge(ob)
        finally:
            self.solver.pop()
        self._record(ob)

    def oblige_focused(self, kind, hyps, goal, node=None, name=None, assume=True):
        """an obligation proved from an explicit list of established facts plus the quantifier-free part of the path
        (a subset of the current assumptions, hence sound); the goal is then added to the path"""
        if self.spec_mode:
            return
        qf = [a for a in self.assumptions if not _has_quant(a)]
        ob = Obligation(name, kind, qf + list(hyps), goal, getattr(node, 'lineno', None), '')
        ob.path = list(self.trace[:self.pos])
        if any(_alpha_eq(h, goal) for h in hyps):
            # the goal is one of the hypotheses up to the names of its bound variables
            ob.status, ob.backend = 'unsat', 'simplify'
            self._record(ob)
            if assume:
                self.assume(goal)
            return
        if self._cached(ob):
            self._record(ob)
            if assume:
                self.assume(goal)
            return
        t0 = time.time()
        for attempt in range(3):
            s = z3.Solver()
            s.set('timeout', self.timeout_ms if attempt == 0 else max(1000, self.timeout_ms // 2))
            if attempt == 0:
                s.set('smt.mbqi', False)          # E-matching on the stated patterns only: fast when the hints suffice
            if attempt == 2:
                s.set('smt.random_seed', 7)
            for a in ob.assumptions:
                s.add(a)
            s.add(z3.Not(goal))
            r = _chk(s)
            if r != z3.unknown:
                break
        if r == z3.sat:
            try:
                ob.model = s.model()
            except z3.Z3Exception:
                pass
        ob.time = time.time() - t0
        self.stats['z3_time'] += ob.time
        self.stats['checks'] += 1
        ob.status = str(r)
        ob.backend = 'z3'
        self._record(ob)
        if assume:
            self.assume(goal)

    def _record(self, ob):
        if getattr(self, 'stop_on_fail', False) and ob.status != 'unsat':
            self.obligations.append(ob)
            raise StopAll()
        if ob.status != 'unsat':
            # a unit that keeps failing is not worth its remaining timeouts: five undischarged obligations settle the verdict
            self.n_open = getattr(self, 'n_open', 0) + 1
            if self.n_open >= getattr(self, 'max_open', 5):
                k0 = ob.key()
                if k0 not in self.seen:
                    self.seen.add(k0)
                    self.obligations.append(ob)
                raise StopAll()
        k = ob.key()
        if k in self.seen:
            return
        self.seen.add(k)
        self.obligations.append(ob)

    def _cached(self, ob):
        """the same verification condition (same goal, same assumptions - compared as hash-consed terms, kept alive by
        the cache) reached again on another replayed path is not solved again"""
        cache = self.__dict__.setdefault('vc_cache', {})
        k = (ob.goal.get_id(), tuple(a.get_id() for a in ob.assumptions))
        hit = cache.get(k)
        if hit is not None:
            ob.status, ob.backend, ob.model, ob.time = hit.status, hit.backend, hit.model, 0.0
            self.stats['vc_cache_hits'] = self.stats.get('vc_cache_hits', 0) + 1
            return True
        cache[k] = ob
        return False

    def _discharge(self, ob):
        if self._cached(ob):
            return
        t0 = time.time()
        s = self.solver
        s.push()
        s.add(z3.Not(ob.goal))
        s.set('timeout', self.timeout_ms)
        r = _chk(s)
        if r == z3.sat:
            try:
                ob.model = s.model()
            except z3.Z3Exception:
                ob.model = None
        s.pop()
        if r == z3.unknown:
            # fresh solver (first E-matching only, then default), then leave for the second back end
            for mbqi in (False, True):
                s2 = z3.Solver()
                s2.set('timeout', self.timeout_ms)
                if not mbqi:
                    s2.set('smt.mbqi', False)
                for a in ob.assumptions:
                    s2.add(a)
                s2.add(z3.Not(ob.goal))
                r = _chk(s2)
                if r == z3.sat:
                    ob.model = s2.model()
                if r != z3.unknown:
                    break
        ob.time = time.time() - t0
        self.stats['z3_time'] += ob.time
        self.stats['checks'] += 1
        ob.status = str(r)
        ob.backend = 'z3'

    # ------------------------------------------------------------------ allocation
    def new_ident(self, fresh=True):
        st = self.st
        st.next_ident += 1
        if fresh:
            st.fresh.add(st.next_ident)
        return st.next_ident

    def fresh_z(self, base, ty):
        if ty == XR:
            t = z3.Const(fresh_name(base), sort_of(XR))
            self.assume(xops.wf(t))
            return X(t)
        return Z(z3.Const(fresh_name(base), sort_of(ty)), ty)

    def base_closure(self, base, ty):
        """closure over a fresh uninterpreted array"""
        A = z3.Array(fresh_name(base), z3.IntSort(), sort_of(ty))
        if ty == XR:
            k = z3.Int(fresh_name('k'))
            self.assumptions_quant(z3.ForAll([k], xops.wf(z3.Select(A, k)), patterns=[z3.Select(A, k)]))
            clo = lambda i: X(z3.Select(A, i))
        else:
            clo = lambda i: Z(z3.Select(A, i), ty)
        clo.base = A
        return clo

    def assumptions_quant(self, t):
        self.assumptions.append(t)
        self.solver.add(t)

    def new_arr(self, n, ty, closure=None, kind='ndarray', base='a', fresh=True, writeable=True, shape=None):
        ident = self.new_ident(fresh)
        if closure is None:
            closure = self.base_closure(base, ty)
        self.st.heap[ident] = closure
        return Arr(ident, shape if shape is not None else (n,), ty, kind, writeable=writeable)

    def rd(self, a, i):
        """element i (0-based within the view) of array value a; i is a z3 Int term or python int"""
        if isinstance(i, int):
            i = z3.IntVal(i)
        idx = i if (a.stride == 1 and isinstance(a.off, int) and a.off == 0) else a.off + i * a.stride
        return self.st.heap[a.ident](idx)

    def snapshot(self, a, kind=None, writeable=True, fresh=True):
        """independent array with the current contents of a"""
        old = self.st.heap[a.ident]
        off, stride = a.off, a.stride
        if stride == 1 and isinstance(off, int) and off == 0:
            clo = old
        else:
            clo = lambda i, old=old, off=off, stride=stride: old(off + i * stride)
        return self.new_arr(a.n, a.ty, clo, kind or a.kind, fresh=fresh, writeable=writeable, shape=a.shape)

    def mat(self, a):
        """materialise an array value as a z3 Array term (a lambda), normalised to a default outside [0, n) so
        that arrays that agree on their range denote the same array (used by spec functions over arrays).
        An existing materialisation that provably agrees on the whole range is reused, so that code and spec
        terms become syntactically identical (the query is a consequence check of the current assumptions)."""
        clo = self.st.heap[a.ident]
        key = ('mat', a.ident, id(clo), str(a.off), a.stride, str(a.n))
        hit = self.st.ghost.get(key)
        if hit is not None:
            return hit
        n = a.n if not isinstance(a.n, int) else z3.IntVal(a.n)
        k = z3.Int(fresh_name('mk'))
        e = self.rd(a, k)
        dflt = {INT: z3.IntVal(0), REAL: z3.RealVal(0), BOOL: z3.BoolVal(False), STR: z3.IntVal(0),
                XR: xops.fin(z3.RealVal(0))}[a.ty]
        et = e.t
        if self.binders > 0:
            # under a quantifier of the contract language the array may mention bound variables: a lambda term
            A = z3.Lambda([k], z3.If(z3.And(k >= 0, k < n), et, dflt))
        else:
            A = z3.Array(fresh_name('M'), z3.IntSort(), sort_of(a.ty))
            ax = z3.ForAll([k], z3.Select(A, k) == z3.If(z3.And(k >= 0, k < n), et, dflt), patterns=[z3.Select(A, k)])
            self.assumptions_quant(ax)
            self.st.ghost.setdefault('mat_axioms', {})[A.get_id()] = ax
        reuse = None
        for okey, (oA, oarr, on, oclo) in list(self.st.ghost.get('mats', {}).items()):
            if oarr.ty != a.ty:
                continue
            d = z3.Int(fresh_name('d'))
            try:
                e1 = oclo(d)
                e2 = self.rd(a, d)
                neg = z3.Or(on != n, z3.And(d >= 0, d < n, e1.t != e2.t))
            except Exception:
                continue
            self.qf.push()
            self.qf.add(neg)
            self.qf.set('timeout', 500)
            res = _chk(self.qf)
            self.qf.pop()
            if res == z3.unsat:
                reuse = oA
                self.stats['mat_ext'] = self.stats.get('mat_ext', 0) + 1
                break
        if reuse is not None:
            A = reuse
        else:
            off0, str0 = a.off, a.stride
            self.st.ghost.setdefault('mats', {})[key] = \
                (A, a, n, (lambda i, clo0=clo, off0=off0, str0=str0: clo0(off0 + i * str0)))
        self.st.ghost[key] = A
        return A

    # ---- sequence algebra: arrays as opaque terms built from closed bases by uninterpreted operations, so that
    # reductions (mean, sum, median, arg-extrema) of the same numpy expression are the same term in code and spec
    _seq_funcs = {}

    @classmethod
    def seq_fn(cls, name, *sorts):
        key = (name,) + tuple(str(x) for x in sorts)
        if key not in cls._seq_funcs:
            cls._seq_funcs[key] = z3.Function(name, *sorts)
        return cls._seq_funcs[key]

    def seq(self, a):
        from .values import SeqSort
        sx = getattr(a, 'sx', None)
        if sx is not None and getattr(a, 'sx_heap', None) is self.st.heap.get(a.ident):
            return sx
        n = a.n if not isinstance(a.n, int) else z3.IntVal(a.n)
        A = self.arr_term(a)
        f = self.seq_fn('seq_of_' + a.ty, A.sort(), z3.IntSort(), SeqSort)
        return f(A, n)

    def _seq_neg_axioms(self):
        """the sequence algebra's negation: slicing and differencing commute with it, comparison with 0 flips
        (exact for IEEE floats too: negation is exact and (-a) - (-b) == -(a - b)); assumed meaning of the symbols"""
        if self.st.ghost.get('seq_neg_axioms'):
            return
        from .values import SeqSort
        self.st.ghost['seq_neg_axioms'] = True
        x = z3.Const('sq_x', SeqSort)
        a, b = z3.Ints('sq_a sq_b')
        neg = self.seq_fn('seq_neg', SeqSort, SeqSort)
        sl = self.seq_fn('seq_slice', SeqSort, z3.IntSort(), z3.IntSort(), SeqSort)
        slt = self.seq_fn('seq_slice_to', SeqSort, z3.IntSort(), SeqSort)
        slf = self.seq_fn('seq_slice_from', SeqSort, z3.IntSort(), SeqSort)
        df = self.seq_fn('seq_diff', SeqSort, SeqSort)
        ax = [z3.ForAll([x, a, b], sl(neg(x), a, b) == neg(sl(x, a, b)), patterns=[sl(neg(x), a, b)]),
              z3.ForAll([x, a], slt(neg(x), a) == neg(slt(x, a)), patterns=[slt(neg(x), a)]),
              z3.ForAll([x, a], slf(neg(x), a) == neg(slf(x, a)), patterns=[slf(neg(x), a)]),
              z3.ForAll([x], df(neg(x)) == neg(df(x)), patterns=[df(neg(x))])]
        for ty, zero in (('int', z3.IntVal(0)), ('real', z3.RealVal(0))):
            lt = self.seq_fn('seq_cmp_Lt_' + ty, SeqSort, zero.sort(), SeqSort)
            gt = self.seq_fn('seq_cmp_Gt_' + ty, SeqSort, zero.sort(), SeqSort)
            ax.append(z3.ForAll([x], lt(neg(x), zero) == gt(x, zero), patterns=[lt(neg(x), zero)]))
            ax.append(z3.ForAll([x], gt(neg(x), zero) == lt(x, zero), patterns=[gt(neg(x), zero)]))
        for t in ax:
            self.assumptions_quant(t)
        self.st.ghost.setdefault('facts', {})['seq-neg'] = ax
        self.stats.setdefault('definitions', []).append('sequence algebra: negation commutes with slice / diff, flips comparison with 0')

    def arr_term(self, a):
        """a z3 Array term for array value a: the closed array constant itself for a whole base array,
        otherwise its materialisation"""
        clo = self.st.heap[a.ident]
        base = getattr(clo, 'base', None)
        if base is not None and a.stride == 1 and isinstance(a.off, int) and a.off == 0:
            return base
        return self.mat(a)

    def set_seq(self, a, name, *args):
        """record that array a is op `name` applied to args (z3 terms / Seq terms)"""
        from .values import SeqSort
        f = self.seq_fn(name, *[x.sort() for x in args], SeqSort)
        a.sx = f(*args)
        a.sx_heap = self.st.heap.get(a.ident)
        return a

    class _EntryView:
        def __init__(self, E):
            self.E = E

        def __enter__(self):
            E = self.E
            self.saved = []
            for name, v in E.entry_env.items():
                if isinstance(v, Frame) and name in E.entry_frames:
                    self.saved.append((v, 'frame', v.n, v.cols))
                    v.n, v.cols = E.entry_frames[name][0], dict(E.entry_frames[name][1])
                elif isinstance(v, SDict) and name in E.entry_sdicts:
                    self.saved.append((v, 'sdict', None, v.items))
                    v.items = {k: [p, x] for k, (p, x) in E.entry_sdicts[name].items()}
                elif isinstance(v, Obj) and name in getattr(E, 'entry_objs', {}):
                    self.saved.append((v, 'obj', None, v.attrs))          # old(self.x): the attribute as it was at entry
                    v.attrs = dict(E.entry_objs[name])
            self.heap = E.st.heap
            E.st.heap = dict(E.st.entry_heap)

        def __exit__(self, *a):
            E = self.E
            for v, kind, n, payload in self.saved:
                if kind == 'frame':
                    v.n, v.cols = n, payload
                elif kind == 'obj':
                    v.attrs = payload
                else:
                    v.items = payload
            E.st.heap = self.heap

    def entry_view(self):
        return Engine._EntryView(self)

    def decide(self, t):
        """True / False if the boolean term is entailed / refuted by the (quantifier-free part of the) current path,
        else None"""
        if isinstance(t, bool):
            return t
        t = z3.simplify(t)
        if z3.is_true(t):
            return True
        if z3.is_false(t):
            return False
        s = self.qf
        s.set('timeout', 500)
        s.push()
        s.add(z3.Not(t))
        r = _chk(s)
        s.pop()
        if r == z3.unsat:
            return True
        s.push()
        s.add(t)
        r = _chk(s)
        s.pop()
        if r == z3.unsat:
            return False
        return None

    def unwrap(self, v):
        """an optional value that is provably (not) None on this path is its payload (None)"""
        if not isinstance(v, Opt):
            return v
        d = self.decide(v.isnone)
        if d is False:
            return v.val
        if d is True:
            return None
        return v

    def mutate(self, ident, node, what=''):
        """frame condition: stores may only reach objects allocated on this path or listed in modifies"""
        if self.spec_mode:
            raise Unsupported('mutation in spec mode')
        if ident in self.st.fresh or ident in self.allowed_mod:
            return
        self.oblige('frame', z3.BoolVal(False), node, note=what or 'store to caller-owned object')

    # ------------------------------------------------------------------ running a function
    def run(self, qual, contract, case, fn_short=None):
        """Explore all paths of function `qual` for one typing case; returns list of obligations."""
        mi, fdef = self.sources.func(qual)
        if fdef is None:
            raise Unsupported('function %s not found in sources' % qual)
        self.mi = mi
        self.fdef = fdef
        self.contract = contract
        self.case = case
        self.fn_short = fn_short or qual.replace('bycycle.', '')
        if case.get('label'):
            self.fn_short += '[%s]' % case['label']
        self.pending = [[]]
        n_paths = 0
        outcomes = []
        while self.pending:
            self.trace = self.pending.pop()
            self.pos = 0
            n_paths += 1
            if n_paths > self.max_paths:
                raise Unsupported('path limit exceeded in %s' % qual)
            reset_names()
            self.st = State()
            self.assumptions = []
            self.solver = z3.Solver()
            self.qf = z3.Solver()           # quantifier-free part of the path condition: quick consequence checks
            self.ob_counter = {}
            self.allowed_mod = set()
            self.loop_ordinals = {}
            self.mod_stack = [mi]
            try:
                self._run_path(contract, case, outcomes)
            except Infeasible:
                pass
            except StopPath:
                pass
            except StopAll:
                outcomes.append(('aborted', None))
                break
        self.paths += n_paths
        return outcomes

    def _index_loops(self, fdef):
        k = 0
        for node in ast.walk(fdef):
            pass
        # source order = sort by (lineno, col)
        loops = [n for n in ast.walk(fdef) if isinstance(n, (ast.For, ast.While))]
        loops.sort(key=lambda n: (n.lineno, n.col_offset))
        return {id(n): i + 1 for i, n in enumerate(loops)}

    def _run_path(self, contract, case, outcomes):
        st = self.st
        fdef = self.fdef
        self.loop_ordinals = self._index_loops(fdef)
        # build inputs
        params = self._param_names(fdef)
        types = dict(contract.get('params', {}))
        types.update(case.get('params', {}))
        env = {}
        derived = []
        for p in params:
            if p in types and isinstance(types[p], tuple) and types[p] and types[p][0] == 'derived':
                derived.append(p)          # built from the other arguments once they exist (e.g. a time on the sample grid)
                continue
            if p in types:
                # **kwargs is a dictionary built by the call itself: the function may change it freely
                is_kw = fdef.args.kwarg is not None and fdef.args.kwarg.arg == p
                env[p] = self.make_value(p, types[p], fresh=True) if is_kw else self.make_value(p, types[p])
            else:
                d = self._default_of(fdef, p)
                if d is _NODEFAULT:
                    raise Unsupported('no type for parameter %s' % p)
                env[p] = self.eval_in_module(d)
        for p in derived:
            env[p] = types[p][1](self, env)
        st.env = env
        st.entry_heap = dict(st.heap)
        self.entry_env = dict(env)
        self.entry_sdicts = {k: _sdict_snapshot(v) for k, v in env.items() if isinstance(v, SDict)}
        self.entry_frames = {k: _frame_snapshot(v) for k, v in env.items() if isinstance(v, Frame)}
        self.entry_objs = {k: dict(v.attrs) for k, v in env.items() if isinstance(v, Obj)}
        for m in list(contract.get('modifies', [])) + list(case.get('modifies', [])):
            if '.' in m:                       # 'self.thresholds': an object held in an attribute
                base, attr = m.split('.', 1)
                o = env.get(base)
                v = o.attrs.get(attr) if isinstance(o, Obj) else None
            else:
                v = env.get(m)
            for ident in _idents_of(v):
                self.allowed_mod.add(ident)
            cell = getattr(v, 'cell', None)
            if cell is not None:
                self.allowed_mod.add(cell['ident'])
        for r in list(contract.get('requires', [])) + list(case.get('requires', [])):
            t_req = self.spec_bool(r, env)
            self.assume(t_req)
            self.st.ghost.setdefault('facts', {}).setdefault('requires', []).append(t_req)
        if not self.feasible():
            raise Infeasible()
        self.vacuity_ok = True
        outcome = None
        try:
            self.exec_block(fdef.body)
            # falling off the end is `return None`: the before_return hook fires here too
            self.st.env['__return__'] = None
            self.run_hook(('before_return',), fdef)
            outcome = ('return', None)
        except ReturnSig as r:
            outcome = ('return', r.value)
        except RaiseSig as r:
            outcome = ('raise', r)
        self._check_contract(contract, case, outcome)
        outcomes.append((outcome[0], outcome[1].cls if outcome[0] == 'raise' else None))

    def _check_contract(self, contract, case, outcome):
        # vacuity guard: a path whose assumptions are contradictory proves everything; it is dropped here, and a case
        # without any live path is reported as vacuous by the caller
        self.qf.set('timeout', 300)
        if _chk(self.qf) == z3.unsat:
            raise Infeasible()
        self.solver.set('timeout', 300)
        if _chk(self.solver) == z3.unsat:
            raise Infeasible()
        raises = dict(contract.get('raises', {}))
        raises.update(case.get('raises', {}))
        env = dict(self.entry_env)
        env['__entry__'] = True
        if outcome[0] == 'raise':
            sig = outcome[1]
            cond = raises.get(sig.cls)
            if cond is None:
                self.oblige('no-raise', z3.BoolVal(False), sig.node, note=sig.cls + (':' + sig.why if sig.why else ''))
            else:
                self.oblige('raises', self.spec_bool(cond, env, old_only=True), sig.node, note=sig.cls)
            return
        value = outcome[1]
        for cls, cond in raises.items():
            self.oblige('must-raise', z3.Not(self.spec_bool(cond, env, old_only=True)),
                        self.fdef, note=cls, name='%s/must-raise:%s' % (self.fn_short, cls))
        env2 = dict(self.entry_env)
        env2['result'] = value
        self.final_env = dict(self.st.env)
        ens = list(contract.get('ensures', [])) + list(case.get('ensures', []))
        using = case.get('ensures_using', contract.get('ensures_using'))
        for k, e in enumerate(ens):
            label = e if isinstance(e, str) else getattr(e, '__name__', 'fn')
            goal = self.spec_bool(e, env2)
            nm = '%s/ensures#%d' % (self.fn_short, k + 1)
            facts = self.st.ghost.get('facts', {})
            if isinstance(e, str) and self._prove_by_form(e, env2, nm, label[:60]):
                continue
            if case.get('split_ensures', contract.get('split_ensures')) and z3.is_and(goal) and goal.num_args() > 1:
                # one obligation per top-level conjunct (smaller queries; a failure names the conjunct)
                for j in range(goal.num_args()):
                    self.oblige('ensures', goal.arg(j), self.fdef, name='%s.%d' % (nm, j + 1), note=label[:60])
                continue
            use = using.get(k + 1) if isinstance(using, dict) else using         # (a dict gives each clause its own facts)
            if use is None or not all(u in facts for u in use):
                self.oblige('ensures', goal, self.fdef, name=nm, note=label[:60])
            else:
                hyps = []
                for u in use:
                    v = facts[u]
                    hyps.extend(v if isinstance(v, list) else [v])
                self.oblige_focused('ensures', hyps, goal, self.fdef, name=nm)

    def _prove_by_form(self, e, env, name, note):
        """clauses whose top-level form brings its own proof procedure (explicit instantiation)"""
        from . import spec
        try:
            node = ast.parse(e.strip(), mode='eval').body
        except SyntaxError:
            return False
        if not (isinstance(node, ast.Call) and isinstance(node.func, ast.Name) and node.func.id in spec.PROVERS):
            return False
        saved_env, saved_heap = self.st.env, self.st.heap
        self.st.env = dict(env)
        try:
            return bool(spec.PROVERS[node.func.id](self, node, name, note))
        finally:
            self.st.env, self.st.heap = saved_env, saved_heap

    # ------------------------------------------------------------------ typed inputs
    def make_value(self, name, T, fresh=False):
        if isinstance(T, str):
            if T in (INT, REAL, BOOL, STR, XR):
                return self.fresh_z(name, T)
            if T == 'none':
                return None
            if T in ('opaque', 'any'):     # 'any': no constraint on the argument at a call site; an opaque value in the unit
                return Opaque(z3.Const(fresh_name(name), ValSort), name)
            if T == 'sigrow':           # one signal as an opaque value
                return _opq(z3.Const(fresh_name(name), ValSort), z3.Int(fresh_name(name + '.len')))
            if T == 'optdict':          # an option dictionary as an opaque value WITH object identity (mutable)
                o = Opaque(z3.Const(fresh_name(name), ValSort), name)
                self.assume(o.t != z3.Const('options_none', ValSort))          # a dictionary is not None
                o.cell = {'ident': self.new_ident(fresh), 't': o.t}
                return o
            raise Unsupported('type %s' % T)
        tag = T[0]
        if tag == 'const':
            return T[1]
        if tag in ('arr', 'series', 'list'):
            n = z3.Int(fresh_name(name + '.len'))
            self.assume(n >= (T[2] if len(T) > 2 else 0))
            kind = {'arr': 'ndarray', 'series': 'series', 'list': 'list'}[tag]
            return self.new_arr(n, T[1], kind=kind, base=name, fresh=fresh)
        if tag == 'grid':        # N-d array whose leading k dimensions index opaque values (signals / option sets)
            # ('grid', k, has_time_axis, kind): shape = k leading extents (+ one trailing time extent)
            k, has_t = T[1], T[2]
            kind = T[3] if len(T) > 3 else 'ndarray'
            shape = []
            for d in range(k + (1 if has_t else 0)):
                sv = z3.Int(fresh_name('%s.shape%d' % (name, d)))
                self.assume(sv >= 1)
                shape.append(sv)
            ident = self.new_ident(fresh)
            fn = z3.Function(fresh_name(name + '.at'), *([z3.IntSort()] * k), ValSort)
            a = Arr(ident, shape, VAL, kind)
            a.lead = k
            if len(T) > 4:
                a.elem_kind = T[4]            # what the opaque elements are ('table': pandas DataFrames)
            tlen = shape[-1] if has_t else None
            self.st.heap[ident] = (lambda *idx, fn=fn, tlen=tlen: _opq(fn(*idx), tlen))
            return a
        if tag == 'nd':          # N-d array of which only the shape is modelled
            shape = []
            for d in range(T[1]):
                s = z3.Int(fresh_name('%s.shape%d' % (name, d)))
                self.assume(s >= 1)
                shape.append(s)
            ident = self.new_ident(fresh)
            self.st.heap[ident] = None
            return Arr(ident, shape, T[2] if len(T) > 2 else VAL, 'ndarray')
        if tag == 'frame':
            n = z3.Int(fresh_name(name + '.nrows'))
            self.assume(n >= (T[2] if len(T) > 2 else 0))
            cols = {}
            for c, ty in T[1].items():
                cols[c] = self.new_arr(n, ty, kind='series', base='%s.%s' % (name, c), fresh=fresh)
            return Frame(self.new_ident(fresh), n, cols)
        if tag == 'dictp':
            # a dictionary with exactly the listed keys, all present
            return SDict(self.new_ident(fresh), {k: [True, self.make_value('%s.%s' % (name, k), ty, fresh)] for k, ty in T[1].items()})
        if tag == 'dict':
            items = {}
            for k, ty in T[1].items():
                present = z3.Bool(fresh_name('%s.has_%s' % (name, k)))
                items[k] = [present, self.make_value('%s.%s' % (name, k), ty, fresh)]
            return SDict(self.new_ident(fresh), items)
        if tag == 'tuple':
            return tuple(self.make_value('%s.%d' % (name, i), t, fresh) for i, t in enumerate(T[1]))
        if tag == 'obj':
            return Obj(self.new_ident(fresh), T[1],
                       {a: self.make_value('%s.%s' % (name, a), t, fresh) for a, t in T[2].items()})
        raise Unsupported('type %r' % (T,))

    def _param_names(self, fdef):
        a = fdef.args
        names = [x.arg for x in a.posonlyargs + a.args]
        if a.vararg:
            names.append('*' + a.vararg.arg)
        names += [x.arg for x in a.kwonlyargs]
        if a.kwarg:
            names.append(a.kwarg.arg)
        return [n for n in names if not n.startswith('*')]

    def _default_of(self, fdef, p):
        a = fdef.args
        pos = a.posonlyargs + a.args
        nd = len(a.defaults)
        for i, x in enumerate(pos):
            if x.arg == p:
                j = i - (len(pos) - nd)
                return a.defaults[j] if j >= 0 else _NODEFAULT
        for x, d in zip(a.kwonlyargs, a.kw_defaults):
            if x.arg == p:
                return d if d is not None else _NODEFAULT
        if a.kwarg and a.kwarg.arg == p:
            return ast.Dict(keys=[], values=[])
        return _NODEFAULT

    def eval_in_module(self, node):
        saved = self.st.env
        self.st.env = {}
        try:
            return self.eval(node)
        finally:
            self.st.env = saved

    # ------------------------------------------------------------------ specs
    def spec_bool(self, e, env, old_only=False):
        v = self.spec_eval(e, env, old_only)
        return zbool(v) if not isinstance(v, z3.BoolRef) else v

    def spec_eval(self, e, env, old_only=False):
        """Evaluate a contract clause (string in the contract language, or python callable)."""
        self.spec_mode += 1
        saved_env = self.st.env
        saved_heap = self.st.heap
        try:
            if callable(e):
                return e(self, env)
            node = ast.parse(e.strip(), mode='eval').body
            self.st.env = dict(env)
            if old_only:
                with self.entry_view():
                    return self.eval(node)
            return self.eval(node)
        finally:
            self.st.env = saved_env
            self.st.heap = saved_heap
            self.spec_mode -= 1

    # ------------------------------------------------------------------ statements
    def exec_block(self, stmts):
        for s in stmts:
            self.exec_stmt(s)

    def exec_stmt(self, s):
        m = getattr(self, 'st_' + type(s).__name__, None)
        if m is None:
            raise Unsupported('statement %s at line %s' % (type(s).__name__, s.lineno))
        m(s)

    def st_Expr(self, s):
        if isinstance(s.value, ast.Constant):
            return                                    # docstring
        self.eval(s.value)

    def st_Pass(self, s):
        pass

    def st_Assign(self, s):
        if not self.spec_mode:
            for t in s.targets:
                for nm in ast.walk(t):
                    if isinstance(nm, ast.Name):
                        self.run_hook(('before_assign', nm.id), s)
        v = self.eval(s.value)
        for t in s.targets:
            self.assign(t, v)
        if not self.spec_mode:
            for t in s.targets:
                for nm in ast.walk(t):
                    if isinstance(nm, ast.Name):
                        self.run_hook(('after_assign', nm.id), s)

    def run_hook(self, anchor, node):
        """proof script attached to a program point by the sidecar contract: a sequence of intermediate assertions,
        each its own obligation (then assumed); induction steps have base and step obligations"""
        hooks = dict(self.contract.get('proof') or {})
        hooks.update(self.case.get('proof') or {})
        # definitional clauses: the MEANING of an otherwise uninterpreted hypothesis predicate (e.g. "the band-passed
        # signal contains three full oscillations") in terms of a value that only exists at this program point; assumed,
        # counted and listed in the evidence (never used to state a fact about the code)
        defs = dict(self.contract.get('define') or {})
        defs.update(self.case.get('define') or {})
        for clause in defs.get(anchor, []):
            t = self.spec_bool(clause, dict(self.st.env))
            self.assume(t)
            self.st.ghost.setdefault('facts', {}).setdefault('define:' + '-'.join(map(str, anchor)), []).append(t)
            self.stats.setdefault('definitions', []).append('%s @%s: %s' % (self.fn_short, '-'.join(map(str, anchor)), clause[:200]))
        h = hooks.get(anchor)
        if h is None:
            return
        h(Proof(self, node, anchor))

    def st_AugAssign(self, s):
        cur = self.eval(_load(s.target))
        v = self.binop(s.op, cur, self.eval(s.value), s)
        self.assign(s.target, v)

    def st_Return(self, s):
        v = self.eval(s.value) if s.value is not None else None
        if not self.spec_mode and not getattr(self, 'inline_depth', 0):
            self.st.env['__return__'] = v
            self.run_hook(('before_return',), s)
        raise ReturnSig(v)

    def st_Raise(self, s):
        cls = 'Exception'
        exc = s.exc
        if isinstance(exc, ast.Call):
            exc = exc.func
        if isinstance(exc, ast.Name):
            cls = exc.id
        raise RaiseSig(cls, s)

    def st_Assert(self, s):
        if not self.branch(self.eval(s.test), 'assert'):
            raise RaiseSig('AssertionError', s)

    def st_If(self, s):
        if self.branch(self.eval(s.test), 'if@%d' % s.lineno):
            self.exec_block(s.body)
        else:
            self.exec_block(s.orelse)

    def st_With(self, s):
        for item in s.items:
            v = self.eval(item.context_expr)
            if item.optional_vars is not None:
                self.assign(item.optional_vars, v)
        self.exec_block(s.body)

    def st_Import(self, s):
        for a in s.names:
            self.st.env[a.asname or a.name.split('.')[0]] = Ref(a.name if a.asname else a.name.split('.')[0], 'module')

    def st_ImportFrom(self, s):
        for a in s.names:
            self.st.env[a.asname or a.name] = Ref(self.sources.resolve((s.module or '') + '.' + a.name))

    def st_Break(self, s):
        raise BreakSig()

    def st_Continue(self, s):
        raise ContinueSig()

    def st_Delete(self, s):
        for t in s.targets:
            if isinstance(t, ast.Subscript):
                obj = self.eval(t.value)
                key = self.eval(t.slice)
                if isinstance(obj, SDict) and isinstance(key, str):
                    self.mutate(obj.ident, s, 'del dict key')
                    if key not in obj.items:
                        raise RaiseSig('KeyError', s)
                    pres = obj.items[key][0]
                    if not self.branch(Z(pres, BOOL) if not isinstance(pres, bool) else pres):
                        raise RaiseSig('KeyError', s)
                    obj.items[key][0] = False
                    continue
                if isinstance(obj, dict):
                    if key not in obj:
                        raise RaiseSig('KeyError', s)
                    del obj[key]
                    continue
            raise Unsupported('del at line %d' % s.lineno)

    def st_For(self, s):
        from . import loops
        loops.exec_for(self, s)

    def st_Try(self, s):
        """try / except (no finally): the body runs on the current state; an exception whose class one of the handlers
        names (by its own name, or Exception / a bare except) continues in that handler with whatever the body had
        already done; anything else propagates"""
        if s.finalbody:
            raise Unsupported('try/finally at line %d' % s.lineno)
        try:
            self.exec_block(s.body)
        except RaiseSig as sig:
            for h in s.handlers:
                names = []
                if h.type is None:
                    names = None
                elif isinstance(h.type, ast.Tuple):
                    names = [ast.unparse(e).split('.')[-1] for e in h.type.elts]
                else:
                    names = [ast.unparse(h.type).split('.')[-1]]
                if names is None or sig.cls in names or 'Exception' in names or 'BaseException' in names:
                    if h.name:
                        self.st.env[h.name] = Opaque(z3.Const(fresh_name('exc'), ValSort), 'exception')
                    self.exec_block(h.body)
                    return
            raise
        self.exec_block(s.orelse)

    # ------------------------------------------------------------------ assignment
    def assign(self, target, v):
        if isinstance(target, ast.Name):
            self.st.env[target.id] = v
            return
        if isinstance(target, (ast.Tuple, ast.List)):
            items = self.unpack(v, len(target.elts), target)
            for t, x in zip(target.elts, items):
                self.assign(t, x)
            return
        if isinstance(target, ast.Subscript):
            obj = self.eval(target.value)
            self.store_subscript(obj, target.slice, v, target)
            return
        if isinstance(target, ast.Attribute):
            obj = self.eval(target.value)
            if isinstance(obj, Obj):
                self.mutate(obj.ident, target, 'attribute store')
                obj.attrs[target.attr] = v
                return
            if isinstance(obj, Ref):
                return                     # module-level option assignment (pd.options...), dropped
            raise Unsupported('attribute store on %r' % (obj,))
        raise Unsupported('assignment target %s' % type(target).__name__)

    def unpack(self, v, k, node):
        if isinstance(v, (tuple, list)):
            if len(v) != k:
                raise RaiseSig('ValueError', node, 'unpack')
            return list(v)
        if isinstance(v, PyList):
            if len(v.items) != k:
                raise RaiseSig('ValueError', node, 'unpack')
            return list(v.items)
        raise Unsupported('unpack of %r' % (v,))

    def store_subscript(self, obj, slc, v, node):
        from . import lib
        lib.store_subscript(self, obj, slc, v, node)

    # ------------------------------------------------------------------ expressions
    def eval(self, node):
        m = getattr(self, 'ev_' + type(node).__name__, None)
        if m is None:
            raise Unsupported('expression %s at line %s' % (type(node).__name__, getattr(node, 'lineno', '?')))
        return m(node)

    def ev_Constant(self, n):
        return n.value

    def ev_Name(self, n):
        env = self.st.env
        if n.id in env:
            v = env[n.id]
            if isinstance(v, Opt) and not self.spec_mode:
                v = self.unwrap(v)
                env[n.id] = v
            return v
        if self.spec_mode and n.id in self.spec_funcs:
            return self.spec_funcs[n.id]
        mi = self.mod_stack[-1]
        if n.id in mi.imports:
            q = mi.imports[n.id]
            return Ref(self.sources.resolve(q))
        if n.id in mi.funcs or n.id in mi.classes:
            return Ref(mi.name + '.' + n.id)
        if n.id in BUILTINS:
            return Ref('builtins.' + n.id, 'builtin')
        if self.spec_mode and n.id in SPEC_GLOBALS:
            q, kind = SPEC_GLOBALS[n.id]
            return Ref(q, kind)
        if n.id in ('True', 'False', 'None'):
            return {'True': True, 'False': False, 'None': None}[n.id]
        raise Unsupported('unbound name %s at line %s' % (n.id, getattr(n, 'lineno', '?')))

    spec_funcs = {}

    def ev_Tuple(self, n):
        return tuple(self.eval(e) for e in n.elts)

    def ev_List(self, n):
        return PyList(self.new_ident(), [self.eval(e) for e in n.elts])

    def ev_Set(self, n):
        return tuple(self.eval(e) for e in n.elts)

    def ev_Dict(self, n):
        d = {}
        for k, v in zip(n.keys, n.values):
            if k is None:
                raise Unsupported('dict ** literal')
            kk = self.eval(k)
            if not isinstance(kk, (str, int)):
                raise Unsupported('symbolic dict key')
            d[kk] = [True, self.eval(v)]
        return SDict(self.new_ident(), d)

    def ev_JoinedStr(self, n):
        return Opaque(z3.Const(fresh_name('fstr'), ValSort), 'fstring')

    def ev_Attribute(self, n):
        obj = self.eval(n.value)
        from . import lib
        return lib.get_attr(self, obj, n.attr, n)

    def ev_Subscript(self, n):
        obj = self.eval(n.value)
        from . import lib
        return lib.get_subscript(self, obj, n.slice, n)

    def ev_Slice(self, n):
        return slice(self.eval(n.lower) if n.lower is not None else None,
                     self.eval(n.upper) if n.upper is not None else None,
                     self.eval(n.step) if n.step is not None else None)

    def ev_UnaryOp(self, n):
        v = self.eval(n.operand)
        return self.unop(n.op, v, n)

    def unop(self, op, v, n=None):
        from . import lib
        if isinstance(v, Arr):
            r = lib.map_arr(self, [v], lambda e: self.unop(op, e, n), None)
            if isinstance(op, ast.USub):
                try:
                    inner = self.seq(v)
                    self.set_seq(r, 'seq_neg', inner)
                    r.neg_of = inner
                    self._seq_neg_axioms()
                except Unsupported:
                    pass
            return r
        if isinstance(op, ast.Not):
            if is_sym(v):
                return Z(z3.Not(zbool(v)), BOOL)
            if isinstance(v, (PyList,)):
                return not v.items
            if isinstance(v, (Arr, Frame, SDict, Opt)):
                raise Unsupported('not on %r' % (v,))
            return not v
        if isinstance(op, ast.USub):
            if isinstance(v, X):
                return xops.neg(v)
            if isinstance(v, Z):
                if v.ty == BOOL:
                    return Z(-to_int(v), INT)
                return Z(-v.t, v.ty)
            return -v
        if isinstance(op, ast.UAdd):
            return v
        if isinstance(op, ast.Invert):
            if isinstance(v, Z) and v.ty == BOOL:
                return Z(z3.Not(v.t), BOOL)
            if isinstance(v, bool):
                return not v
            raise Unsupported('~ on %r' % (v,))
        raise Unsupported('unary op')

    def ev_BinOp(self, n):
        a = self.eval(n.left)
        b = self.eval(n.right)
        return self.binop(n.op, a, b, n)

    def binop(self, op, a, b, n=None):
        from . import lib
        if isinstance(op, ast.Mult):
            for lst, k in ((a, b), (b, a)):
                if isinstance(lst, Arr) and lst.kind == 'list' and getattr(lst, 'lead', None) == 1 and len(lst.shape) == 1 \
                        and (isinstance(k, int) or (isinstance(k, Z) and k.ty == INT)):
                    # python list repetition: k copies of the same element objects, one after the other
                    from . import grid as _grid
                    ln = lst.shape[0] if not isinstance(lst.shape[0], int) else z3.IntVal(lst.shape[0])
                    kt = k.t if isinstance(k, Z) else z3.IntVal(k)
                    clo = self.st.heap[lst.ident]
                    return _grid.grid(self, (z3.simplify(ln * z3.If(kt > 0, kt, 0)),), 1,
                                      (lambda i, clo=clo, ln=ln: clo(i % ln)), 'list', owner=_grid.owner_of(lst))
        if isinstance(a, Arr) or isinstance(b, Arr):
            return lib.arr_binop(self, op, a, b, n)
        if isinstance(a, (PyList, tuple, list)) or isinstance(b, (PyList, tuple, list)):
            return lib.list_binop(self, op, a, b, n)
        if isinstance(a, str) and isinstance(b, str) and isinstance(op, ast.Add):
            return a + b
        if isinstance(a, str) or isinstance(b, str):
            if isinstance(op, ast.Add) and isinstance(a, str) and isinstance(b, str):
                return a + b
            raise Unsupported('string arithmetic')
        if not is_sym(a) and not is_sym(b):
            if a is None or b is None:
                raise RaiseSig('TypeError', n, 'None in arithmetic')
            if isinstance(a, (int, float, bool)) and isinstance(b, (int, float, bool)):
                return _py_binop(op, a, b, n)
            raise Unsupported('binop on %r, %r' % (a, b))
        if a is None or b is None:
            raise RaiseSig('TypeError', n, 'None in arithmetic')
        a, b = lift(a), lift(b)
        if isinstance(a, X) or isinstance(b, X):
            return xops.binop(op, xops.to_x(a), xops.to_x(b))
        if isinstance(op, (ast.BitAnd, ast.BitOr, ast.BitXor)):
            if a.ty == BOOL and b.ty == BOOL:
                f = {ast.BitAnd: z3.And, ast.BitOr: z3.Or, ast.BitXor: z3.Xor}[type(op)]
                return Z(f(a.t, b.t), BOOL)
            raise Unsupported('bit op on non-bool')
        if a.ty == STR or b.ty == STR:
            raise Unsupported('string arithmetic')
        both_int = a.ty in (INT, BOOL) and b.ty in (INT, BOOL)
        if isinstance(op, ast.Add):
            return Z(to_int(a) + to_int(b), INT) if both_int else Z(to_real(a) + to_real(b), REAL)
        if isinstance(op, ast.Sub):
            return Z(to_int(a) - to_int(b), INT) if both_int else Z(to_real(a) - to_real(b), REAL)
        if isinstance(op, ast.Mult):
            if not both_int:
                ra, rb = to_real(a), to_real(b)
                for x_, d_ in ((ra, rb), (rb, ra)):
                    # (x / d) * d == x for d != 0 (exact over the reals; the real-arithmetic idealisation of a float product)
                    if z3.is_div(x_) and x_.arg(1).eq(d_) and self.decide(d_ != 0) is True:
                        return Z(x_.arg(0), REAL)
            return Z(to_int(a) * to_int(b), INT) if both_int else Z(to_real(a) * to_real(b), REAL)
        if isinstance(op, ast.Div):
            den = to_real(b)
            if not self.spec_mode:
                # python scalars raise ZeroDivisionError; numpy scalars give inf/nan.  Scalars that reach a
                # division in the code under contract are numpy values only inside xr arithmetic, so here
                # a zero denominator is an error path.
                if self.branch(Z(den == 0, BOOL), 'div0'):
                    raise RaiseSig('ZeroDivisionError', n)
            return Z(to_real(a) / den, REAL)
        if isinstance(op, ast.FloorDiv):
            if both_int:
                if not self.spec_mode and self.branch(Z(to_int(b) == 0, BOOL), 'div0'):
                    raise RaiseSig('ZeroDivisionError', n)
                return Z(_floordiv(to_int(a), to_int(b)), INT)
            raise Unsupported('float floor division')
        if isinstance(op, ast.Mod):
            if both_int:
                if not self.spec_mode and self.branch(Z(to_int(b) == 0, BOOL), 'div0'):
                    raise RaiseSig('ZeroDivisionError', n)
                return Z(_pymod(to_int(a), to_int(b)), INT)
            raise Unsupported('float modulo')
        raise Unsupported('binary operator %s' % type(op).__name__)

    def ev_BoolOp(self, n):
        is_and = isinstance(n.op, ast.And)
        if self.spec_mode:
            ts = []
            last = None
            for e in n.values:
                v = self.eval(e)
                last = v
                if not is_sym(v) and not isinstance(v, z3.ExprRef):
                    t = bool(v.items) if isinstance(v, PyList) else bool(v)
                    if is_and and not t:
                        return False if ts else v
                    if not is_and and t:
                        return True if ts else v
                    continue                      # neutral element
                ts.append(v if isinstance(v, z3.ExprRef) else zbool(v))
            if not ts:
                return last
            return Z(z3.And(*ts) if is_and else z3.Or(*ts), BOOL)
        v = None
        for k, e in enumerate(n.values):
            v = self.eval(e)
            if k == len(n.values) - 1:
                return v
            t = self.branch(v, 'boolop@%d' % n.lineno)
            if is_and and not t:
                return v if not is_sym(v) else False
            if not is_and and t:
                return v if not is_sym(v) else True
        return v

    def ev_IfExp(self, n):
        c = self.eval(n.test)
        if self.spec_mode:
            if not is_sym(c) and not isinstance(c, z3.ExprRef):
                return self.eval(n.body) if c else self.eval(n.orelse)
            a, b = self.eval(n.body), self.eval(n.orelse)
            return self.ite(zbool(c) if not isinstance(c, z3.ExprRef) else c, a, b)
        if self.branch(c, 'ifexp@%d' % n.lineno):
            return self.eval(n.body)
        return self.eval(n.orelse)

    def ite(self, c, a, b):
        if isinstance(c, bool):
            return a if c else b
        if z3.is_true(c):
            return a
        if z3.is_false(c):
            return b
        if a is None and b is None:
            return None
        if isinstance(a, z3.ExprRef):
            a = Z(a, BOOL)
        if isinstance(b, z3.ExprRef):
            b = Z(b, BOOL)
        if (a is None) != (b is None):
            val = a if b is None else b
            if isinstance(val, Opt):
                return Opt(z3.Or(val.isnone, c if a is None else z3.Not(c)), val.val)
            return Opt(c if a is None else z3.Not(c), val if isinstance(val, (tuple, Opaque, SDict)) else lift(val))
        if isinstance(a, Opt) or isinstance(b, Opt):
            ao = a if isinstance(a, Opt) else Opt(z3.BoolVal(a is None), lift(a) if a is not None else b.val)
            bo = b if isinstance(b, Opt) else Opt(z3.BoolVal(b is None), lift(b) if b is not None else a.val)
            return Opt(z3.If(c, ao.isnone, bo.isnone), self.ite(c, ao.val, bo.val))
        if isinstance(a, tuple) and isinstance(b, tuple) and len(a) == len(b):
            return tuple(self.ite(c, x, y) for x, y in zip(a, b))
        a, b = lift(a), lift(b)
        if isinstance(a, X) or isinstance(b, X):
            a, b = xops.to_x(a), xops.to_x(b)
            return X(z3.If(c, a.t, b.t))
        if a.ty == b.ty:
            return Z(z3.If(c, a.t, b.t), a.ty)
        if {a.ty, b.ty} <= {INT, REAL, BOOL}:
            if REAL in (a.ty, b.ty):
                return Z(z3.If(c, to_real(a), to_real(b)), REAL)
            return Z(z3.If(c, to_int(a), to_int(b)), INT)
        raise Unsupported('ite of %s and %s' % (a.ty, b.ty))

    def ev_Compare(self, n):
        left = self.eval(n.left)
        res = None
        for op, rn in zip(n.ops, n.comparators):
            right = self.eval(rn)
            c = self.compare(op, left, right, n)
            if res is None:
                res = c
            else:
                res = self.and_(res, c)
            left = right
        return res

    def and_(self, a, b):
        from . import lib
        if isinstance(a, Arr) or isinstance(b, Arr):
            return lib.arr_binop(self, ast.BitAnd(), a, b, None)
        if isinstance(a, bool) and isinstance(b, bool):
            return a and b
        return Z(z3.And(zbool(a), zbool(b)), BOOL)

    def compare(self, op, a, b, n=None):
        from . import lib
        if isinstance(op, (ast.Is, ast.IsNot)):
            r = self.is_(a, b)
            if isinstance(op, ast.IsNot):
                r = (not r) if isinstance(r, bool) else Z(z3.Not(r.t), BOOL)
            return r
        if isinstance(op, (ast.In, ast.NotIn)):
            r = lib.contains(self, b, a, n)
            if isinstance(op, ast.NotIn):
                r = (not r) if isinstance(r, bool) else Z(z3.Not(zbool(r)), BOOL)
            return r
        if isinstance(a, Arr) or isinstance(b, Arr):
            return lib.arr_compare(self, op, a, b, n)
        if isinstance(op, (ast.Eq, ast.NotEq)):
            r = self.eq(a, b)
            if isinstance(op, ast.NotEq):
                r = (not r) if isinstance(r, bool) else Z(z3.Not(r.t), BOOL)
            return r
        # ordering
        if isinstance(a, Opt) or isinstance(b, Opt):
            for o in (a, b):
                if isinstance(o, Opt):
                    if self.spec_mode:
                        raise Unsupported('ordering on Opt in spec')
                    if self.branch(Z(o.isnone, BOOL), 'opt-none'):
                        raise RaiseSig('TypeError', n, 'None in comparison')
            a = a.val if isinstance(a, Opt) else a
            b = b.val if isinstance(b, Opt) else b
        if a is None or b is None:
            raise RaiseSig('TypeError', n, 'None in comparison')
        if isinstance(a, (str, tuple)) or isinstance(b, (str, tuple)):
            if type(a) is type(b):
                return _py_cmp(op, a, b)
            raise RaiseSig('TypeError', n, 'ordering between %s and %s' % (type(a).__name__, type(b).__name__))
        if not is_sym(a) and not is_sym(b):
            return _py_cmp(op, a, b)
        a, b = lift(a), lift(b)
        if isinstance(a, X) or isinstance(b, X):
            return Z(xops.compare(op, xops.to_x(a), xops.to_x(b)), BOOL)
        if a.ty == STR or b.ty == STR:
            raise Unsupported('ordering on strings')
        if a.ty in (INT, BOOL) and b.ty in (INT, BOOL):
            x, y = to_int(a), to_int(b)
        else:
            x, y = to_real(a), to_real(b)
            # p / d  vs  q / d  with the same positive d: compare the numerators (exact over the reals)
            if z3.is_div(x) and z3.is_div(y) and x.arg(1).eq(y.arg(1)) and self.decide(x.arg(1) > 0) is True:
                x, y = x.arg(0), y.arg(0)
            elif z3.is_div(x) and z3.is_rational_value(y) and y.as_fraction() == 0 and self.decide(x.arg(1) > 0) is True:
                x = x.arg(0)
            elif z3.is_div(y) and z3.is_rational_value(x) and x.as_fraction() == 0 and self.decide(y.arg(1) > 0) is True:
                y = y.arg(0)
        f = {ast.Lt: lambda: x < y, ast.LtE: lambda: x <= y, ast.Gt: lambda: x > y, ast.GtE: lambda: x >= y}
        return Z(f[type(op)](), BOOL)

    def is_(self, a, b):
        if isinstance(a, Opt) and b is None:
            return Z(a.isnone, BOOL)
        if isinstance(b, Opt) and a is None:
            return Z(b.isnone, BOOL)
        if (a is None and isinstance(b, Opaque) and getattr(b, 'maybe_none', False)) or \
                (b is None and isinstance(a, Opaque) and getattr(a, 'maybe_none', False)):
            o = a if isinstance(a, Opaque) else b
            return Z(IS_NONE_VAL(o.t), BOOL)           # a looked-up option value may be None: an unknown predicate of it
        if a is None or b is None:
            return a is None and b is None
        if isinstance(a, (bool,)) or isinstance(b, (bool,)):
            if isinstance(a, bool) and isinstance(b, bool):
                return a is b
            if isinstance(a, Z) and a.ty == BOOL and isinstance(b, bool):
                return Z(a.t == b, BOOL)
            if isinstance(b, Z) and b.ty == BOOL and isinstance(a, bool):
                return Z(b.t == a, BOOL)
            return False
        for x in (a, b):
            if isinstance(x, (Arr, Frame, SDict, Obj, PyList)):
                return getattr(a, 'ident', -1) == getattr(b, 'ident', -2) and \
                    getattr(a, 'off', 0) is getattr(b, 'off', 0)
        if isinstance(a, Opaque) and isinstance(b, Opaque):
            # opaque values have no identity beyond their term: the very same python object, or provably the same value
            return True if a is b else Z(a.t == b.t, BOOL)
        raise Unsupported('is on %r, %r' % (a, b))

    def eq(self, a, b):
        """python == on scalars / tuples (not arrays)"""
        if isinstance(a, Opt) or isinstance(b, Opt):
            if isinstance(a, Opt) and isinstance(b, Opt):
                raise Unsupported('Opt == Opt')
            o, other = (a, b) if isinstance(a, Opt) else (b, a)
            if other is None:
                return Z(o.isnone, BOOL)
            inner = self.eq(o.val, other)
            return Z(z3.And(z3.Not(o.isnone), zbool(inner)), BOOL)
        if a is None or b is None:
            return a is None and b is None
        if isinstance(a, tuple) or isinstance(b, tuple):
            if isinstance(a, tuple) and isinstance(b, tuple):
                if len(a) != len(b):
                    return False
                rs = [self.eq(x, y) for x, y in zip(a, b)]
                if all(isinstance(r, bool) for r in rs):
                    return all(rs)
                return Z(z3.And(*[zbool(r) for r in rs]), BOOL)
            return False
        if isinstance(a, str) or isinstance(b, str):
            if isinstance(a, str) and isinstance(b, str):
                return a == b
            other = b if isinstance(a, str) else a
            s = a if isinstance(a, str) else b
            if isinstance(other, Z) and other.ty == STR:
                return Z(other.t == str_code(s), BOOL)
            if isinstance(other, Opaque):
                return Z(STR_OF_VAL(other.t) == str_code(s), BOOL)
            return False
        if not is_sym(a) and not is_sym(b):
            if isinstance(a, (int, float, bool)) and isinstance(b, (int, float, bool)):
                return a == b
            if isinstance(a, (Opaque,)) or isinstance(b, (Opaque,)):
                if isinstance(a, Opaque) and isinstance(b, Opaque):
                    return Z(a.t == b.t, BOOL)
                return False
            raise Unsupported('== on %r, %r' % (a, b))
        if isinstance(a, (Opaque, Arr, Frame, SDict)) or isinstance(b, (Opaque, Arr, Frame, SDict)):
            return False
        a, b = lift(a), lift(b)
        if isinstance(a, X) or isinstance(b, X):
            return Z(xops.compare(ast.Eq(), xops.to_x(a), xops.to_x(b)), BOOL)
        if a.ty == STR or b.ty == STR:
            if a.ty == b.ty:
                return Z(a.t == b.t, BOOL)
            return False
        if a.ty == BOOL and b.ty == BOOL:
            return Z(a.t == b.t, BOOL)
        if a.ty in (INT, BOOL) and b.ty in (INT, BOOL):
            return Z(to_int(a) == to_int(b), BOOL)
        return Z(to_real(a) == to_real(b), BOOL)

    def ev_Call(self, n):
        from . import calls
        return calls.do_call(self, n)

    def ev_ListComp(self, n):
        from . import loops
        return loops.eval_comprehension(self, n)

    def ev_GeneratorExp(self, n):
        return ('genexp', n, dict(self.st.env))

    def ev_Lambda(self, n):
        raise Unsupported('lambda')

    def ev_Starred(self, n):
        raise Unsupported('starred')


def _chk(solver):
    """solver.check() that treats an internal solver error as 'unknown' (z3 5.1 intermittently raises "Sorts Bool and XR are
    incompatible" on queries with lambdas over the extended-real datatype; the fresh-solver and cvc5 fallbacks then take over)"""
    try:
        return solver.check()
    except z3.Z3Exception:
        return z3.unknown


def _alpha_eq(a, b):
    try:
        if a.eq(b):
            return True
        if z3.is_quantifier(a) and z3.is_quantifier(b) and a.is_forall() == b.is_forall() and a.num_vars() == b.num_vars():
            if all(a.var_sort(k) == b.var_sort(k) for k in range(a.num_vars())):
                return a.body().eq(b.body())
    except Exception:
        pass
    return False


def _has_quant(t):
    seen = set()
    stack = [t]
    while stack:
        x = stack.pop()
        if z3.is_quantifier(x):
            return True
        i = x.get_id()
        if i in seen:
            continue
        seen.add(i)
        stack.extend(x.children())
    return False


IS_NONE_VAL = z3.Function('value_is_none', ValSort, z3.BoolSort())
STR_OF_VAL = z3.Function('value_as_string', ValSort, z3.IntSort())


def _opq(t, tlen=None):
    o = Opaque(t, 'element')
    o.length = tlen
    return o


class Proof:
    """what a proof hook may do: state facts that are PROVED here (obligations), never assume anything"""

    def __init__(self, E, node, anchor):
        self.E = E
        self.node = node
        self.anchor = anchor
        self.env = E.st.env
        self.count = 0

    def have(self, name, goal, using=None):
        """state a fact and prove it here.  With `using`, the proof may use only the named earlier facts (plus the
        quantifier-free part of the path and the library axioms registered under a name): small contexts keep the
        solver fast and the dependency structure of the argument explicit."""
        self.count += 1
        tag = '%s/proof@%s:%s' % (self.E.fn_short, '-'.join(str(a) for a in self.anchor), name)
        if using is None:
            self.E.oblige('proof', goal, self.node, name=tag)
        else:
            self.E.oblige_focused('proof', self.hyps(using), goal, self.node, name=tag)
        self.E.st.ghost.setdefault('facts', {})[name] = goal

    def hyps(self, using):
        facts = self.E.st.ghost.setdefault('facts', {})
        out = []
        for u in using:
            v = facts[u]
            out.extend(v if isinstance(v, list) else [v])
        return out

    def register(self, name, terms):
        """give a name to assumptions that are already part of the path (library axioms, invariants)"""
        self.E.st.ghost.setdefault('facts', {})[name] = list(terms)

    def induct(self, name, pred, lo, hi, using=None):
        """forall i in [lo, hi]: pred(i), by induction on i: base pred(lo) (if lo <= hi), step pred(i) => pred(i+1) for
        lo <= i < hi.  The conclusion is then available (the induction principle over the integers is the only thing
        used that the solver does not check)."""
        i = z3.Int(fresh_name('ind'))
        tag = '%s/proof@%s:%s' % (self.E.fn_short, '-'.join(str(a) for a in self.anchor), name)
        if using is None:
            self.E.oblige('proof', z3.Implies(lo <= hi, pred(lo)), self.node, name=tag + '/base')
            self.E.oblige_isolated('proof', [z3.And(lo <= i, i < hi), pred(i)], pred(i + 1), self.node, name=tag + '/step')
        else:
            h = self.hyps(using)
            self.E.oblige_focused('proof', h, z3.Implies(lo <= hi, pred(lo)), self.node, name=tag + '/base', assume=False)
            self.E.oblige_focused('proof', h + [z3.And(lo <= i, i < hi), pred(i)], pred(i + 1), self.node,
                                  name=tag + '/step', assume=False)
        j = z3.Int(fresh_name('j'))
        concl = z3.ForAll([j], z3.Implies(z3.And(lo <= j, j <= hi), pred(j)))
        self.E.assumptions_quant(concl)
        self.E.st.ghost.setdefault('facts', {})[name] = concl

    def rd(self, arr, i):
        return self.E.rd(arr, i)

    def prove_clause(self, name, clause, env, by):
        """prove a universally quantified contract clause (given as text) for arbitrary fresh values of its bound variables
        from the ground facts by(*fresh); the clause itself - the very formula the contract check will ask for - is then
        registered under `name`"""
        f = self.E.spec_bool(clause, env)
        tag = '%s/proof@%s:%s' % (self.E.fn_short, '-'.join(str(a) for a in self.anchor), name)
        if z3.is_quantifier(f) and f.is_forall():
            fresh = [z3.Const(fresh_name('sk.' + f.var_name(k)), f.var_sort(k)) for k in range(f.num_vars())]
            body = z3.substitute_vars(f.body(), *reversed(fresh))
            self.E.oblige_focused('proof', list(by(*fresh)), body, self.node, name=tag, assume=False)
            self.E.assumptions_quant(f)
        else:
            self.E.oblige_focused('proof', list(by()), f, self.node, name=tag, assume=True)
        self.E.st.ghost.setdefault('facts', {})[name] = f
        return f

    def instq(self, fact, idx, *terms):
        """instance of the idx-th (universally quantified) formula of a registered fact list at the given terms"""
        v = self.E.st.ghost.get('facts', {}).get(fact)
        f = (v if isinstance(v, list) else [v])[idx]
        if not (z3.is_quantifier(f) and f.is_forall()):
            return f
        if f.num_vars() != len(terms):
            raise Unsupported('instq: %d variables, %d terms' % (f.num_vars(), len(terms)))
        ts = [t if isinstance(t, z3.ExprRef) else z3.IntVal(t) for t in terms]
        return z3.substitute_vars(f.body(), *reversed(ts))

    # ---- explicit-instantiation style: every obligation below is quantifier-free
    def schema(self, name, fn, closed=None):
        """name an already established universally quantified fact as an instantiable schema"""
        self.E.st.ghost.setdefault('schemas', {})[name] = fn

    def inst(self, name, *terms):
        return self.E.st.ghost['schemas'][name](*terms)

    def forall(self, name, vars_, prem, concl, by=(), patterns=None):
        """prove  forall vars. prem => concl  for arbitrary (fresh) vars from the ground facts in `by` (instances of
        earlier schemas) and the quantifier-free part of the path; then register it as a schema and add it to the path"""
        self.count += 1
        tag = '%s/proof@%s:%s' % (self.E.fn_short, '-'.join(str(a) for a in self.anchor), name)
        fresh = [z3.Const(fresh_name(str(v)), v.sort()) for v in vars_]
        sub = list(zip(vars_, fresh))
        g = lambda t: z3.substitute(t, *sub)
        hyps = [g(h) for h in by] + [g(prem)]
        self.E.oblige_focused('proof', hyps, g(concl), self.node, name=tag, assume=False)
        body = z3.Implies(prem, concl)
        vs = list(vars_)
        self.schema(name, lambda *ts: z3.substitute(body, *list(zip(vs, [t if isinstance(t, z3.ExprRef) else z3.IntVal(t) for t in ts]))))
        closed = z3.ForAll(vs, body, patterns=patterns) if patterns else z3.ForAll(vs, body)
        self.E.assumptions_quant(closed)
        self.E.st.ghost.setdefault('facts', {})[name] = closed

    def range_ext(self, name, pointwise_fact, app_a, app_b, what):
        """range-extensionality of an uninterpreted reduction F(array, n, ...) that by its meaning reads only the entries
        below n: once  forall k in [0, n): A[k] == B[k]  is established (the named fact), F(A, n, ...) == F(B, n, ...).
        A definitional property of the reduction symbol (listed with the definitional clauses), not a fact about code."""
        f = self.E.st.ghost.get('facts', {}).get(pointwise_fact)
        if f is None:
            raise Unsupported('range_ext: no fact %s' % pointwise_fact)
        t = z3.Implies(f, app_a == app_b)
        self.E.assumptions_quant(t)
        self.E.stats.setdefault('definitions', []).append('%s: range-extensionality of %s' % (self.E.fn_short, what))
        self.E.st.ghost.setdefault('facts', {})[name] = [f, t]

    def pick(self, fact, needle, nth=0):
        """the nth formula of a registered fact list whose text mentions `needle`"""
        v = self.E.st.ghost.get('facts', {}).get(fact) or []
        hits = [x for x in (v if isinstance(v, list) else [v]) if needle in x.sexpr()]
        if len(hits) <= nth:
            raise Unsupported('pick: %s has no formula mentioning %s' % (fact, needle))
        return hits[nth]

    def inst_formula(self, f, *terms):
        if not (z3.is_quantifier(f) and f.is_forall()):
            return f
        ts = [t if isinstance(t, z3.ExprRef) else z3.IntVal(t) for t in terms]
        return z3.substitute_vars(f.body(), *reversed(ts))

    def ground(self, name, concl, by=()):
        """a ground fact from ground instances"""
        tag = '%s/proof@%s:%s' % (self.E.fn_short, '-'.join(str(a) for a in self.anchor), name)
        self.E.oblige_focused('proof', list(by), concl, self.node, name=tag, assume=True)
        self.schema(name, lambda: concl)
        self.E.st.ghost.setdefault('facts', {})[name] = concl

    def induct_q(self, name, var, lo, hi, pred, step_by, params=(), prem=None):
        """forall params, var in [lo, hi]: pred, by induction on var (lo, hi, pred may mention params).  base and
        step are quantifier-free obligations: pred[lo], and pred[i] & step_by(i) => pred[i+1] for lo <= i < hi."""
        tag = '%s/proof@%s:%s' % (self.E.fn_short, '-'.join(str(a) for a in self.anchor), name)
        i = z3.Int(fresh_name('ind'))
        pf = [z3.Int(fresh_name(str(v))) for v in params]
        sub = list(zip(params, pf))
        g = lambda t: z3.substitute(t, *sub) if sub else t
        at = lambda t, x: z3.substitute(g(t), (var, x))
        P0 = [g(prem)] if prem is not None else []
        lo_, hi_ = g(lo) if isinstance(lo, z3.ExprRef) else z3.IntVal(lo), g(hi) if isinstance(hi, z3.ExprRef) else z3.IntVal(hi)
        self.E.oblige_focused('proof', P0 + [lo_ <= hi_] + [g(h) for h in step_by(lo_ - 1)][:0], at(pred, lo_), self.node,
                              name=tag + '/base', assume=False)
        self.E.oblige_focused('proof', P0 + [lo_ <= i, i < hi_, at(pred, i)] + [g(h) for h in step_by(i)], at(pred, i + 1),
                              self.node, name=tag + '/step', assume=False)
        vs = list(params) + [var]
        rng = z3.And(lo <= var, var <= hi) if prem is None else z3.And(prem, lo <= var, var <= hi)
        body = z3.Implies(rng, pred)
        self.schema(name, lambda *ts: z3.substitute(body, *list(zip(vs, [t if isinstance(t, z3.ExprRef) else z3.IntVal(t) for t in ts]))))
        closed = z3.ForAll(vs, body)
        self.E.assumptions_quant(closed)
        self.E.st.ghost.setdefault('facts', {})[name] = closed


class _NoDefault:
    pass


_NODEFAULT = _NoDefault()

SPEC_GLOBALS = {'np': ('numpy', 'module'), 'pd': ('pandas', 'module'),
                'amp_by_time': ('neurodsp.timefrequency.amp_by_time', 'func'),
                'detect_bursts_dual_threshold': ('neurodsp.burst.detect_bursts_dual_threshold', 'func')}

BUILTINS = {'len', 'range', 'enumerate', 'zip', 'int', 'float', 'isinstance', 'list', 'max', 'min', 'str',
            'next', 'abs', 'dict', 'tuple', 'bool', 'print', 'sum', 'round', 'super', 'object', 'set',
            'ValueError', 'TypeError', 'AttributeError', 'ImportError', 'KeyError'}


def _load(target):
    t = ast.parse(ast.unparse(target), mode='eval').body
    ast.copy_location(t, target)
    for sub in ast.walk(t):
        if not hasattr(sub, 'lineno'):
            sub.lineno = getattr(target, 'lineno', 0)
            sub.col_offset = 0
    return t


def _py_binop(op, a, b, n):
    try:
        if isinstance(op, ast.Add):
            return a + b
        if isinstance(op, ast.Sub):
            return a - b
        if isinstance(op, ast.Mult):
            return a * b
        if isinstance(op, ast.Div):
            return a / b
        if isinstance(op, ast.FloorDiv):
            return a // b
        if isinstance(op, ast.Mod):
            return a % b
        if isinstance(op, ast.Pow):
            return a ** b
        if isinstance(op, ast.BitAnd):
            return a & b
        if isinstance(op, ast.BitOr):
            return a | b
    except ZeroDivisionError:
        raise RaiseSig('ZeroDivisionError', n)
    raise Unsupported('python binop %s' % type(op).__name__)


def _py_cmp(op, a, b):
    return {ast.Lt: a < b, ast.LtE: a <= b, ast.Gt: a > b, ast.GtE: a >= b}[type(op)] \
        if not isinstance(op, (ast.Eq, ast.NotEq)) else ((a == b) if isinstance(op, ast.Eq) else (a != b))


def _floordiv(a, b):
    # python floor division for any sign of b, from z3's euclidean div
    q = a / b
    r = a % b
    return z3.If(b > 0, q, z3.If(r == 0, q, q - 1))


def _pymod(a, b):
    r = a % b
    return z3.If(b > 0, r, z3.If(r == 0, r, r + b))


def _idents_of(v):
    if isinstance(v, Arr):
        return [v.ident]
    if isinstance(v, Frame):
        return [v.ident] + [c.ident for c in v.cols.values()]
    if isinstance(v, (SDict, Obj, PyList)):
        return [v.ident]
    return []


def _sdict_snapshot(d):
    return {k: (p, v) for k, (p, v) in d.items.items()}


def _frame_snapshot(f):
    return (f.n, dict(f.cols))
