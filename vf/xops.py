"""Extended-real arithmetic: IEEE specials (nan, +inf, -inf) over exact reals, no rounding (DESIGN 2.2).

An extended real is one z3 term of the datatype XR = mk(tag, val); tag 0 finite, 1 nan, 2 +inf, 3 -inf.
Well-formed values have 0 <= tag <= 3 and val == 0 unless finite, so value identity ("the same float", nan
included) is plain term equality.  The operations are z3 *defined functions* (define-fun-rec without recursion):
terms stay small, code and spec that apply the same operation to the same operands are congruent without
unfolding, and the solver unfolds a definition only where a proof needs it.
"""
import ast
import z3
from .values import X, Z, INT, REAL, BOOL, FIN, NAN, PINF, NINF, XRS

I = z3.IntVal
R0 = z3.RealVal(0)
mk = XRS.mk
tag = XRS.tag
val = XRS.val


def _def(name, nargs, ret, body, sorts=None):
    sorts = sorts or [XRS] * nargs
    f = z3.RecFunction(name, *sorts, ret)
    vs = [z3.Const('%s_a%d' % (name, k), s) for k, s in enumerate(sorts)]
    z3.RecAddDefinition(f, vs, body(*vs))
    return f


def fin(v):
    return mk(I(FIN), v)


NANV = mk(I(NAN), R0)
PINFV = mk(I(PINF), R0)
NINFV = mk(I(NINF), R0)


def wf(t):
    return z3.And(tag(t) >= 0, tag(t) <= 3, z3.Or(tag(t) == FIN, val(t) == 0))


def _sign(a):
    return z3.If(tag(a) == PINF, 1, z3.If(tag(a) == NINF, -1, z3.If(val(a) > 0, 1, z3.If(val(a) < 0, -1, 0))))


def _mkn(t, v):
    """normalised constructor: val forced to 0 unless finite"""
    return mk(t, z3.If(t == FIN, v, R0))


F_NEG = _def('xneg', 1, XRS, lambda a: _mkn(z3.If(tag(a) == PINF, I(NINF), z3.If(tag(a) == NINF, I(PINF), tag(a))), -val(a)))


def _add_body(a, b):
    nan = z3.Or(tag(a) == NAN, tag(b) == NAN, z3.And(tag(a) == PINF, tag(b) == NINF),
                z3.And(tag(a) == NINF, tag(b) == PINF))
    t = z3.If(nan, I(NAN), z3.If(z3.Or(tag(a) == PINF, tag(b) == PINF), I(PINF),
                                 z3.If(z3.Or(tag(a) == NINF, tag(b) == NINF), I(NINF), I(FIN))))
    return _mkn(t, val(a) + val(b))


F_ADD = _def('xadd', 2, XRS, _add_body)


def _mul_body(a, b):
    sa, sb = _sign(a), _sign(b)
    anyinf = z3.Or(tag(a) == PINF, tag(a) == NINF, tag(b) == PINF, tag(b) == NINF)
    nan = z3.Or(tag(a) == NAN, tag(b) == NAN, z3.And(anyinf, z3.Or(sa == 0, sb == 0)))
    t = z3.If(nan, I(NAN), z3.If(anyinf, z3.If(sa * sb > 0, I(PINF), I(NINF)), I(FIN)))
    return _mkn(t, val(a) * val(b))


F_MUL = _def('xmul', 2, XRS, _mul_body)


def _div_body(a, b):
    """numpy float division: x/0 = +-inf, 0/0 = nan, fin/inf = 0, inf/inf = nan (no signed zeros)"""
    sa, sb = _sign(a), _sign(b)
    a_inf = z3.Or(tag(a) == PINF, tag(a) == NINF)
    b_inf = z3.Or(tag(b) == PINF, tag(b) == NINF)
    b_zero = z3.And(tag(b) == FIN, val(b) == 0)
    nan = z3.Or(tag(a) == NAN, tag(b) == NAN, z3.And(a_inf, b_inf), z3.And(b_zero, sa == 0))
    inf_res = z3.Or(z3.And(a_inf, z3.Not(b_inf)), z3.And(b_zero, sa != 0))
    res_sign = z3.If(b_zero, sa, sa * sb)
    t = z3.If(nan, I(NAN), z3.If(inf_res, z3.If(res_sign > 0, I(PINF), I(NINF)), I(FIN)))
    v = z3.If(z3.And(tag(a) == FIN, tag(b) == FIN, val(b) != 0), val(a) / val(b), R0)
    return _mkn(t, v)


F_DIV = _def('xdiv', 2, XRS, _div_body)


def _lt_body(a, b):
    ok = z3.And(tag(a) != NAN, tag(b) != NAN)
    return z3.And(ok, z3.Or(z3.And(tag(a) == NINF, tag(b) != NINF),
                            z3.And(tag(b) == PINF, tag(a) != PINF),
                            z3.And(tag(a) == FIN, tag(b) == FIN, val(a) < val(b))))


F_LT = _def('xlt', 2, z3.BoolSort(), _lt_body)
F_EQ = _def('xeq', 2, z3.BoolSort(), lambda a, b: z3.And(tag(a) != NAN, tag(b) != NAN, tag(a) == tag(b),
                                                         z3.Or(tag(a) != FIN, val(a) == val(b))))
F_MIN = _def('xmin', 2, XRS, lambda a, b: z3.If(z3.Or(tag(a) == NAN, tag(b) == NAN), NANV, z3.If(F_LT(b, a), b, a)))
F_MAX = _def('xmax', 2, XRS, lambda a, b: z3.If(z3.Or(tag(a) == NAN, tag(b) == NAN), NANV, z3.If(F_LT(a, b), b, a)))
F_NANMIN = _def('xnanmin', 2, XRS, lambda a, b: z3.If(tag(a) == NAN, b, z3.If(tag(b) == NAN, a, z3.If(F_LT(b, a), b, a))))
F_RATIO = _def('xratio', 2, XRS, lambda a, b: F_DIV(F_MIN(a, b), F_MAX(a, b)))
F_CLAMP0 = _def('xclamp0', 1, XRS, lambda a: z3.If(F_LT(a, fin(R0)), fin(R0), a))

ALL_DEFS = [F_NEG, F_ADD, F_MUL, F_DIV, F_LT, F_EQ, F_MIN, F_MAX, F_NANMIN, F_RATIO, F_CLAMP0]


def to_x(v):
    if isinstance(v, X):
        return v
    if isinstance(v, Z):
        if v.ty == REAL:
            return X(fin(v.t))
        if v.ty == INT:
            return X(fin(z3.ToReal(v.t)))
        if v.ty == BOOL:
            return X(fin(z3.If(v.t, z3.RealVal(1), R0)))
    raise TypeError('to_x(%r)' % (v,))


def isnan(a):
    return tag(a.t) == NAN


def isfin(a):
    return tag(a.t) == FIN


def neg(a):
    return X(F_NEG(a.t))


def add(a, b):
    return X(F_ADD(a.t, b.t))


def sub(a, b):
    return X(F_ADD(a.t, F_NEG(b.t)))


def mul(a, b):
    return X(F_MUL(a.t, b.t))


def div(a, b):
    return X(F_DIV(a.t, b.t))


def binop(op, a, b):
    if isinstance(op, ast.Add):
        return add(a, b)
    if isinstance(op, ast.Sub):
        return sub(a, b)
    if isinstance(op, ast.Mult):
        return mul(a, b)
    if isinstance(op, ast.Div):
        return div(a, b)
    raise TypeError('xr op %s' % type(op).__name__)


def lt(a, b):
    return F_LT(a.t, b.t)


def eq(a, b):
    return F_EQ(a.t, b.t)


def compare(op, a, b):
    if isinstance(op, ast.Lt):
        return lt(a, b)
    if isinstance(op, ast.Gt):
        return lt(b, a)
    if isinstance(op, ast.LtE):
        return z3.Or(lt(a, b), eq(a, b))
    if isinstance(op, ast.GtE):
        return z3.Or(lt(b, a), eq(a, b))
    if isinstance(op, ast.Eq):
        return eq(a, b)
    if isinstance(op, ast.NotEq):
        return z3.Not(eq(a, b))
    raise TypeError('xr compare')


def ite(c, a, b):
    return X(z3.If(c, a.t, b.t))


def np_min2(a, b):
    return X(F_MIN(a.t, b.t))


def np_max2(a, b):
    return X(F_MAX(a.t, b.t))


def nanmin2(a, b):
    return X(F_NANMIN(a.t, b.t))


def ratio(a, b):
    return X(F_RATIO(a.t, b.t))


def clamp0(a):
    return X(F_CLAMP0(a.t))


def same(a, b):
    """value identity incl. nan == nan: term equality of well-formed values"""
    return a.t == b.t


def nan():
    return X(NANV)
