"""Extended-real arithmetic: IEEE specials (nan, +inf, -inf) over exact reals, no rounding (DESIGN 2.2)."""
import ast
import z3
from .values import X, Z, INT, REAL, BOOL, FIN, NAN, PINF, NINF

I = z3.IntVal


def to_x(v):
    if isinstance(v, X):
        return v
    if isinstance(v, Z):
        if v.ty == REAL:
            return X(I(FIN), v.t)
        if v.ty == INT:
            return X(I(FIN), z3.ToReal(v.t))
        if v.ty == BOOL:
            return X(I(FIN), z3.If(v.t, z3.RealVal(1), z3.RealVal(0)))
    raise TypeError('to_x(%r)' % (v,))


def isnan(a):
    return a.tag == NAN


def isfin(a):
    return a.tag == FIN


def sign(a):
    """-1, 0, 1 as z3 Int for non-nan a"""
    return z3.If(a.tag == PINF, 1, z3.If(a.tag == NINF, -1, z3.If(a.val > 0, 1, z3.If(a.val < 0, -1, 0))))


def neg(a):
    return X(z3.If(a.tag == PINF, I(NINF), z3.If(a.tag == NINF, I(PINF), a.tag)), -a.val)


def _mk(tag, val):
    return X(tag, val)


def add(a, b):
    nan = z3.Or(isnan(a), isnan(b), z3.And(a.tag == PINF, b.tag == NINF), z3.And(a.tag == NINF, b.tag == PINF))
    tag = z3.If(nan, I(NAN), z3.If(z3.Or(a.tag == PINF, b.tag == PINF), I(PINF),
                                   z3.If(z3.Or(a.tag == NINF, b.tag == NINF), I(NINF), I(FIN))))
    return X(tag, a.val + b.val)


def sub(a, b):
    return add(a, neg(b))


def mul(a, b):
    sa, sb = sign(a), sign(b)
    anyinf = z3.Or(a.tag == PINF, a.tag == NINF, b.tag == PINF, b.tag == NINF)
    nan = z3.Or(isnan(a), isnan(b), z3.And(anyinf, z3.Or(sa == 0, sb == 0)))
    tag = z3.If(nan, I(NAN), z3.If(anyinf, z3.If(sa * sb > 0, I(PINF), I(NINF)), I(FIN)))
    return X(tag, a.val * b.val)


def div(a, b):
    """numpy float division: x/0 = +-inf, 0/0 = nan, fin/inf = 0, inf/inf = nan"""
    sa, sb = sign(a), sign(b)
    a_inf = z3.Or(a.tag == PINF, a.tag == NINF)
    b_inf = z3.Or(b.tag == PINF, b.tag == NINF)
    b_zero = z3.And(b.tag == FIN, b.val == 0)
    nan = z3.Or(isnan(a), isnan(b), z3.And(a_inf, b_inf), z3.And(b_zero, sa == 0))
    # numpy: x / +0.0 = sign(x) inf ; the sign of a zero denominator is taken as +0 (no signed zeros modelled)
    inf_res = z3.Or(z3.And(a_inf, z3.Not(b_inf)), z3.And(b_zero, sa != 0))
    res_sign = z3.If(b_zero, sa, sa * sb)
    tag = z3.If(nan, I(NAN), z3.If(inf_res, z3.If(res_sign > 0, I(PINF), I(NINF)), I(FIN)))
    val = z3.If(z3.And(a.tag == FIN, b.tag == FIN, b.val != 0), a.val / b.val, z3.RealVal(0))
    return X(tag, val)


def binop(op, a, b):
    if isinstance(op, ast.Add):
        return add(a, b)
    if isinstance(op, ast.Sub):
        return sub(a, b)
    if isinstance(op, ast.Mult):
        return mul(a, b)
    if isinstance(op, ast.Div):
        return div(a, b)
    raise TypeError('xr op %s' % type(op).__name__)


def lt(a, b):
    """a < b, false on nan"""
    ok = z3.And(z3.Not(isnan(a)), z3.Not(isnan(b)))
    return z3.And(ok, z3.Or(
        z3.And(a.tag == NINF, b.tag != NINF),
        z3.And(b.tag == PINF, a.tag != PINF),
        z3.And(a.tag == FIN, b.tag == FIN, a.val < b.val)))


def eq(a, b):
    ok = z3.And(z3.Not(isnan(a)), z3.Not(isnan(b)))
    return z3.And(ok, a.tag == b.tag, z3.Or(a.tag != FIN, a.val == b.val))


def compare(op, a, b):
    if isinstance(op, ast.Lt):
        return lt(a, b)
    if isinstance(op, ast.Gt):
        return lt(b, a)
    if isinstance(op, ast.LtE):
        return z3.Or(lt(a, b), eq(a, b))
    if isinstance(op, ast.GtE):
        return z3.Or(lt(b, a), eq(a, b))
    if isinstance(op, ast.Eq):
        return eq(a, b)
    if isinstance(op, ast.NotEq):
        return z3.Not(eq(a, b))
    raise TypeError('xr compare')


def ite(c, a, b):
    return X(z3.If(c, a.tag, b.tag), z3.If(c, a.val, b.val))


def np_min2(a, b):
    """np.min([a, b]): nan-propagating"""
    nan = z3.Or(isnan(a), isnan(b))
    r = ite(lt(b, a), b, a)
    return ite(nan, X(I(NAN), z3.RealVal(0)), r)


def np_max2(a, b):
    nan = z3.Or(isnan(a), isnan(b))
    r = ite(lt(a, b), b, a)
    return ite(nan, X(I(NAN), z3.RealVal(0)), r)


def nanmin2(a, b):
    """np.nanmin over two values (nan only if both nan)"""
    return ite(isnan(a), b, ite(isnan(b), a, ite(lt(b, a), b, a)))


def same(a, b):
    """structural identity incl. nan == nan (for specs: 'is the same float')"""
    return z3.And(a.tag == b.tag, z3.Or(a.tag != FIN, a.val == b.val))
