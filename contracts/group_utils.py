"""bycycle.group.utils — C19 (shape/axis decision table), C11 (progress_bar)."""
from . import contract

KW = 'compute_features_kwargs'

VALID = (
    "((sigs.ndim == 2 and (axis == 0 or axis is None) and {k}.ndim == 1 and {k}.shape[0] == sigs.shape[0])"
    " or (sigs.ndim == 3 and axis == 0 and {k}.ndim == 1 and {k}.shape[0] == sigs.shape[0])"
    " or (sigs.ndim == 3 and axis == 1 and {k}.ndim == 1 and {k}.shape[0] == sigs.shape[1])"
    " or (sigs.ndim == 3 and axis == (0, 1) and {k}.ndim == 2 and {k}.shape[0] == sigs.shape[0]"
    "     and {k}.shape[1] == sigs.shape[1]))").format(k=KW)

IS_LIST = "(not isinstance({k}, dict) and {k} is not None)".format(k=KW)

contract(
    'bycycle.group.utils.check_kwargs_shape',
    # every combination of: sigs rank x option-list kind x axis kind, all extents symbolic >= 1
    cases=[
        dict(label='sigs%dd,kw=%s,axis=%s' % (sd, kl, al),
             params={'sigs': ('nd', sd), KW: kt, 'axis': at})
        for sd in (2, 3)
        for kl, kt in (('None', 'none'), ('dict', ('dict', {})), ('1d', ('nd', 1)), ('2d', ('nd', 2)),
                       ('3d', ('nd', 3)))
        for al, at in (('None', 'none'), ('0', ('const', 0)), ('1', ('const', 1)), ('(0,1)', ('const', (0, 1))),
                       ('otherint', 'int'), ('(1,0)', ('const', (1, 0))))
    ],
    case_requires={'otherint': ["axis != 0 and axis != 1"]},
    # ValueError exactly for option lists whose shape does not match the array and axis (C19); a dict or None
    # is always accepted here (an invalid axis is then rejected by compute_features_2d / _3d themselves)
    raises={'ValueError': IS_LIST + " and not " + VALID},
    ensures=["result is None"],
    modifies=[],
)


# progress_bar: the items handed on are the items received, in their order (with the tqdm wrapper: assumed contract of
# tqdm); ValueError exactly for an unknown progress option (C19); tqdm not installed = no progress bar
contract(
    'bycycle.group.utils.progress_bar',
    cases=[dict(label='progress=%s' % lab, params={'iterable': 'any', 'progress': pt, 'n_to_run': 'int', 'pbar_desc': 'str'})
           for lab, pt in (('None', 'none'), ('tqdm', ('const', 'tqdm')), ('tqdm.notebook', ('const', 'tqdm.notebook')),
                           ('other', 'str'))],
    case_requires={'other': ["progress != 'tqdm' and progress != 'tqdm.notebook'"]},
    raises={'ValueError': "progress is not None and progress != 'tqdm' and progress != 'tqdm.notebook'"},
    ensures=["result is iterable"],
    modifies=[],
    result=lambda E, env: env['iterable'],
)
