#!/usr/bin/env python3
"""List every unit / canary in the evidence files that is not in the expected state (developer guard against silent proof
loss on the unchanged tree: a unit that became 'unsupported' still lets its check exit 0)."""
import glob, json, sys
bad = 0
for p in sorted(glob.glob('/verif/evidence/C*.json')):
    ev = json.load(open(p))
    cov = ev.get('coverage', {})
    for u in cov.get('units', []):
        if u.get('status') != 'ok':
            bad += 1
            print('%s unit %s: %s %s' % (p[-8:-5], u.get('unit'), u.get('status'), (u.get('why') or '')[:160]))
    for c in cov.get('canaries', []) or []:
        if c.get('status') not in ('caught',):
            print('%s canary %s: %s %s' % (p[-8:-5], c.get('canary'), c.get('status'), (c.get('why') or '')[:120]))
print('units not ok:', bad)
sys.exit(1 if bad else 0)
