"""Proof script for bycycle.cyclepoints.phase.extrema_interpolated_phase (C17), extrema only.

The argument, in the order the hooks establish it (every step is its own small obligation; nothing is assumed):

  knots      c(0) < c(1) < ... : the alternating merge of the two extremum arrays (from the precondition), at least two
             samples apart, inside the signal; globally increasing (induction)
  anchors    the scattered stores put a finite value exactly on the knots (membership predicate of the store, its witness)
  selection  between two consecutive knots no sample is selected by the NaN mask, so consecutive knots are consecutive
             sample points of np.interp (counting function of the mask selection, three inductions)
  branches   for each of the two interpolated series: value at every knot, constant before the first / after the last knot,
             strictly monotone on each knot interval in the direction given by the two knot values (assumed np.interp contract)
  merge      the callee's precondition (finite, rises at the first knot); the callee's F and K are the first and last knot
  result     the clauses of the property
"""
import math

import z3

from vf import xops
from vf.values import X, Z, INT, REAL, fresh_name
from vf.engine import lift, to_int, Unsupported

PI = math.pi


def _xc(v):
    return xops.to_x(lift(float(v)))


class Ctx:
    """terms shared by the hooks of one path"""

    def __init__(self, P, first):
        E, env = P.E, P.env
        self.E = E
        self.first = first
        pk, tr = env['peaks'], env['troughs']
        self.A, self.B = (pk, tr) if first == 'peak' else (tr, pk)
        rdi = lambda a, k: to_int(E.rd(a, k))
        self.nA, self.nB = self.A.n, self.B.n
        self.M = self.nA + self.nB
        self.n = env['sig'].n
        self.c = lambda q: z3.If(q % 2 == 0, rdi(self.A, q / 2), rdi(self.B, (q - 1) / 2))
        # is knot q a trough?
        self.isT = (lambda q: q % 2 == 1) if first == 'peak' else (lambda q: q % 2 == 0)
        self.valU = lambda q: xops.ite(self.isT(q), _xc(PI), _xc(0.0))
        self.valV = lambda q: xops.ite(self.isT(q), _xc(-PI), _xc(0.0))
        sc = E.st.ghost.get('scatter', [])
        byid = {}
        for r in sc:
            byid.setdefault(r['idx'].ident, r)
        if pk.ident not in byid or tr.ident not in byid:
            raise Unsupported('phase proof: the anchor stores through peaks / troughs were not seen')
        self.sP, self.sT = byid[pk.ident], byid[tr.ident]
        # position in the knot sequence of peaks[w] / troughs[w]
        self.rP = (lambda w: 2 * w) if first == 'peak' else (lambda w: 2 * w + 1)
        self.rT = (lambda w: 2 * w + 1) if first == 'peak' else (lambda w: 2 * w)
        self.req = E.st.ghost['facts']['requires']
        hitP, hitT = self.sP['hit'], self.sT['hit']
        self.sel = lambda x: z3.Or(hitP(x), hitT(x))
        F = E.st.ghost['facts']
        self.axP = F['scatter#%d' % (1 + sc.index(self.sP))]
        self.axT = F['scatter#%d' % (1 + sc.index(self.sT))]

    def r_of(self, j):
        """the knot index of a selected sample j (witness of the store it came from)"""
        return z3.If(self.sT['hit'](j), self.rT(self.sT['wit'](j)), self.rP(self.sP['wit'](j)))


def _req_inst(P, K, q):
    """instances of the three precondition clauses around knot q"""
    out = [K.req[0]]
    for f in K.req[1:3]:
        for k in (q / 2, (q - 1) / 2, (q + 1) / 2):
            out.append(P.inst_formula(f, k))
    return out


def _req_idx(P, K, w):
    """instances of the precondition clauses that bound the entries A[w], B[w]"""
    return [K.req[0]] + [P.inst_formula(f, k) for f in K.req[1:3] for k in (w, w - 1)]


def knots(P, K):
    """S0 / S1: the knot sequence and what the stores put there (proved once per path)"""
    E = K.E
    if E.st.ghost.get('eip_knots'):
        return
    q, a, b, j = z3.Int('G_q'), z3.Int('G_a'), z3.Int('G_b'), z3.Int('G_j')
    c, M, n = K.c, K.M, K.n
    P.forall('knot:inr', [q], z3.And(q >= 0, q < M), z3.And(c(q) >= 0, c(q) < n), by=_req_inst(P, K, q))
    P.forall('knot:adj', [q], z3.And(q >= 0, q < M - 1), c(q) + 2 <= c(q + 1), by=_req_inst(P, K, q))
    P.induct_q('knot:mono', b, a, M - 1, z3.Implies(b > a, c(a) < c(b)), lambda i: [P.inst('knot:adj', i)], params=(a,), prem=a >= 0)
    hitP, hitT = K.sP['hit'], K.sT['hit']
    sel, axP, axT = K.sel, K.axP, K.axT

    def stores_at(x, qq):
        return [P.inst_formula(axP[0], qq / 2), P.inst_formula(axP[0], (qq - 1) / 2),
                P.inst_formula(axT[0], qq / 2), P.inst_formula(axT[0], (qq - 1) / 2),
                P.inst_formula(axP[1], x), P.inst_formula(axT[1], x)]
    # a selected sample is a knot (witness), and a knot is selected; a peak knot is not hit by the trough store
    P.forall('knot:wit', [j], z3.And(j >= 0, j < n, sel(j)),
             z3.And(K.r_of(j) >= 0, K.r_of(j) < M, c(K.r_of(j)) == j),
             by=[P.inst_formula(axP[1], j), P.inst_formula(axT[1], j)] + _req_idx(P, K, K.sP['wit'](j)) + _req_idx(P, K, K.sT['wit'](j)))
    rt, rp = K.rT(K.sT['wit'](c(q))), K.rP(K.sP['wit'](c(q)))
    P.forall('knot:hit', [q], z3.And(q >= 0, q < M),
             z3.And(sel(c(q)), z3.Implies(K.isT(q), z3.And(hitT(c(q)), z3.Not(hitP(c(q))))),
                    z3.Implies(z3.Not(K.isT(q)), z3.And(hitP(c(q)), z3.Not(hitT(c(q)))))),
             by=stores_at(c(q), q) + _req_inst(P, K, q) + _req_idx(P, K, K.sT['wit'](c(q))) + _req_idx(P, K, K.sP['wit'](c(q))) +
             [P.inst('knot:mono', q, rt), P.inst('knot:mono', rt, q), P.inst('knot:mono', q, rp), P.inst('knot:mono', rp, q),
              P.inst('knot:inr', q)])
    E.st.ghost['eip_knots'] = True


def sel_at_(P, K, tag, qq):
    """knot qq is selected by the mask of selection `tag`"""
    return [P.inst('knot:hit', qq), P.inst('knot:inr', qq), P.inst(tag + ':mask', K.c(qq))]


def selection(P, K, xp):
    """S2: the counting function of the mask selection along the knots (once per selection map)"""
    E = K.E
    m, g, cnt = xp.meta['cmap']
    inst = None
    for key, d in E.st.ghost.get('cmap_inst', {}).items():
        if E.st.ghost[key][1].eq(g):
            inst = d
    if inst is None:
        raise Unsupported('phase proof: selection map without instantiable axioms')
    sels = E.st.ghost.setdefault('eip_sels', {})
    if str(g) in sels:
        return sels[str(g)], inst, (m, g, cnt)
    tag = 'sel%d' % (len(sels) + 1)
    sels[str(g)] = tag
    q, j = z3.Int('G_q'), z3.Int('G_j')
    c, M, n = K.c, K.M, K.n
    mk = inst['mask']
    # the mask of this selection is "hit by one of the two stores" on [0, n)
    P.forall(tag + ':mask', [j], z3.And(j >= 0, j < n), mk(j) == K.sel(j))
    r = K.r_of(j)
    P.forall(tag + ':none-between', [q, j], z3.And(q >= 0, q < M - 1, c(q) < j, j < c(q + 1)), z3.Not(mk(j)),
             by=[P.inst('knot:wit', j), P.inst('knot:mono', r, q), P.inst('knot:mono', q + 1, r), P.inst(tag + ':mask', j),
                 P.inst('knot:inr', q), P.inst('knot:inr', q + 1)])
    P.forall(tag + ':none-before', [j], z3.And(j >= 0, j < c(0)), z3.Not(mk(j)),
             by=[P.inst('knot:wit', j), P.inst('knot:mono', 0, r), P.inst(tag + ':mask', j), P.inst('knot:inr', 0)])
    P.forall(tag + ':none-after', [j], z3.And(j > c(M - 1), j < n), z3.Not(mk(j)),
             by=[P.inst('knot:wit', j), P.inst('knot:mono', r, M - 1), P.inst(tag + ':mask', j), P.inst('knot:inr', M - 1)])
    sel_at = lambda qq: sel_at_(P, K, tag, qq)
    P.induct_q(tag + ':count-next', j, c(q), c(q + 1), z3.Implies(j > c(q), cnt(j) == cnt(c(q)) + 1),
               lambda i: [inst['rec'](i), P.inst(tag + ':none-between', q, i), P.inst('knot:adj', q), P.inst('knot:inr', q + 1)] + sel_at(q),
               params=(q,), prem=z3.And(q >= 0, q < M - 1))
    P.induct_q(tag + ':count-first', j, z3.IntVal(0), c(0), cnt(j) == 0,
               lambda i: [inst['rec'](i), P.inst(tag + ':none-before', i), P.inst('knot:inr', 0)])
    P.induct_q(tag + ':count-last', j, c(M - 1), n, z3.Implies(j > c(M - 1), cnt(j) == cnt(c(M - 1)) + 1),
               lambda i: [inst['rec'](i), P.inst(tag + ':none-after', i)] + sel_at(M - 1))
    # consecutive knots are consecutive sample points; the first / last knot is the first / last sample point
    P.forall(tag + ':points', [q], z3.And(q >= 0, q < M - 1),
             z3.And(g(cnt(c(q))) == c(q), g(cnt(c(q)) + 1) == c(q + 1), cnt(c(q)) >= 0, cnt(c(q)) + 1 < m),
             by=[inst['hit'](c(q)), inst['hit'](c(q + 1)), inst['rec'](c(q)), P.inst(tag + ':count-next', q, c(q + 1)),
                 P.inst('knot:adj', q)] + sel_at(q) + sel_at(q + 1))
    P.ground(tag + ':ends', z3.And(g(0) == c(0), g(m - 1) == c(M - 1), m >= 2, cnt(c(M - 1)) == m - 1, cnt(c(0)) == 0),
             by=[inst['hit'](c(0)), inst['hit'](c(M - 1)), P.inst(tag + ':count-first', c(0)), P.inst(tag + ':count-last', n),
                 inst['base'], inst['rec'](c(M - 1)), K.req[0], inst['rec'](c(0)), P.inst(tag + ':count-next', 0, c(1)),
                 inst['hit'](c(1)), P.inst('knot:adj', 0)]
             + sel_at(0) + sel_at(1) + sel_at(M - 1))
    return tag, inst, (m, g, cnt)


def before_interp(first):
    def h(P):
        K = Ctx(P, first)
        knots(P, K)
        xp = P.E.st.ghost['interp_args']['xp']
        if 'cmap' not in getattr(xp, 'meta', {}):
            raise Unsupported('phase proof: sample points are not a mask selection')
        selection(P, K, xp)
    return h


def branches(P, K):
    """S3: the two interpolated series (once per path, after the second np.interp)"""
    E = K.E
    if E.st.ghost.get('eip_branches'):
        return E.st.ghost['eip_branches']
    recs = E.st.ghost.get('interp', [])
    if len(recs) != 2:
        raise Unsupported('phase proof: expected the two np.interp calls')
    q, i, i2 = z3.Int('G_q'), z3.Int('G_i'), z3.Int('G_i2')
    c, M, n = K.c, K.M, K.n
    out = {}
    for nm, rec, val in (('U', recs[0], K.valU), ('V', recs[1], K.valV)):
        tag, inst, (m, g, cnt) = selection(P, K, rec['xp'])
        sch = rec['sch']
        W = lambda x, rec=rec: E.rd(rec['out'], x)
        lt = xops.lt
        P.forall(nm + ':fin', [i], z3.And(i >= 0, i < n), z3.And(xops.isfin(W(i)), xops.wf(W(i).t)), by=[sch['fin'](i)])
        P.forall(nm + ':knot', [q], z3.And(q >= 0, q < M), xops.same(W(c(q)), val(q)),
                 by=[sch['knot'](c(q), cnt(c(q))), inst['hit'](c(q)), inst['rec'](c(q))] + sel_at_(P, K, tag, q))
        P.forall(nm + ':seg', [q, i, i2], z3.And(q >= 0, q < M - 1, c(q) <= i, i < i2, i2 <= c(q + 1)),
                 z3.And(z3.Implies(K.isT(q + 1), lt(W(i2), W(i)) if nm == 'V' else lt(W(i), W(i2))),
                        z3.Implies(z3.Not(K.isT(q + 1)), lt(W(i), W(i2)) if nm == 'V' else lt(W(i2), W(i)))),
                 by=[sch['mono'](i, i2, cnt(c(q))), P.inst(tag + ':points', q), inst['hit'](c(q)), inst['hit'](c(q + 1)),
                     P.inst('knot:inr', q), P.inst('knot:inr', q + 1)] + sel_at_(P, K, tag, q) + sel_at_(P, K, tag, q + 1))
        P.forall(nm + ':left', [i], z3.And(i >= 0, i <= c(0)), xops.same(W(i), val(0)),
                 by=[sch['left'](i), P.inst(tag + ':ends'), inst['hit'](c(0))] + sel_at_(P, K, tag, 0))
        P.forall(nm + ':right', [i], z3.And(i >= c(M - 1), i < n), xops.same(W(i), val(M - 1)),
                 by=[sch['right'](i), P.inst(tag + ':ends'), inst['hit'](c(M - 1))] + sel_at_(P, K, tag, M - 1))
        out[nm] = (rec['out'], W)
    E.st.ghost['eip_branches'] = out
    return out


def _callee_env(P, K, br, extra=None):
    env = {'pha_tpi': br['U'][0], 'pha_tnpi': br['V'][0]}
    env.update(extra or {})
    return env


def before_merge(first):
    """S4: the callee's precondition"""
    def h(P):
        E = P.E
        if len(E.st.ghost.get('interp', [])) != 2 or E.st.ghost.get('eip_merge'):
            return
        K = Ctx(P, first)
        br = branches(P, K)
        c, M, n = K.c, K.M, K.n
        callee = E.contracts['bycycle.cyclepoints.phase._merge_phases']
        from .phase import STEP_UP
        U, V = br['U'][1], br['V'][1]
        c0 = c(0)
        near = [P.inst(w + ':seg', 0, a, b) for w in 'UV' for a, b in ((c0, c0 + 1), (c0 + 1, c0 + 2))] + \
               [P.inst(w + ':fin', x) for w in 'UV' for x in (c0, c0 + 1, c0 + 2)] + \
               [P.inst('knot:adj', 0), P.inst('knot:inr', 0), P.inst('knot:inr', 1), K.req[0]]
        rise0 = E.spec_bool(STEP_UP, _callee_env(P, K, br, {'j': Z(c0, INT)}))
        P.ground('merge:rises-at-first-knot', rise0, by=near)
        fin = P.prove_clause('merge:finite', callee['requires'][1], _callee_env(P, K, br),
                             lambda x: [P.inst('U:fin', x), P.inst('V:fin', x)])
        P.ground('merge:first-knot-range', z3.And(c0 >= 0, c0 < n - 1, n >= 2), by=near)
        P.have('merge:rises-somewhere', E.spec_bool(callee['requires'][2], _callee_env(P, K, br)),
               using=['merge:rises-at-first-knot', 'merge:first-knot-range'])
        E.st.ghost['eip_merge'] = True
    return h


FIRST = "min(peaks[0], troughs[0])"
LAST = "max(peaks[len(peaks) - 1], troughs[len(troughs) - 1])"
ENSURES = [
    "len(result) == len(sig)",
    # anchors
    "forall(k, 0 <= k < len(peaks), result[peaks[k]] == 0)",
    "forall(k, 0 <= k < len(troughs), result[troughs[k]] == np.pi or result[troughs[k]] == -np.pi)",
    # finite and within [-pi, pi] on the whole span from the first to the last cyclepoint, NaN outside it
    "forall(i, %s <= i <= %s, isfinite(result[i]) and -np.pi <= result[i] and result[i] <= np.pi)" % (FIRST, LAST),
    "forall(i, 0 <= i < len(sig) and (i < %s or i > %s), isnan(result[i]))" % (FIRST, LAST),
    # advances monotonically; the only decreases are the wrap at a trough
    "forall(i, %s <= i < %s, result[i + 1] >= result[i] or exists(k, 0 <= k < len(troughs), troughs[k] == i + 1))" % (FIRST, LAST),
]
ENSURES_USING = {2: ['res:peaks'], 3: ['res:troughs'], 4: ['res:span'], 5: ['res:outside'], 6: ['res:monotone']}


def before_return(first):
    """S5: the callee's F and K are the first and the last knot; then the clauses of the property"""
    def h(P):
        E, env = P.E, P.env
        K = Ctx(P, first)
        br = branches(P, K)
        c, M, n = K.c, K.M, K.n
        from .phase import STEP_AT, m as m_text
        cf = E.st.ghost['facts']['call:_merge_phases#1']
        loc = E.st.ghost['call_locals']['_merge_phases#1']
        F, Kl = loc['first_empirical_idx'].t, loc['last_empirical_idx'].t
        End = n - Kl
        res = env['__return__']
        R = lambda x: E.rd(res, x)
        cenv = lambda jt: _callee_env(P, K, br, {'j': Z(jt, INT), 'i': Z(jt, INT)})
        up = lambda jt: E.spec_bool(STEP_AT.format(j='j') + " > 0", cenv(jt))
        down = lambda jt: E.spec_bool(STEP_AT.format(j='j') + " < 0", cenv(jt))
        mval = lambda it: E.spec_eval(m_text('i'), cenv(it))
        j, i, k, q = z3.Int('G_j'), z3.Int('G_i'), z3.Int('G_k'), z3.Int('G_q')
        c0, cl = c(0), c(M - 1)
        fins = lambda *xs: [P.inst(w + ':fin', x) for w in 'UV' for x in xs]
        basics = [P.inst('knot:inr', 0), P.inst('knot:inr', M - 1), P.inst('knot:adj', 0), P.inst('knot:adj', M - 2),
                  P.inst('knot:inr', 1), P.inst('knot:inr', M - 2), K.req[0], P.inst('knot:mono', 0, M - 1)]
        # ---- F is the first knot
        P.forall('merge:flat-before', [j], z3.And(j >= 0, j < c0), z3.Not(up(j)),
                 by=[P.inst('V:left', j), P.inst('V:left', j + 1), P.inst('V:left', j + 2), P.inst('U:left', j + 1),
                     P.inst('V:seg', 0, c0, c0 + 1), P.inst('U:knot', 0), P.inst('V:knot', 0)] + fins(j, j + 1, j + 2) + basics)
        rise0 = E.st.ghost['facts']['merge:rises-at-first-knot']
        P.ground('merge:F', F == c0, by=[rise0, cf[1], cf[7], P.inst_formula(cf[2], c0), P.inst('merge:flat-before', F)] + basics)
        # ---- the last unmasked sample is the last knot
        P.ground('merge:last-step', z3.Or(up(cl - 1), down(cl - 1)),
                 by=[P.inst('V:seg', M - 2, cl - 1, cl), P.inst('U:seg', M - 2, cl - 1, cl), P.inst('U:seg', M - 2, c(M - 2), cl - 1),
                     P.inst('U:knot', M - 2), P.inst('U:knot', M - 1), P.inst('V:knot', M - 1), P.inst('V:knot', M - 2),
                     P.inst('V:right', cl), P.inst('V:right', cl + 1)] + fins(cl - 1, cl, cl + 1) + basics)
        P.forall('merge:flat-after', [j], z3.And(j >= cl, j < n - 1), z3.Not(z3.Or(up(j), down(j))),
                 by=[P.inst('V:right', j), P.inst('V:right', j + 1), P.inst('V:right', j + 2)] + fins(j, j + 1, j + 2) + basics)
        P.ground('merge:End', End == cl + 1,
                 by=[cf[4], cf[8], P.inst_formula(cf[9], cl - 1), P.inst('merge:flat-after', End - 2),
                     E.st.ghost['facts']['merge:last-step'], E.st.ghost['facts']['merge:F']] + basics)
        ends = [E.st.ghost['facts']['merge:F'], E.st.ghost['facts']['merge:End'], cf[0]] + basics
        env2 = dict(E.entry_env)
        env2['result'] = res
        pk, tr = env2['peaks'], env2['troughs']
        rdi = lambda a, x: to_int(E.rd(a, x))
        nP, nT = pk.n, tr.n
        # first / last cyclepoint as written in the clauses
        firstlast = [P.inst_formula(f, x) for f in K.req[1:3] for x in (0, K.nB - 1, K.nB - 2)] + [K.req[0]]
        fl_env = dict(env2)
        P.ground('res:first-last', z3.And(E.spec_bool("%s == peaks[0] or %s == troughs[0]" % (FIRST, FIRST), fl_env),
                                          to_int(lift(E.spec_eval(FIRST, fl_env))) == c0,
                                          to_int(lift(E.spec_eval(LAST, fl_env))) == cl), by=firstlast + basics)
        FL = [E.st.ghost['facts']['res:first-last']]
        # ---- anchors
        for nm, arr, rr, clause in (('res:peaks', pk, K.rP, ENSURES[1]), ('res:troughs', tr, K.rT, ENSURES[2])):
            def by(kk, arr=arr, rr=rr):
                x, r = rdi(arr, kk), rr(kk)
                return [P.inst_formula(cf[6], x), P.inst('U:knot', r), P.inst('V:knot', r), P.inst('knot:mono', 0, r),
                        P.inst('knot:mono', r, M - 1), P.inst('knot:inr', r)] + fins(x, x + 1) + ends + _req_idx(P, K, kk)
            P.prove_clause(nm, clause, env2, by)
        # ---- range of the two branch series (independent of the knot structure: enclosing sample points of np.interp)
        recs = E.st.ghost['interp']
        pi_, mpi = _xc(PI), _xc(-PI)
        for nm, rec in (('U', recs[0]), ('V', recs[1])):
            tag, inst, (m, g, cnt) = selection(P, K, rec['xp'])
            sch, W = rec['sch'], br[nm][1]
            b = rec['seg'](i)
            inside = lambda v: z3.And(z3.Not(xops.lt(v, mpi)), z3.Not(xops.lt(pi_, v)), xops.isfin(v))
            P.forall(nm + ':range', [i], z3.And(i >= 0, i < n), inside(W(i)),
                     by=[sch['seg'](i), sch['left'](i), sch['right'](i), sch['knot'](i, b), sch['knot'](i, b + 1),
                         sch['knot'](g(b), b), sch['knot'](g(b + 1), b + 1), sch['mono'](g(b), i, b), sch['mono'](i, g(b + 1), b),
                         inst['sel'](b), inst['sel'](b + 1), inst['sel'](0), inst['sel'](m - 1), P.inst(tag + ':ends'),
                         P.inst(tag + ':mask', g(b)), P.inst(tag + ':mask', g(b + 1)), P.inst(tag + ':mask', g(0)),
                         P.inst(tag + ':mask', g(m - 1))] + fins(i, g(b), g(b + 1)))
        P.prove_clause('res:span', ENSURES[3], env2,
                       lambda x: [P.inst_formula(cf[6], x), P.inst('U:range', x), P.inst('V:range', x)] + fins(x, x + 1) + ends + FL)
        P.prove_clause('res:outside', ENSURES[4], env2,
                       lambda x: [P.inst_formula(cf[3], x), P.inst_formula(cf[5], x)] + ends + FL)
        # ---- monotone: the knot interval that contains i and i + 1
        tagV, instV, (mV, gV, cntV) = selection(P, K, recs[1]['xp'])
        b = recs[1]['seg'](i)
        r = K.r_of(gV(b))
        qi = z3.If(i < c(r + 1), r, r + 1)
        P.forall('knot:enclosing', [i], z3.And(i >= c0, i < cl),
                 z3.And(qi >= 0, qi < M - 1, c(qi) <= i, i < c(qi + 1)),
                 by=[recs[1]['sch']['seg'](i), instV['sel'](b), instV['sel'](b + 1), P.inst(tagV + ':mask', gV(b)),
                     P.inst('knot:wit', gV(b)), P.inst(tagV + ':points', r), P.inst(tagV + ':ends'), P.inst('knot:adj', r + 1),
                     P.inst('knot:inr', r), P.inst('knot:inr', r + 1)] + basics)

        def by_mono(x):
            qq = z3.substitute(qi, (i, x))
            return ([P.inst('knot:enclosing', x), P.inst_formula(cf[6], x), P.inst_formula(cf[6], x + 1)] +
                    [P.inst(w + ':seg', qq, a, b_) for w in 'UV' for a, b_ in ((x, x + 1), (x + 1, x + 2))] +
                    [P.inst('V:seg', qq + 1, x + 1, x + 2), P.inst('U:knot', qq + 1), P.inst('V:knot', qq + 1),
                     P.inst('V:right', x + 1), P.inst('V:right', x + 2), P.inst('knot:adj', qq), P.inst('knot:adj', qq + 1),
                     P.inst('knot:inr', qq + 1), P.inst('knot:inr', qq + 2)] + fins(x, x + 1, x + 2) + ends + FL)
        P.prove_clause('res:monotone', ENSURES[5], env2, by_mono)
    return h
