"""Call dispatch: contracted repo functions (checked against their contract, never their body),
assumed library contracts (numpy / pandas / neurodsp / builtins), ghost call log."""
import ast
import math

import z3

from .values import (INT, REAL, BOOL, STR, XR, VAL, Z, X, Opt, Arr, Frame, SDict, Obj, Opaque, Ref,
                     PyList, fresh_name, ValSort, x_nan, x_fin, NAN)
from . import xops, lib
from .lib import Marker, term_int, map_arr, _eq_len, _norm_elem, _elem_type
from .engine import (Unsupported, RaiseSig, ReturnSig, lift, to_int, to_real, zbool, is_sym, INF, _NODEFAULT)

LIB = {}
METHODS = {}


def libfn(*names):
    def deco(f):
        for n in names:
            LIB[n] = f
        return f
    return deco


def method(*names):
    def deco(f):
        for n in names:
            METHODS[n] = f
        return f
    return deco


class CallArgs:
    def __init__(self, pos, kw, star_kw=None):
        self.pos = pos
        self.kw = kw
        self.star_kw = star_kw or []     # list of SDict / dict passed with **

    def get(self, i, name, default=_NODEFAULT):
        if i is not None and i < len(self.pos):
            return self.pos[i]
        if name in self.kw:
            return self.kw[name]
        if default is _NODEFAULT:
            raise Unsupported('missing argument %s' % name)
        return default


def do_call(E, node):
    if E.spec_mode and isinstance(node.func, ast.Name):
        from . import spec
        if node.func.id in spec.FORMS:
            return spec.FORMS[node.func.id](E, node)
    f = E.eval(node.func)
    pos = []
    for a in node.args:
        if isinstance(a, ast.Starred):
            v = E.eval(a.value)
            if isinstance(v, (tuple, list)):
                pos.extend(v)
            elif isinstance(v, PyList):
                pos.extend(v.items)
            else:
                pos.append(('*', v))
        else:
            pos.append(E.eval(a))
    kw = {}
    star = []
    for k in node.keywords:
        if k.arg is None:
            v = E.eval(k.value)
            star.append(v)
        else:
            kw[k.arg] = E.eval(k.value)
    args = CallArgs(pos, kw, star)
    if isinstance(f, tuple) and f and f[0] == 'specfn':
        return f[1](E, *pos, **kw)
    if not isinstance(f, Ref):
        if callable(f) and E.spec_mode:
            return f(E, *pos, **kw)
        raise Unsupported('call of %r at line %s' % (f, getattr(node, 'lineno', '?')))
    return dispatch(E, f, args, node)


def dispatch(E, f, args, node):
    qual = f.qual
    if f.kind == 'method':
        h = METHODS.get(qual)
        if h is None and isinstance(f.bound, Obj) and qual.startswith('bycycle.') and not E.spec_mode:
            # a method of the object under analysis: the defining class (own or inherited) may have a contract
            owner = E.sources.method_owner(qual)
            if owner is not None and owner in E.contracts and not E.contracts[owner].get('inline'):
                return call_contract(E, owner, CallArgs([f.bound] + list(args.pos), dict(args.kw), list(args.star_kw)), node,
                                     self_first=True)
        if h is None:
            if isinstance(f.bound, Obj) and qual.startswith('bycycle.') and qual.split('.')[-1].startswith('_') \
                    and not qual.split('.')[-1].startswith('__') and not E.spec_mode:
                # a private method of the object under analysis without a contract: executed in place, self bound
                mi_, fdef_ = E.sources.func(qual)
                if fdef_ is not None:
                    return call_inline(E, qual, CallArgs([f.bound] + list(args.pos), dict(args.kw), list(args.star_kw)), node,
                                       keep_self=True)
            raise Unsupported('method %s (line %s)' % (qual, getattr(node, 'lineno', '?')))
        return h(E, f.bound, args, node)
    if qual in E.contracts and not E.spec_mode and 'abstract' in E.contracts[qual] and args.pos \
            and (isinstance(args.pos[0], Opaque) or (isinstance(args.pos[0], tuple) and args.pos[0]
                                                      and isinstance(args.pos[0][0], Opaque))):
        return E.contracts[qual]['abstract'](E, args, node)
    if qual in E.contracts and not E.spec_mode:
        if E.contracts[qual].get('inline'):
            return call_inline(E, qual, args, node)
        if qual in (getattr(E, 'case', None) or {}).get('inline_callees', ()) or qual in (getattr(E, 'contract', None) or {}).get('inline_callees', ()):
            # the caller's proof needs more than the callee's contract says: the callee's real body is executed in place
            # (the callee is still verified against its own contract as a unit of its own)
            return call_inline(E, qual, args, node)
        return call_contract(E, qual, args, node)
    h = LIB.get(qual)
    if h is not None:
        return h(E, args, node)
    if qual.startswith('bycycle.') and not E.spec_mode:
        # a repository function without a contract (typically a small private helper introduced by a refactoring): its
        # body is executed as part of the caller (loops inside it still need invariants, i.e. usually it must be loop-free)
        mi_, fdef_ = E.sources.func(qual)
        if fdef_ is not None and qual.split('.')[-1].startswith('_'):
            return call_inline(E, qual, args, node)
    raise Unsupported('no contract for callee %s (line %s)' % (qual, getattr(node, 'lineno', '?')))


# ------------------------------------------------------------------------------------------------
# calls to repo functions under contract
# ------------------------------------------------------------------------------------------------
def bind_params(E, qual, args, node):
    """python argument binding against the callee's *real* signature (defaults read from the source)"""
    mi, fdef = E.sources.func(qual)
    if fdef is None:
        raise Unsupported('callee %s not found' % qual)
    a = fdef.args
    posnames = [x.arg for x in a.posonlyargs + a.args]
    if posnames and posnames[0] == 'self':
        posnames = posnames[1:]
    bound = {}
    if len(args.pos) > len(posnames) and not a.vararg:
        raise RaiseSig('TypeError', node, 'too many positional arguments')
    for name, v in zip(posnames, args.pos):
        bound[name] = v
    for k, v in args.kw.items():
        if k in bound:
            raise RaiseSig('TypeError', node, 'multiple values for %s' % k)
        bound[k] = v
    allnames = posnames + [x.arg for x in a.kwonlyargs]
    extra = {}
    for d in args.star_kw:
        if isinstance(d, SDict):
            for k, (pres, v) in d.items.items():
                if isinstance(pres, bool) and not pres:
                    continue
                if k not in allnames and not a.kwarg:
                    # unexpected keyword -> TypeError when present
                    if isinstance(pres, bool):
                        raise RaiseSig('TypeError', node, 'unexpected keyword %s' % k)
                    if E.branch(Z(pres, BOOL), 'unexpected-kw'):
                        raise RaiseSig('TypeError', node, 'unexpected keyword %s' % k)
                    continue
                if k in bound:
                    if isinstance(pres, bool):
                        raise RaiseSig('TypeError', node, 'multiple values for %s' % k)
                    if E.branch(Z(pres, BOOL), 'dup-kw'):
                        raise RaiseSig('TypeError', node, 'multiple values for %s' % k)
                    continue
                if k in allnames:
                    bound[k] = ('maybe', pres, v)
                else:
                    extra[k] = [pres, v]
        elif isinstance(d, dict):
            for k, v in d.items():
                bound[k] = v
        else:
            raise Unsupported('** of %r' % (d,))
    saved = E.mod_stack
    E.mod_stack = E.mod_stack + [mi]
    try:
        for name in allnames:
            dnode = E._default_of(fdef, name)
            if name in bound and not (isinstance(bound[name], tuple) and bound[name] and bound[name][0] == 'maybe'):
                continue
            if dnode is _NODEFAULT:
                if name in bound:
                    _, pres, v = bound[name]
                    if isinstance(pres, bool):
                        if pres:
                            bound[name] = v
                            continue
                        raise RaiseSig('TypeError', node, 'missing argument %s' % name)
                    if not E.branch(Z(pres, BOOL), 'kw-present'):
                        raise RaiseSig('TypeError', node, 'missing argument %s' % name)
                    bound[name] = v
                    continue
                raise RaiseSig('TypeError', node, 'missing argument %s' % name)
            dv = E.eval_in_module(dnode)
            if name in bound:
                _, pres, v = bound[name]
                known = E.decide(pres) if not E.spec_mode else (pres if isinstance(pres, bool) else None)
                bound[name] = v if known is True else (dv if known is False else E.ite(pres, v, dv))
            else:
                bound[name] = dv
    finally:
        E.mod_stack = saved
    if a.kwarg:
        bound[a.kwarg.arg] = SDict(E.new_ident(), extra)
    # optional values are decided here (one path per alternative), so that the callee's typing cases apply
    for name in list(bound):
        v = bound[name]
        if isinstance(v, Opt) and not E.spec_mode:
            v = E.unwrap(v)
            if isinstance(v, Opt):
                v = None if E.branch(Z(v.isnone, BOOL), 'arg-none') else v.val
            bound[name] = v
    return bound


def type_matches(T, v):
    if isinstance(v, Opt):
        return False
    if isinstance(T, str):
        if T == 'none':
            return v is None
        if T == 'any':
            return True
        if T == 'opaque':
            return isinstance(v, (Opaque, SDict))
        if T == 'optdict':
            return isinstance(v, Opaque) and (getattr(v, 'cell', None) is not None or hasattr(v, 'arr'))
        if T == 'sigrow':
            return isinstance(v, Opaque)
        if T == STR:
            return isinstance(v, str) or (isinstance(v, Z) and v.ty == STR)
        if T == BOOL:
            return isinstance(v, bool) or (isinstance(v, Z) and v.ty == BOOL)
        if T == INT:
            return (isinstance(v, int) and not isinstance(v, bool)) or (isinstance(v, Z) and v.ty == INT)
        if T in (REAL, XR):
            return isinstance(v, (int, float, X)) and not isinstance(v, bool) or (isinstance(v, Z) and v.ty in (INT, REAL))
        return False
    tag = T[0]
    if tag == 'derived':
        return type_matches(T[2], v)
    if tag == 'const':
        return type(v) is type(T[1]) and v == T[1]
    if tag == 'grid':
        return isinstance(v, Arr) and getattr(v, 'lead', None) == T[1] and len(v.shape) == T[1] + (1 if T[2] else 0)
    if tag == 'nd':
        return isinstance(v, Arr) and len(v.shape) == T[1]
    if tag in ('arr', 'series', 'list'):
        return isinstance(v, Arr) and getattr(v, 'lead', None) is None
    if tag == 'frame':
        return isinstance(v, Frame) and all(c in v.cols for c in T[1])
    if tag == 'dictp':
        return isinstance(v, SDict) and set(k for k, (p_, _) in v.items.items() if p_ is True) == set(T[1]) and \
            all(p_ is True or p_ is False for p_, _ in v.items.values())
    if tag == 'dict':
        return isinstance(v, SDict) or (isinstance(v, Opaque) and getattr(v, 'cell', None) is not None)
    if tag == 'tuple':
        return isinstance(v, tuple) and len(v) == len(T[1])
    if tag == 'obj':
        return isinstance(v, Obj)
    return False


def select_case(E, c, bound, node, short):
    """the typing case of the callee's contract that the actual arguments fall into"""
    cases = c.get('cases')
    if not cases:
        return {}
    base = c.get('params', {})
    cands = []
    for case in cases:
        types = dict(base)
        types.update(case.get('params', {}))
        if all(type_matches(T, bound.get(p)) for p, T in types.items() if p in bound):
            cands.append(case)
    undecided = []
    for case in cands:
        env = dict(bound)
        if case.get('call_ghosts'):
            try:
                env.update(case['call_ghosts'](E, bound))
            except Unsupported:
                continue                    # the arguments do not have the form this case is about
        reqs = list(case.get('requires', []))
        for key, rq in (c.get('case_requires') or {}).items():
            if key in (case.get('label') or ''):
                reqs += list(rq)
        # only the *discriminating* requirements (those of the case) are examined here
        if not reqs:
            return case
        t = z3.And(*[E.spec_bool(r, env) for r in reqs]) if reqs else z3.BoolVal(True)
        d = E.decide(t)
        if d is True:
            return case
        if d is False:
            continue
        undecided.append((case, t))
    if not undecided:
        if len(cands) == 1:
            # the one case the argument TYPES select: its precondition is then an obligation of the caller (and fails there)
            return cands[0]
        raise Unsupported('no contract case of %s matches the arguments at line %s' % (short, getattr(node, 'lineno', '?')))
    # helper preconditions of the case become obligations of the caller (first undecided candidate whose
    # discriminating requirement is satisfiable; remaining ones are explored as alternatives)
    k = E.choose(len(undecided), 'callee-case') if len(undecided) > 1 else 0
    case, t = undecided[k]
    if len(undecided) > 1:
        E.assume(t)
        if not E.feasible():
            from .engine import Infeasible
            raise Infeasible()
        return dict(case, requires=[])
    return case


def options_term(E, d):
    """an option dictionary built from a literal with definite keys and opaque values, as an opaque option set: an
    injective-by-name constructor over the value terms (key order as written)"""
    from . import grid
    items = [(k, v) for k, (p, v) in d.items.items() if p is True]
    if any(p is not True and p is not False for p, _ in d.items.values()):
        raise Unsupported('option dict with symbolic presence as an opaque option set')
    terms = []
    for k, v in items:
        if v is None:
            terms.append(grid.NONE_OPTS)
        elif isinstance(v, Opaque):
            terms.append(v.t)
        else:
            raise Unsupported('non-opaque option value %s=%r' % (k, v))
    if not items:
        return EMPTY_KW
    f = z3.Function('options_' + '_'.join(k for k, _ in items), *([ValSort] * len(items) + [ValSort]))
    t = f(*terms)
    seen = E.st.ghost.setdefault('options_not_none', set())
    if t.get_id() not in seen:
        seen.add(t.get_id())
        E.assumptions_quant(t != grid.NONE_OPTS)           # a dictionary is not None
        E.qf.add(t != grid.NONE_OPTS)
    return t


def _as_optdict(E, v):
    if isinstance(v, SDict) and v.items and all(p is True or p is False for p, _ in v.items.values()) \
            and all(isinstance(x, Opaque) or x is None for p, x in v.items.values() if p is True):
        t = options_term(E, v)
        o = Opaque(t, 'option dict literal')
        o.cell = {'ident': v.ident, 't': t}
        return o
    return v


def call_contract(E, qual, args, node, self_first=False):
    c0 = E.contracts[qual]
    if not E.spec_mode:
        # proof hook just before a call of a function under contract (its precondition is about to become an obligation)
        E.run_hook(('before_call', qual.split('.')[-1]), node)
    if self_first:
        slf = args.pos[0]
        bound = bind_params(E, qual, CallArgs(list(args.pos[1:]), dict(args.kw), list(args.star_kw)), node)
        bound['self'] = slf
    else:
        bound = bind_params(E, qual, args, node)
    wants_optdict = {p for case in (c0.get('cases') or [{}]) for p, T in dict(c0.get('params', {}), **case.get('params', {})).items()
                     if T == 'optdict'}
    for p in wants_optdict:
        if p in bound:
            bound[p] = _as_optdict(E, bound[p])
    short = qual.replace('bycycle.', '')
    # the callee's view: choose the typing case that matches the actual arguments
    case = select_case(E, c0, bound, node, short)
    c = dict(c0)
    c['requires'] = list(c0.get('requires', [])) + list(case.get('requires', []))
    c['ensures'] = list(c0.get('ensures', [])) + list(case.get('ensures', []))
    r_ = dict(c0.get('raises', {}))
    r_.update(case.get('raises', {}))
    c['raises'] = r_
    env = dict(bound)
    env['__call__'] = True
    if case.get('call_ghosts'):
        # ghost names of the callee's typed case (e.g. the two integers of a window on the sample grid), recovered from the
        # actual arguments; Unsupported when the arguments do not have that form
        env.update(case['call_ghosts'](E, bound))
        bound = dict(bound, **{k: v for k, v in env.items() if k not in bound and k != '__call__'})
    for r in c.get('requires', []):
        E.oblige('requires@call', E.spec_bool(r, env), node, note=short)
    for cls, cond in c.get('raises', {}).items():
        t = E.spec_bool(cond, env)
        if E.branch(Z(t, BOOL), 'callee-raises'):
            E.st.calls.append((qual, bound, ('raise', cls)))
            raise RaiseSig(cls, node, 'from ' + short)
    # frame of the callee
    for m in c.get('modifies', []):
        v = bound.get(m)
        for ident in lib_idents(v):
            E.mutate(ident, node, 'callee %s modifies %s' % (short, m))
    maker = case.get('result') or c.get('result')
    pre_heap = dict(E.st.heap)
    from .engine import _sdict_snapshot, _frame_snapshot
    saved_entry = (E.st.entry_heap, E.entry_env, E.entry_sdicts, E.entry_frames)
    saved_objs = getattr(E, 'entry_objs', {})
    E.entry_objs = {k: dict(v.attrs) for k, v in bound.items() if isinstance(v, Obj)}
    E.st.entry_heap = pre_heap
    E.entry_env = dict(bound)
    E.entry_sdicts = {k: _sdict_snapshot(v) for k, v in bound.items() if isinstance(v, SDict)}
    E.entry_frames = {k: _frame_snapshot(v) for k, v in bound.items() if isinstance(v, Frame)}
    saved_final = getattr(E, 'final_env', None)
    exposed = c0.get('exposed_locals') or {}
    n_call0 = sum(1 for q_, _, _ in E.st.calls if q_ == qual) + 1
    if exposed:
        # clauses of the callee about its own locals (local('x')): at the call site those locals are existentially
        # quantified - one fresh constant per local, shared by all clauses of this call
        E.final_env = {nm: E.fresh_z(short.split('.')[-1] + '.' + nm, ty) for nm, ty in exposed.items()}
        E.st.ghost.setdefault('call_locals', {})['%s#%d' % (short.split('.')[-1], n_call0)] = dict(E.final_env)
    else:
        E.final_env = None
    try:
        if maker is None:
            result = None
        else:
            result = maker(E, env)
        env['result'] = result
        for e in c.get('ensures', []) + c.get('call_ensures', []):
            if isinstance(e, str) and try_definitional(E, e, env):
                continue
            try:
                t_ = E.spec_bool(e, env)
                E.assume(t_)
                n_call = sum(1 for q_, _, _ in E.st.calls if q_ == qual) + 1
                E.st.ghost.setdefault('facts', {}).setdefault('call:%s#%d' % (short.split('.')[-1], n_call), []).append(t_)
            except Unsupported:
                continue          # a clause about the callee's own ghost state: not visible (and not needed) at the call site
    finally:
        E.st.entry_heap, E.entry_env, E.entry_sdicts, E.entry_frames = saved_entry
        E.entry_objs = saved_objs
        E.final_env = saved_final
    E.st.calls.append((qual, bound, result))
    return result


def lib_idents(v):
    from .engine import _idents_of
    return _idents_of(v)


# ------------------------------------------------------------------------------------------------
# builtins
# ------------------------------------------------------------------------------------------------
@libfn('builtins.len')
def b_len(E, args, node):
    v = args.pos[0]
    if isinstance(v, (tuple, list, str, dict)):
        return len(v)
    if isinstance(v, PyList):
        return len(v.items)
    if isinstance(v, Arr):
        return lib._as_val(v.shape[0])
    if isinstance(v, Frame):
        return lib._as_val(v.n)
    if isinstance(v, SDict):
        ps = [p for p, _ in v.items.values()]
        if all(isinstance(p, bool) for p in ps):
            return sum(1 for p in ps if p)
        return Z(z3.Sum([z3.If(p if not isinstance(p, bool) else z3.BoolVal(p), 1, 0) for p in ps]), INT)
    if isinstance(v, Marker) and v.kind == 'keys':
        return b_len(E, CallArgs([v.obj], {}), node)
    if isinstance(v, Opaque) and getattr(v, 'length', None) is not None:
        return lib._as_val(v.length)                     # an opaque 1-D signal knows its number of samples
    raise Unsupported('len of %r' % (v,))


@libfn('builtins.isinstance')
def b_isinstance(E, args, node):
    v, t = args.pos
    ts = t if isinstance(t, tuple) else (t,)
    for t in ts:
        q = t.qual
        if q == 'builtins.dict' and isinstance(v, (SDict, dict)):
            return True
        if q == 'builtins.dict' and isinstance(v, Opaque) and getattr(v, 'cell', None) is not None:
            return True
        if q == 'builtins.list' and isinstance(v, (PyList, list)):
            return True
        if q == 'builtins.list' and isinstance(v, Arr) and v.kind == 'list':
            return True
        if q == 'numpy.ndarray' and isinstance(v, Arr) and v.kind == 'ndarray':
            return True
        if q == 'pandas.DataFrame' and isinstance(v, Frame):
            return True
        if q == 'pandas.DataFrame' and isinstance(v, Opaque) and getattr(getattr(v, 'arr', None), 'elem_kind', None) == 'table':
            return True             # an element of a (nested) list declared to hold tables
        if q == 'pandas.DataFrame' and isinstance(v, Arr) and getattr(v, 'elem_kind', None) == 'table':
            return False            # a list of tables is not a table
        if q not in ('builtins.dict', 'builtins.list', 'numpy.ndarray', 'pandas.DataFrame'):
            raise Unsupported('isinstance against %s' % q)
    if isinstance(v, Opt):
        raise Unsupported('isinstance of optional value')
    if isinstance(v, Opaque) and getattr(v, 'cell', None) is None and not hasattr(v, 'arr'):
        raise Unsupported('isinstance of opaque value')
    return False


@libfn('builtins.range')
def b_range(E, args, node):
    p = args.pos
    if len(p) == 1:
        return ('range', 0, p[0])
    if len(p) == 2:
        return ('range', p[0], p[1])
    raise Unsupported('range with step')


@libfn('builtins.enumerate')
def b_enumerate(E, args, node):
    return ('enumerate', args.pos[0])


@libfn('itertools.product')
def it_product(E, args, node):
    if len(args.pos) != 2 or args.kw:
        raise Unsupported('itertools.product variant')
    return ('product',) + tuple(args.pos)


@libfn('builtins.zip')
def b_zip(E, args, node):
    return ('zip',) + tuple(args.pos)


@libfn('builtins.int')
def b_int(E, args, node):
    v = args.pos[0]
    if isinstance(v, (int, bool)):
        return int(v)
    if isinstance(v, float):
        return int(v)
    if isinstance(v, Z):
        if v.ty in (INT, BOOL):
            return Z(to_int(v), INT)
        if v.ty == REAL:
            # truncation toward zero
            f = z3.ToInt(v.t)
            return Z(z3.If(v.t >= 0, f, z3.If(z3.ToReal(f) == v.t, f, f + 1)), INT)
    if isinstance(v, X):
        if not E.spec_mode:
            if E.branch(Z(v.tag != 0, BOOL), 'int-of-nonfinite'):
                raise RaiseSig('ValueError', node, 'int() of nan/inf')
        f = z3.ToInt(v.val)
        return Z(z3.If(v.val >= 0, f, z3.If(z3.ToReal(f) == v.val, f, f + 1)), INT)
    raise Unsupported('int(%r)' % (v,))


@libfn('builtins.float')
def b_float(E, args, node):
    v = args.pos[0]
    if isinstance(v, (int, float)):
        return float(v)
    if isinstance(v, Z):
        return Z(to_real(v), REAL)
    return v


@libfn('builtins.round')
def b_round(E, args, node):
    v = args.pos[0]
    if isinstance(v, (int, float)):
        return round(v)
    if isinstance(v, Z) and v.ty == INT:
        return v
    if isinstance(v, Z) and v.ty == REAL and z3.is_to_real(z3.simplify(v.t)):
        return Z(z3.simplify(v.t).arg(0), INT)
    if isinstance(v, Z) and v.ty == REAL:
        # round-half-even; ties only matter at exact .5 which sample-grid products never hit (stated assumption)
        f = z3.ToInt(v.t + z3.RealVal('1/2'))
        fl = z3.ToInt(v.t)
        tie = (v.t - z3.ToReal(fl)) == z3.RealVal('1/2')
        return Z(z3.If(tie, z3.If(fl % 2 == 0, fl, fl + 1), f), INT)
    raise Unsupported('round(%r)' % (v,))


@libfn('builtins.abs')
def b_abs(E, args, node):
    v = args.pos[0]
    if isinstance(v, (int, float)):
        return abs(v)
    if isinstance(v, Z):
        return Z(z3.If(v.t >= 0, v.t, -v.t), v.ty)
    raise Unsupported('abs')


@libfn('builtins.str')
def b_str(E, args, node):
    v = args.pos[0]
    if isinstance(v, str):
        return v
    return Opaque(z3.Const(fresh_name('str'), ValSort), 'str()')


@libfn('builtins.print')
def b_print(E, args, node):
    return None


@libfn('builtins.list')
def b_list(E, args, node):
    if not args.pos:
        return PyList(E.new_ident(), [])
    v = args.pos[0]
    if isinstance(v, (tuple, list)):
        return PyList(E.new_ident(), list(v))
    if isinstance(v, PyList):
        return PyList(E.new_ident(), list(v.items))
    if isinstance(v, Marker) and v.kind == 'keys':
        d = v.obj
        if all(isinstance(p, bool) for p, _ in d.items.values()):
            return PyList(E.new_ident(), [k for k, (p, _) in d.items.items() if p])
        return ('symkeys', d)
    from . import grid
    if isinstance(v, grid.Lazy):
        return grid.lazy_to_list(E, v)
    if grid.is_grid(v):
        clo = E.st.heap[v.ident]
        return grid.grid(E, v.shape, v.lead, clo, 'list', owner=grid.owner_of(v))        # new list, same element objects
    if isinstance(v, Arr):
        return E.snapshot(v, kind='list')
    raise Unsupported('list(%r)' % (v,))


@libfn('builtins.tuple')
def b_tuple(E, args, node):
    if not args.pos:
        return ()
    v = args.pos[0]
    if isinstance(v, tuple):
        return v
    if isinstance(v, list):
        return tuple(v)
    if isinstance(v, PyList):
        return tuple(v.items)
    raise Unsupported('tuple(%r)' % (v,))


@libfn('builtins.dict')
def b_dict(E, args, node):
    if not args.pos and not args.kw:
        return SDict(E.new_ident(), {})
    if args.pos and isinstance(args.pos[0], SDict):
        return sdict_copy(E, args.pos[0], args, node)
    raise Unsupported('dict(...)')


@libfn('builtins.max', 'builtins.min')
def b_maxmin(E, args, node):
    is_max = isinstance(node.func, ast.Name) and node.func.id == 'max'
    vals = args.pos
    if len(vals) == 1 and isinstance(vals[0], (tuple, list)):
        vals = list(vals[0])
    if all(isinstance(v, (int, float)) for v in vals):
        return max(vals) if is_max else min(vals)
    r = lift(vals[0])
    for v in vals[1:]:
        v = lift(v)
        if r.ty == INT and v.ty == INT:
            c = (v.t > r.t) if is_max else (v.t < r.t)
            r = Z(z3.If(c, v.t, r.t), INT)
        else:
            a, b = to_real(r), to_real(v)
            c = (b > a) if is_max else (b < a)
            r = Z(z3.If(c, b, a), REAL)
    return r


@libfn('builtins.next')
def b_next(E, args, node):
    from . import loops
    return loops.eval_next(E, args, node)


@libfn('builtins.ValueError', 'builtins.TypeError', 'builtins.AttributeError', 'builtins.KeyError')
def b_exc(E, args, node):
    return Opaque(z3.Const(fresh_name('exc'), ValSort), 'exception')


# ------------------------------------------------------------------------------------------------
# neurodsp checks (their bodies are five lines; the contract *is* the body)
# ------------------------------------------------------------------------------------------------
@libfn('neurodsp.utils.checks.check_param_range')
def nd_check_param_range(E, args, node):
    param = args.get(0, 'param')
    bounds = args.get(2, 'bounds')
    if isinstance(bounds, PyList):
        bounds = tuple(bounds.items)
    lo, hi = bounds[0], bounds[1]
    c1 = E.compare(ast.Lt(), param, lo, node)
    if E.branch(c1, 'range-lo'):
        raise RaiseSig('ValueError', node, 'out of range')
    c2 = E.compare(ast.Gt(), param, hi, node)
    if E.branch(c2, 'range-hi'):
        raise RaiseSig('ValueError', node, 'out of range')
    return None


@libfn('neurodsp.utils.checks.check_param_options')
def nd_check_param_options(E, args, node):
    param = args.get(0, 'param')
    options = args.get(2, 'options')
    r = lib.contains(E, options, param, node)
    if not E.branch(r, 'options'):
        raise RaiseSig('ValueError', node, 'invalid option')
    return None


@libfn('warnings.warn')
def w_warn(E, args, node):
    return None


# ------------------------------------------------------------------------------------------------
# numpy
# ------------------------------------------------------------------------------------------------
@libfn('numpy.shape')
def np_shape(E, args, node):
    v = args.pos[0]
    if isinstance(v, Arr):
        return tuple(lib._as_val(s) for s in v.shape)
    if isinstance(v, Frame):
        return (lib._as_val(v.n), len(v.cols))
    raise Unsupported('np.shape(%r)' % (v,))


@libfn('numpy.errstate')
def np_errstate(E, args, node):
    return None


@libfn('numpy.array')
def np_array(E, args, node):
    v = args.pos[0]
    from . import grid
    if grid.is_grid(v):
        clo = E.st.heap[v.ident]
        return grid.grid(E, v.shape, v.lead, clo, 'ndarray', owner=grid.owner_of(v))      # object array of the same dicts
    if isinstance(v, Arr):
        return E.snapshot(v, kind='ndarray')
    if isinstance(v, PyList) and all(isinstance(x, (Z, X, int, float, bool)) for x in v.items):
        items = [_norm_elem(x) for x in v.items]
        if not items:
            return E.new_arr(0, REAL, lambda i: lift(0.0))
        ty = _elem_type(items[0])

        def clo(i, items=items):
            r = items[-1]
            for k in range(len(items) - 2, -1, -1):
                r = E.ite(i == k, items[k], r)
            return r
        return E.new_arr(len(items), ty, clo)
    raise Unsupported('np.array(%r)' % (v,))


@libfn('numpy.zeros')
def np_zeros(E, args, node):
    shape = args.get(0, 'shape')
    dtype = args.get(1, 'dtype', None)
    if isinstance(shape, tuple):
        from . import grid
        dims = [simp_int(x) for x in shape]
        for d in dims:
            E.oblige('lib-pre', d >= 0, node, 'non-negative extent')
        g = grid.zeros_grid(E, dims)
        g.kind = 'ndarray'
        return g
    n = term_int(shape)
    if not E.spec_mode:
        E.oblige('lib-pre', n >= 0, node, 'non-negative length')
    ty = REAL
    zero = lift(0.0)
    if isinstance(dtype, Ref) and dtype.qual == 'builtins.int':
        ty, zero = INT, lift(0)
    elif isinstance(dtype, Ref) and dtype.qual == 'builtins.bool':
        ty, zero = BOOL, lift(False)
    elif dtype is None:
        ty, zero = XR, xops.to_x(lift(0.0))
    r = E.new_arr(z3.simplify(n), ty, lambda i: zero)
    r.meta = {'zeros': True}
    return r


@libfn('numpy.diff')
def np_diff(E, args, node):
    a = args.pos[0]
    pre = args.kw.get('prepend', None)
    app = args.kw.get('append', None)
    if not isinstance(a, Arr):
        raise Unsupported('np.diff of %r' % (a,))
    src = E.st.heap[a.ident]
    n = a.n if not isinstance(a.n, int) else z3.IntVal(a.n)

    def num(e):
        e = _norm_elem(e)
        if isinstance(e, X):
            return e
        return Z(to_int(e), INT) if e.ty in (INT, BOOL) else e
    if pre is None and app is None:
        if a.ty == BOOL:
            f = lambda i: Z(z3.Xor(zbool(src(a.off + (i + 1) * a.stride)), zbool(src(a.off + i * a.stride))), BOOL)
            ty = BOOL
        else:
            f = lambda i: E.binop(ast.Sub(), src(a.off + (i + 1) * a.stride), src(a.off + i * a.stride))
            ty = a.ty
        length = z3.If(n >= 1, n - 1, z3.IntVal(0))

        def clo(i):
            E.spec_mode += 1
            try:
                return f(i)
            finally:
                E.spec_mode -= 1
        r = E.new_arr(z3.simplify(length), ty, clo)
        E.set_seq(r, 'seq_diff', E.seq(a))
        return r
    if pre is not None and app is not None and not isinstance(pre, Arr) and not isinstance(app, Arr):
        p, q = num(pre), num(app)

        def ext(j):       # element j of [pre] + a + [app], j in 0..n+1
            inner = num(src(a.off + (j - 1) * a.stride))
            return E.ite(j == 0, p, E.ite(j == n + 1, q, inner))

        def clo(i):
            E.spec_mode += 1
            try:
                return E.binop(ast.Sub(), ext(i + 1), ext(i))
            finally:
                E.spec_mode -= 1
        ty = XR if a.ty == XR else (REAL if a.ty == REAL else INT)
        return E.new_arr(z3.simplify(n + 1), ty, clo)
    raise Unsupported('np.diff variant')


def nonzero_indices(E, a, node):
    """np.flatnonzero / .nonzero()[0] / np.where(mask)[0]: strictly increasing indices of the non-zero entries"""
    if a.ty == BOOL:
        mask = a
    else:
        mask = map_arr(E, [a], lambda e: E.compare(ast.NotEq(), e, 0, node), node)
    m, g, cnt = lib.compress_map(E, mask, node)
    r = E.new_arr(m, INT, lambda i: Z(g(i), INT))
    r.meta = {'nonzero_of': mask, 'g': g, 'cnt': cnt}
    return r


@libfn('numpy.flatnonzero')
def np_flatnonzero(E, args, node):
    return nonzero_indices(E, args.pos[0], node)


@libfn('numpy.where')
def np_where(E, args, node):
    if len(args.pos) == 3:
        # elementwise selection (equal lengths, scalars broadcast)
        c, a, b = args.pos
        if not isinstance(c, Arr) or c.ty != BOOL or getattr(c, 'lead', None) is not None:
            raise Unsupported('np.where(cond, a, b) with a non-array condition')
        xr = any((isinstance(v, Arr) and v.ty == XR) or isinstance(v, X) for v in (a, b))

        def pick(cv, av, bv):
            av, bv = _norm_elem(av), _norm_elem(bv)
            if xr:
                av, bv = xops.to_x(av), xops.to_x(bv)
            return E.ite(zbool(cv), av, bv)
        return map_arr(E, [c, a, b], pick, node, kind='ndarray')
    if len(args.pos) != 1:
        raise Unsupported('2-argument np.where')
    return (nonzero_indices(E, args.pos[0], node),)


@method('Arr.nonzero')
def arr_nonzero(E, a, args, node):
    return (nonzero_indices(E, a, node),)


@libfn('numpy.logical_and')
def np_logical_and(E, args, node):
    return lib.arr_binop(E, ast.BitAnd(), args.pos[0], args.pos[1], node)


@libfn('numpy.isnan')
def np_isnan(E, args, node):
    v = args.pos[0]
    if isinstance(v, Arr):
        return map_arr(E, [v], lambda e: _isnan(e), node)
    if isinstance(v, PyList):
        return PyList(E.new_ident(), [_isnan(_norm_elem(e)) for e in v.items])
    return _isnan(_norm_elem(v))


def _isnan(e):
    if isinstance(e, X):
        return Z(e.tag == NAN, BOOL)
    return Z(z3.BoolVal(False), BOOL)


def _seq_items(v):
    if isinstance(v, PyList):
        return list(v.items)
    if isinstance(v, (tuple, list)):
        return list(v)
    return None


@libfn('numpy.min', 'numpy.max', 'numpy.nanmin')
def np_minmax(E, args, node):
    name = node.func.attr if isinstance(node.func, ast.Attribute) else node.func.id
    items = _seq_items(args.pos[0])
    if items is None or not items:
        raise Unsupported('np.%s of %r' % (name, args.pos[0]))
    xs = [_norm_elem(e) for e in items]
    if any(isinstance(e, X) for e in xs):
        xs = [xops.to_x(e) for e in xs]
        f = {'min': xops.np_min2, 'max': xops.np_max2, 'nanmin': xops.nanmin2}[name]
        r = xs[0]
        for e in xs[1:]:
            r = f(r, e)
        return r
    r = xs[0]
    for e in xs[1:]:
        if r.ty == INT and e.ty == INT:
            c = (e.t < r.t) if name != 'max' else (e.t > r.t)
            r = Z(z3.If(c, e.t, r.t), INT)
        else:
            a, b = to_real(r), to_real(e)
            c = (b < a) if name != 'max' else (b > a)
            r = Z(z3.If(c, b, a), REAL)
    return r


@method('PyList.all', 'PyList.any')
def pylist_allany(E, lst, args, node):
    ts = [zbool(e) for e in lst.items]
    name = node.func.attr
    return Z(z3.And(*ts) if name == 'all' else z3.Or(*ts), BOOL)


@method('Arr.any', 'Arr.all')
def arr_anyall(E, a, args, node):
    k = z3.Int(fresh_name('k'))
    body = zbool(E.rd(a, k))
    rng = z3.And(k >= 0, k < a.n)
    if node.func.attr == 'any':
        return Z(z3.Exists([k], z3.And(rng, body)), BOOL)
    return Z(z3.ForAll([k], z3.Implies(rng, body)), BOOL)


@method('Arr.copy')
def arr_copy(E, a, args, node):
    return E.snapshot(a)


@method('Arr.to_numpy')
def arr_to_numpy(E, a, args, node):
    copy = args.kw.get('copy', False)
    if copy is True:
        return E.snapshot(a, kind='ndarray')
    if copy is False:
        return Arr(a.ident, a.shape, a.ty, 'ndarray', a.off, a.stride, writeable=False)
    raise Unsupported('to_numpy(copy=symbolic)')


@method('Arr.astype')
def arr_astype(E, a, args, node):
    t = args.pos[0]
    if isinstance(t, Ref) and t.qual == 'builtins.int':
        if a.ty in (BOOL, INT):
            r = map_arr(E, [a], lambda e: Z(to_int(e), INT), node)
            E.set_seq(r, 'seq_astype_int', E.seq(a))
            return r
    if isinstance(t, Ref) and t.qual == 'builtins.bool':
        return map_arr(E, [a], lambda e: Z(zbool(e), BOOL), node)
    raise Unsupported('astype(%r)' % (t,))


@method('Arr.tolist')
def arr_tolist(E, a, args, node):
    from . import grid
    if grid.is_grid(a):
        clo = E.st.heap[a.ident]
        return grid.grid(E, a.shape, a.lead, clo, 'list')        # fresh nested lists (distinct rows)
    if (getattr(a, 'meta', None) or {}).get('zeros') and a.ndim == 1 and E.st.heap.get(a.ident) is not None \
            and getattr(E.st.heap[a.ident], '__name__', '') == '<lambda>' and not E.spec_mode and a.ident in E.st.fresh:
        # np.zeros(n).tolist(): a fresh list of n placeholders, about to be filled with objects (group-level code)
        g = grid.zeros_grid(E, [a.n if not isinstance(a.n, int) else z3.IntVal(a.n)])
        return g
    return E.snapshot(a, kind='list')


def simp_int(x):
    t = term_int(x)
    return z3.simplify(t)


@libfn('copy.deepcopy')
def copy_deepcopy(E, args, node):
    v = args.pos[0]
    return deep_copy(E, v)


def deep_copy(E, v):
    from . import grid
    if grid.is_grid(v):
        clo = E.st.heap[v.ident]
        return grid.grid(E, v.shape, v.lead, clo, v.kind)          # new container AND new element objects (owner = itself)
    if isinstance(v, Opaque) and getattr(v, 'cell', None) is not None:
        o = Opaque(v.t, v.note)
        o.cell = {'ident': E.new_ident(True), 't': v.t}
        return o
    if isinstance(v, Arr):
        return E.snapshot(v)
    if isinstance(v, SDict):
        return SDict(E.new_ident(), {k: [p, deep_copy(E, x)] for k, (p, x) in v.items.items()})
    if isinstance(v, PyList):
        return PyList(E.new_ident(), [deep_copy(E, x) for x in v.items])
    if isinstance(v, tuple):
        return tuple(deep_copy(E, x) for x in v)
    if isinstance(v, Frame):
        return frame_copy(E, v, None, None)
    if v is None or isinstance(v, (int, float, str, bool, Z, X, Opt)):
        return v
    raise Unsupported('deepcopy of %r' % (v,))


# ------------------------------------------------------------------------------------------------
# dict methods
# ------------------------------------------------------------------------------------------------
@method('SDict.copy')
def sdict_copy(E, d, args, node):
    return SDict(E.new_ident(), {k: [p, v] for k, (p, v) in d.items.items()})


@method('SDict.keys')
def sdict_keys(E, d, args, node):
    return Marker('keys', d)


@method('SDict.get')
def sdict_get(E, d, args, node):
    key = args.pos[0]
    default = args.pos[1] if len(args.pos) > 1 else args.kw.get('default', None)
    if not isinstance(key, (str, int)):
        raise Unsupported('symbolic key')
    if key not in d.items:
        return default
    p, v = d.items[key]
    if isinstance(p, bool):
        return v if p else default
    return E.ite(p, v, default)


@method('SDict.pop')
def sdict_pop(E, d, args, node):
    key = args.pos[0]
    has_default = len(args.pos) > 1
    default = args.pos[1] if has_default else None
    if not isinstance(key, (str, int)):
        raise Unsupported('symbolic key')
    E.mutate(d.ident, node, 'dict.pop')
    if key not in d.items:
        if has_default:
            return default
        raise RaiseSig('KeyError', node, str(key))
    p, v = d.items[key]
    d.items[key] = [False, v]
    if isinstance(p, bool):
        if p:
            return v
        if has_default:
            return default
        raise RaiseSig('KeyError', node, str(key))
    if has_default:
        mergeable = all(isinstance(x, (Z, X, int, float, bool)) for x in (v, default)) or \
            (isinstance(v, Z) and v.ty == STR and isinstance(default, str))
        if mergeable:
            return E.ite(p, v, default)
        # values that cannot be merged into one term (opaque objects, lists, tuples, strings): one path each
        return v if E.branch(Z(p, BOOL), 'pop-present') else default
    if not E.branch(Z(p, BOOL), 'pop-present'):
        raise RaiseSig('KeyError', node, str(key))
    return v


@method('SDict.items')
def sdict_items(E, d, args, node):
    return Marker('items', d)


# ------------------------------------------------------------------------------------------------
# pandas
# ------------------------------------------------------------------------------------------------
@method('Frame.copy')
def frame_copy(E, f, args, node):
    cols = {c: E.snapshot(a, kind='series') for c, a in f.cols.items()}
    return Frame(E.new_ident(), f.n, cols)


@method('Frame.to_numpy')
def frame_to_numpy(E, f, args, node):
    raise Unsupported('DataFrame.to_numpy')


@method('Marker.columns.get_loc')
def columns_get_loc(E, mk, args, node):
    name = args.pos[0]
    if not isinstance(name, str):
        raise Unsupported('symbolic column name')
    if name not in mk.obj.cols:
        raise RaiseSig('KeyError', node, name)
    return Marker('colidx', mk.obj, name)


# ------------------------------------------------------------------------------------------------
# reductions as uninterpreted functions of the materialised array (their defining axioms are lemmas)
# ------------------------------------------------------------------------------------------------
from .values import XRS  # noqa: E402

_RED = {}


def reduction(name, ty, ret):
    """uninterpreted reduction NAME_ty(array, n) -> ret sort"""
    key = (name, ty)
    if key not in _RED:
        from .values import sort_of
        _RED[key] = z3.Function('%s_%s' % (name, ty), z3.ArraySort(z3.IntSort(), sort_of(ty)), z3.IntSort(), ret)
    return _RED[key]


def np_mean_arr(E, a, node):
    from .values import SeqSort
    f = E.seq_fn('seq_mean', SeqSort, XRS)
    return X(f(E.seq(a)))


@libfn('numpy.mean')
def np_mean(E, args, node):
    v = args.pos[0]
    if isinstance(v, Arr):
        return np_mean_arr(E, v, node)
    items = _seq_items(v)
    if items:
        xs = [xops.to_x(_norm_elem(e)) for e in items]
        s = xs[0]
        for e in xs[1:]:
            s = xops.add(s, e)
        return xops.div(s, xops.to_x(lift(len(xs))))
    raise Unsupported('np.mean(%r)' % (v,))


@libfn('numpy.sum')
def np_sum(E, args, node):
    v = args.pos[0]
    if isinstance(v, Arr):
        n = v.n if not isinstance(v.n, int) else z3.IntVal(v.n)
        from .values import sort_of
        ret = XRS if v.ty == XR else (z3.RealSort() if v.ty == REAL else z3.IntSort())
        f = reduction('sum', v.ty, ret)
        t = f(E.mat(v), n)
        return X(t) if v.ty == XR else Z(t, REAL if v.ty == REAL else INT)
    raise Unsupported('np.sum(%r)' % (v,))


@libfn('neurodsp.filt.filter_signal', 'neurodsp.filt.filter.filter_signal')
def nd_filter_signal(E, args, node):
    """assumed contract: with remove_edges=False a finite real array of the length of the input (no NaN edges); which
    array is not constrained (the zero-crossing structure of the output is what the callers reason about); errors the
    filter design may raise for unusable bands are not modelled"""
    sig = args.get(0, 'sig')
    if args.kw.get('remove_edges', True) is not False:
        raise Unsupported('filter_signal with remove_edges != False (NaN edges)')
    if not isinstance(sig, Arr):
        raise Unsupported('filter_signal(%r)' % (sig,))
    r = E.new_arr(sig.n, REAL, base='filtered')
    E.st.calls.append(('neurodsp.filt.filter_signal', {'sig': sig}, r))
    return r


@libfn('neurodsp.filt.fir.compute_filter_length')
def nd_compute_filter_length(E, args, node):
    """assumed contract: a positive integer number of samples"""
    z = E.fresh_z('filt_len', INT)
    E.assume(z.t >= 1)
    E.st.calls.append(('neurodsp.filt.fir.compute_filter_length', {}, z))
    return z


@libfn('numpy.ceil')
def np_ceil(E, args, node):
    v = args.pos[0]
    if isinstance(v, (int, float)) and not isinstance(v, bool):
        return float(math.ceil(v))
    if isinstance(v, Z) and v.ty == INT:
        return Z(z3.ToReal(v.t), REAL)
    if isinstance(v, Z) and v.ty == REAL:
        return Z(z3.ToReal(-z3.ToInt(-v.t)), REAL)
    raise Unsupported('np.ceil(%r)' % (v,))


@libfn('numpy.pad')
def np_pad(E, args, node):
    """np.pad(a, h, mode='constant'): h zeros, the array, h zeros; ValueError for a negative width"""
    a = args.get(0, 'array')
    h = args.get(1, 'pad_width')
    if args.kw.get('mode', 'constant') != 'constant' or 'constant_values' in args.kw or not isinstance(a, Arr) or a.ndim != 1:
        raise Unsupported('np.pad variant')
    ht = term_int(h)
    if not E.spec_mode:
        if E.branch(Z(ht < 0, BOOL), 'pad-negative'):
            raise RaiseSig('ValueError', node, "index can't contain negative values")
    n = a.n if not isinstance(a.n, int) else z3.IntVal(a.n)
    src = E.st.heap[a.ident]
    zero = {REAL: lift(0.0), INT: lift(0), XR: xops.to_x(lift(0.0)), BOOL: lift(False)}[a.ty]
    off, st = a.off, a.stride

    def clo(i):
        return E.ite(z3.And(i >= ht, i < ht + n), src(off + (i - ht) * st), zero)
    return E.new_arr(z3.simplify(n + 2 * ht), a.ty, clo)


def _arg_extreme(E, args, node, is_max):
    """np.argmax / np.argmin of a non-empty 1-D array: the FIRST position of the largest / smallest entry
    (ValueError on an empty array); finite entries (NaN ordering is not modelled: real arrays only)"""
    a = args.pos[0]
    if not isinstance(a, Arr) or a.ndim != 1 or a.ty not in (REAL, INT):
        raise Unsupported('argmax/argmin of %r' % (a,))
    n = a.n if not isinstance(a.n, int) else z3.IntVal(a.n)
    if not E.spec_mode:
        if E.branch(Z(n <= 0, BOOL), 'arg-extreme-empty'):
            raise RaiseSig('ValueError', node, 'attempt to get argmax of an empty sequence')
    r = z3.Int(fresh_name('argmax' if is_max else 'argmin'))
    i = z3.Int(fresh_name('i'))
    at = lambda t: to_real(E.rd(a, t)) if a.ty == REAL else to_int(E.rd(a, t))
    ge = (lambda x, y: x >= y) if is_max else (lambda x, y: x <= y)
    gt = (lambda x, y: x > y) if is_max else (lambda x, y: x < y)
    E.assume(z3.And(r >= 0, r < n))
    ax1 = z3.ForAll([i], z3.Implies(z3.And(i >= 0, i < n), ge(at(r), at(i))))
    ax2 = z3.ForAll([i], z3.Implies(z3.And(i >= 0, i < r), gt(at(r), at(i))))
    E.assumptions_quant(ax1)
    E.assumptions_quant(ax2)
    E.st.ghost.setdefault('argext', []).append(dict(r=r, n=n, at=at, ge=ge, gt=gt, is_max=is_max))
    return Z(r, INT)


@libfn('numpy.argmax')
def np_argmax(E, args, node):
    return _arg_extreme(E, args, node, True)


@libfn('numpy.argmin')
def np_argmin(E, args, node):
    return _arg_extreme(E, args, node, False)


@libfn('numpy.round')
def np_round(E, args, node):
    """np.round(x, d) for a real scalar: a multiple of 10**-d nearest to x (ties either way; machine arithmetic treated as
    mathematical) - linear, so integer-versus-bound comparisons stay decidable"""
    v = args.get(0, 'a')
    d = args.get(1, 'decimals') if (len(args.pos) > 1 or 'decimals' in args.kw) else 0
    if not isinstance(d, int) or isinstance(d, bool) or d < 0 or d > 12:
        raise Unsupported('np.round decimals=%r' % (d,))
    if isinstance(v, (int, float)) and not isinstance(v, bool):
        return float(round(v, d))
    if isinstance(v, Z) and v.ty == INT:
        return Z(z3.ToReal(v.t), REAL)
    if isinstance(v, Z) and v.ty == REAL:
        scale = z3.RealVal(10 ** d)
        K = z3.Int(fresh_name('round%d' % d))
        half = z3.RealVal('1/2')
        E.assume(z3.And(z3.ToReal(K) - half <= v.t * scale, v.t * scale <= z3.ToReal(K) + half))
        return Z(z3.ToReal(K) / scale, REAL)
    raise Unsupported('np.round(%r)' % (v,))


@libfn('numpy.abs')
def np_abs(E, args, node):
    v = args.pos[0]
    if isinstance(v, Arr):
        return map_arr(E, [v], lambda e: b_abs(E, CallArgs([e], {}), node), node)
    return b_abs(E, args, node)


@method('Arr.rank')
def series_rank2(E, a, args, node):
    """Series.rank(): average rank among the non-nan values; nan stays nan (assumed contract, conformance-tested)"""
    f = reduction('avgrank', a.ty, z3.ArraySort(z3.IntSort(), XRS))
    n = a.n if not isinstance(a.n, int) else z3.IntVal(a.n)
    R = f(E.arr_term(a), n)
    return E.new_arr(a.n, XR, lambda i: X(z3.Select(R, i)), 'series')


@method('Frame.to_dict')
def frame_to_dict(E, f, args, node):
    if args.pos and args.pos[0] == 'records':
        return Marker('records', f)
    raise Unsupported('to_dict(%r)' % (args.pos,))


@method('Arr.append')
def list_append(E, a, args, node):
    if a.kind != 'list':
        raise Unsupported('append on %s' % a.kind)
    E.mutate(a.ident, node, 'list.append')
    v = _norm_elem(args.pos[0])
    if a.ty == XR:
        v = xops.to_x(v)
    old = E.st.heap[a.ident]
    n = a.n if not isinstance(a.n, int) else z3.IntVal(a.n)
    E.st.heap[a.ident] = lambda j, old=old, n=n, v=v: E.ite(j == n, v, old(j))
    a.shape = (z3.simplify(n + 1),)
    return None


@method('PyList.append')
def pylist_append(E, lst, args, node):
    E.mutate(lst.ident, node, 'list.append')
    lst.items.append(args.pos[0])
    return None


@libfn('pandas.DataFrame')
def pd_dataframe(E, args, node):
    if args.pos or args.kw:
        raise Unsupported('DataFrame(...) with arguments')
    return Frame(E.new_ident(), None, {})


@libfn('pandas.concat')
def pd_concat(E, args, node):
    objs = args.pos[0]
    axis = args.kw.get('axis', 0)
    from . import grid as _g0
    items = objs.items if isinstance(objs, PyList) else ([] if _g0.is_grid(objs) else list(objs))
    if axis == 1 and all(isinstance(f, Frame) for f in items):
        n = items[0].n
        cols = {}
        for f in items:
            if f.n is None:
                continue
            if n is None:
                n = f.n
            # frames produced inside one analysis share the default RangeIndex: equal row counts are required
            E.oblige('lib-pre', _eq_len(n, f.n), node, 'concat(axis=1): equal number of rows')
            for c, a in f.cols.items():
                if c in cols:
                    raise Unsupported('duplicate column %s in concat' % c)
                cols[c] = E.snapshot(a, kind='series')
        return Frame(E.new_ident(), n, cols)
    if axis == 1 and items and all(isinstance(a, Arr) and a.kind == 'series' and (getattr(a, 'meta', None) or {}).get('name')
                                   for a in items):
        n = items[0].n
        cols = {}
        for a in items:
            E.oblige('lib-pre', _eq_len(n, a.n), node, 'concat(axis=1): equal number of rows')
            c = a.meta['name']
            if c in cols:
                raise Unsupported('duplicate column %s in concat' % c)
            cols[c] = E.snapshot(a, kind='series')
        return Frame(E.new_ident(), n if not isinstance(n, int) else z3.IntVal(n), cols)
    from . import grid as _g
    if _g.is_grid(objs) and objs.lead == 1 and getattr(objs, 'elem_kind', None) == 'table' and axis == 0:
        # group level: the row-wise concatenation of a list of opaque tables, in list order
        return _g._opq(_g.CONCAT_ROWS(_g.rows_term(E, objs)))
    raise Unsupported('pd.concat variant')


def opt_terms(E, v, ty):
    """(isnone, value) z3 terms of an optional scalar"""
    from .values import sort_of
    if v is None:
        return z3.BoolVal(True), {INT: z3.IntVal(0), REAL: z3.RealVal(0)}[ty]
    if isinstance(v, Opt):
        zero = {INT: z3.IntVal(0), REAL: z3.RealVal(0)}[ty]
        return v.isnone, z3.If(v.isnone, zero, (to_real(lift(v.val)) if ty == REAL else to_int(lift(v.val))))
    z = lift(v)
    return z3.BoolVal(False), (to_real(z) if ty == REAL else to_int(z))


EMPTY_KW = z3.Const('empty_kwargs', ValSort)


def kwargs_term(E, args, drop=()):
    """a Val term standing for the ** keyword arguments handed to an external function"""
    terms = []
    for d in args.star_kw:
        if isinstance(d, Opaque):
            terms.append(d.t)
        elif isinstance(d, SDict):
            if any(not (isinstance(p, bool) and not p) for p, _ in d.items.values()):
                raise Unsupported('** of a non-empty symbolic dict to an external function')
        else:
            raise Unsupported('** of %r' % (d,))
    if not terms:
        return EMPTY_KW
    if len(terms) == 1:
        return terms[0]
    raise Unsupported('several ** arguments')


@libfn('neurodsp.burst.detect_bursts_dual_threshold', 'neurodsp.burst.dualthresh.detect_bursts_dual_threshold')
def nd_dual_threshold(E, args, node):
    """assumed contract: a boolean array of len(sig), a function of (sig, fs, amp thresholds, band, minimum cycle
    count or None, minimum duration or None, filter options), even in the sign of the signal; ValueError unless
    0 <= lo <= hi (own range checks)"""
    from .values import SeqSort
    sig = args.get(0, 'sig')
    fs = lift(args.get(1, 'fs'))
    dual = args.get(2, 'dual_thresh')
    f_range = args.get(3, 'f_range')
    mnc = args.get(4, 'min_n_cycles', 3)
    dur = args.get(5, 'min_burst_duration', None)
    fk = kwargs_term(E, args)
    mn, mv = opt_terms(E, mnc, INT)
    dn, dv = opt_terms(E, dur, REAL)
    a0, a1 = lift(dual[0]), lift(dual[1])
    f0, f1 = lift(f_range[0]), lift(f_range[1])
    f = E.seq_fn('dual_threshold', SeqSort, z3.RealSort(), z3.RealSort(), z3.RealSort(), z3.RealSort(), z3.RealSort(),
                 z3.BoolSort(), z3.IntSort(), z3.BoolSort(), z3.RealSort(), ValSort, SeqSort)
    # assumed, like amp_by_time: the detector thresholds the analytic band amplitude, which is even in the sign of the signal
    base = getattr(sig, 'neg_of', None) if getattr(sig, 'sx_heap', None) is E.st.heap.get(sig.ident) else None
    sx = f(base if base is not None else E.seq(sig), to_real(fs), to_real(a0), to_real(a1), to_real(f0), to_real(f1), mn, mv, dn, dv, fk)
    at = E.seq_fn('seq_at_bool', SeqSort, z3.IntSort(), z3.BoolSort())
    r = E.new_arr(sig.n, BOOL, lambda i: Z(at(sx, i), BOOL))
    r.sx, r.sx_heap = sx, E.st.heap[r.ident]
    E.st.calls.append(('neurodsp.burst.detect_bursts_dual_threshold', {'sx': sx}, r))
    return r


@libfn('numpy.append')
def np_append(E, args, node):
    a, b = args.pos[0], args.pos[1]
    if isinstance(a, Arr) and isinstance(b, (PyList, list, tuple)) and a.ndim == 1 and getattr(a, 'lead', None) is None:
        # a 1-D array extended by the scalars of a python list
        items = [_norm_elem(x) for x in (b.items if isinstance(b, PyList) else b)]
        if not all(isinstance(x, (Z, X)) for x in items):
            raise Unsupported('np.append of a list of non-scalars')
        xr = a.ty == XR or any(isinstance(x, X) for x in items)
        ty = XR if xr else (REAL if (a.ty == REAL or any(isinstance(x, Z) and x.ty == REAL for x in items)) else a.ty)
        conv = (lambda e: xops.to_x(e)) if xr else ((lambda e: Z(to_real(e), REAL)) if ty == REAL else (lambda e: e))
        src = E.st.heap[a.ident]
        n = a.n if not isinstance(a.n, int) else z3.IntVal(a.n)
        items = [conv(x) for x in items]

        def clo(i, src=src, a=a, n=n, items=items):
            r = items[-1]
            for k in range(len(items) - 2, -1, -1):
                r = E.ite(i == n + k, items[k], r)
            return E.ite(i < n, conv(src(a.off + i * a.stride)), r)
        return E.new_arr(z3.simplify(n + len(items)), ty, clo)
    if isinstance(b, Arr) and not isinstance(a, Arr):
        e0 = _norm_elem(a)
        src = E.st.heap[b.ident]
        n = b.n if not isinstance(b.n, int) else z3.IntVal(b.n)
        return E.new_arr(z3.simplify(n + 1), b.ty,
                         lambda i: E.ite(i == 0, e0, src(b.off + (i - 1) * b.stride)))
    if isinstance(a, Arr) and not isinstance(b, Arr):
        e1 = _norm_elem(b)
        src = E.st.heap[a.ident]
        n = a.n if not isinstance(a.n, int) else z3.IntVal(a.n)
        ty = a.ty
        if isinstance(e1, X) and ty != XR:
            ty = XR
            return E.new_arr(z3.simplify(n + 1), ty,
                             lambda i: E.ite(i == n, e1, xops.to_x(src(a.off + i * a.stride))))
        return E.new_arr(z3.simplify(n + 1), ty, lambda i: E.ite(i == n, e1, src(a.off + i * a.stride)))
    if isinstance(a, Arr) and isinstance(b, Arr) and a.ndim == 1 and b.ndim == 1 and a.ty == b.ty \
            and getattr(a, 'lead', None) is None and getattr(b, 'lead', None) is None:
        # two 1-D arrays of the same element type: concatenation
        sa, sb = E.st.heap[a.ident], E.st.heap[b.ident]
        na = a.n if not isinstance(a.n, int) else z3.IntVal(a.n)
        nb = b.n if not isinstance(b.n, int) else z3.IntVal(b.n)
        return E.new_arr(z3.simplify(na + nb), a.ty,
                         lambda i: E.ite(i < na, sa(a.off + i * a.stride), sb(b.off + (i - na) * b.stride)))
    raise Unsupported('np.append variant')


@libfn('pandas.DataFrame.from_dict')
def pd_from_dict(E, args, node):
    d = args.pos[0]
    if not isinstance(d, SDict) or not all(p is True for p, _ in d.items.values()):
        raise Unsupported('from_dict of %r' % (d,))
    cols = {}
    n = None
    for k, (_, v) in d.items.items():
        if not isinstance(v, Arr):
            raise Unsupported('from_dict value %r' % (v,))
        if n is None:
            n = v.n if not isinstance(v.n, int) else z3.IntVal(v.n)
        else:
            # "All arrays must be of the same length" (ValueError otherwise)
            E.oblige('lib-pre', _eq_len(n, v.n), node, 'from_dict: all columns have the same length')
        cols[k] = E.snapshot(v, kind='series')
    return Frame(E.new_ident(), n, cols)


@libfn('neurodsp.timefrequency.amp_by_time', 'neurodsp.timefrequency.hilbert.amp_by_time')
def nd_amp_by_time(E, args, node):
    """assumed contract: an array of len(sig), a function of (sig, fs, band, n_cycles, remaining options)"""
    from .values import SeqSort
    sig = args.get(0, 'sig')
    fs = lift(args.get(1, 'fs'))
    f_range = args.get(2, 'f_range')
    ncyc = lift(args.kw.get('n_cycles', 3))
    f0, f1 = lift(f_range[0]), lift(f_range[1])
    f = E.seq_fn('amp_by_time', SeqSort, z3.RealSort(), z3.RealSort(), z3.RealSort(), z3.RealSort(), SeqSort)
    # assumed: the analytic amplitude is even in the sign of the signal, amp(-x) == amp(x)
    base = getattr(sig, 'neg_of', None) if getattr(sig, 'sx_heap', None) is E.st.heap.get(sig.ident) else None
    sx = f(base if base is not None else E.seq(sig), to_real(fs), to_real(f0), to_real(f1), to_real(ncyc))
    at = E.seq_fn('seq_at_xr', SeqSort, z3.IntSort(), XRS)
    r = E.new_arr(sig.n, XR, lambda i: X(at(sx, i)))
    r.sx, r.sx_heap = sx, E.st.heap[r.ident]
    return r


@method('Frame.rename')
def frame_rename(E, f, args, node):
    mapping = args.kw.get('columns')
    inplace = args.kw.get('inplace', False)
    if not isinstance(mapping, SDict) or inplace is not True:
        raise Unsupported('rename variant')
    m = {k: v for k, (p, v) in mapping.items.items() if p is True}
    E.mutate(f.ident, node, 'rename(inplace=True)')
    new = {}
    for c, a in f.cols.items():
        nc = m.get(c, c)
        if nc in new:
            raise Unsupported('rename creates duplicate column %s' % nc)
        new[nc] = a
    f.cols = new
    return None


@method('Frame.drop')
def frame_drop(E, f, args, node):
    labels = args.pos[0] if args.pos else args.kw.get('columns')
    axis = args.kw.get('axis', 0 if 'columns' not in args.kw else 1)
    if axis != 1:
        raise Unsupported('drop rows')
    names = labels.items if isinstance(labels, PyList) else list(labels)
    for nme in names:
        if nme not in f.cols:
            raise RaiseSig('KeyError', node, str(nme))
    cols = {c: E.snapshot(a, kind='series') for c, a in f.cols.items() if c not in names}
    return Frame(E.new_ident(), f.n, cols)


@method('Frame.keys')
def frame_keys(E, f, args, node):
    """DataFrame.keys(): the column labels"""
    return Marker('columns', f)


@method('Frame.pop')
def frame_pop(E, f, args, node):
    """DataFrame.pop(col): removes the column from the table IN PLACE and returns it as a Series named col"""
    nme = args.pos[0] if args.pos else args.kw.get('item')
    if not isinstance(nme, str):
        raise Unsupported('pop of a symbolic label')
    if nme not in f.cols:
        raise RaiseSig('KeyError', node, str(nme))
    E.mutate(f.ident, node, 'DataFrame.pop')
    a = f.cols[nme]
    f.cols = {c: x for c, x in f.cols.items() if c != nme}
    r = E.snapshot(a, kind='series')
    r.meta = dict(getattr(r, 'meta', None) or {}, name=nme)
    return r


@method('str.startswith')
def str_startswith(E, s, args, node):
    if isinstance(s, str) and isinstance(args.pos[0], str):
        return s.startswith(args.pos[0])
    raise Unsupported('symbolic startswith')


@method('str.endswith')
def str_endswith(E, s, args, node):
    if isinstance(s, str) and isinstance(args.pos[0], str):
        return s.endswith(args.pos[0])
    raise Unsupported('symbolic endswith')


@method('str.replace')
def str_replace(E, s, args, node):
    if isinstance(s, str):
        return s.replace(args.pos[0], args.pos[1])
    raise Unsupported('symbolic replace')


@method('str.capitalize', 'str.lower', 'str.upper', 'str.title', 'str.strip')
def str_simple(E, s, args, node):
    if isinstance(s, str):
        return getattr(s, node.func.attr)(*[a for a in args.pos if isinstance(a, str)])
    raise Unsupported('string method on a symbolic string')


def try_definitional(E, e, env):
    """A callee postcondition of the shape  forall(i, 0 <= i < len(R), same(R..[i], EXPR(i)))  over a fresh result
    array R defines R pointwise; instead of assuming the quantified formula the engine makes R's contents the
    closure i -> EXPR(i) (an equivalent, quantifier-free reading of the same clause)."""
    try:
        node = ast.parse(e.strip(), mode='eval').body
    except SyntaxError:
        return False
    if not (isinstance(node, ast.Call) and isinstance(node.func, ast.Name) and node.func.id == 'forall'
            and len(node.args) == 3 and isinstance(node.args[0], ast.Name)):
        return False
    var = node.args[0].id
    rng, body = node.args[1], node.args[2]
    if not (isinstance(rng, ast.Compare) and len(rng.ops) == 2 and isinstance(rng.ops[0], ast.LtE)
            and isinstance(rng.ops[1], ast.Lt) and isinstance(rng.left, ast.Constant) and rng.left.value == 0
            and isinstance(rng.comparators[0], ast.Name) and rng.comparators[0].id == var):
        return False
    if isinstance(body, ast.Call) and isinstance(body.func, ast.Name) and body.func.id == 'same' and len(body.args) == 2:
        lhs, rhs = body.args
    elif isinstance(body, ast.Compare) and len(body.ops) == 1 and isinstance(body.ops[0], ast.Eq):
        lhs, rhs = body.left, body.comparators[0]
    else:
        return False
    if not (isinstance(lhs, ast.Subscript) and isinstance(lhs.slice, ast.Name) and lhs.slice.id == var):
        return False
    if any(isinstance(n, ast.Name) and n.id == var for n in ast.walk(lhs.value)):
        return False
    E.spec_mode += 1
    saved_env = E.st.env
    try:
        E.st.env = dict(env)
        try:
            target = E.eval(lhs.value)
            upper = E.eval(rng.comparators[1])
        except (Unsupported, RaiseSig, KeyError):
            return False
        if not isinstance(target, Arr) or target.ident not in E.st.fresh:
            return False
        clo = E.st.heap.get(target.ident)
        if getattr(clo, 'base', None) is None or not (target.stride == 1 and isinstance(target.off, int) and target.off == 0):
            return False
        if getattr(clo, 'defined', False):
            return False
        up = term_int(upper)
        tn = target.n if not isinstance(target.n, int) else z3.IntVal(target.n)
        if E.decide(up == tn) is not True:
            return False
        k0 = z3.Int(fresh_name('def'))
        E.st.env[var] = Z(k0, INT)
        E.binders += 1
        try:
            val = E.eval(rhs)
        except (Unsupported, RaiseSig):
            return False
        finally:
            E.binders -= 1
        if isinstance(val, z3.ExprRef):
            val = Z(val, BOOL)
        val = _norm_elem(val)
        ty = target.ty
        if ty == XR:
            val = xops.to_x(val)
        elif isinstance(val, X):
            return False
        elif ty == REAL and val.ty != REAL:
            val = Z(to_real(val), REAL)
        elif ty == INT and val.ty == BOOL:
            val = Z(to_int(val), INT)
        elif val.ty != ty:
            return False
        t = val.t

        def newclo(i, t=t, k0=k0, ty=ty):
            it = i if isinstance(i, z3.ExprRef) else z3.IntVal(i)
            r = z3.substitute(t, (k0, it))
            return X(r) if ty == XR else Z(r, ty)
        newclo.defined = True
        E.st.heap[target.ident] = newclo
        E.stats['definitional'] = E.stats.get('definitional', 0) + 1
        return True
    finally:
        E.st.env = saved_env
        E.spec_mode -= 1


@method('str.format')
def str_format(E, s, args, node):
    return Opaque(z3.Const(fresh_name('fmt'), ValSort), 'formatted string')


@method('SDict.setdefault')
def sdict_setdefault(E, d, args, node):
    key = args.pos[0]
    default = args.pos[1] if len(args.pos) > 1 else None
    if not isinstance(key, (str, int)):
        raise Unsupported('symbolic key')
    E.mutate(d.ident, node, 'dict.setdefault')
    if key not in d.items:
        d.items[key] = [True, default]
        return default
    p, v = d.items[key]
    if isinstance(p, bool):
        if not p:
            d.items[key] = [True, default]
            return default
        return v
    merged = E.ite(p, v, default)
    d.items[key] = [True, merged]
    return merged


@method('SDict.update')
def sdict_update(E, d, args, node):
    other = args.pos[0] if args.pos else None
    E.mutate(d.ident, node, 'dict.update')
    if isinstance(other, SDict):
        for k, (p, v) in other.items.items():
            if isinstance(p, bool):
                if p:
                    d.items[k] = [True, v]
                continue
            if k in d.items:
                p0, v0 = d.items[k]
                d.items[k] = [z3.Or(p, p0 if not isinstance(p0, bool) else z3.BoolVal(p0)), E.ite(p, v, v0)]
            else:
                d.items[k] = [p, v]
    elif other is not None:
        raise Unsupported('dict.update(%r)' % (other,))
    for k, v in args.kw.items():
        d.items[k] = [True, v]
    return None


@libfn('numpy.size')
def np_size(E, args, node):
    v = args.pos[0]
    if isinstance(v, Arr):
        r = None
        for d in v.shape:
            t = d if not isinstance(d, int) else z3.IntVal(d)
            r = t if r is None else r * t
        return Z(z3.simplify(r), INT)
    raise Unsupported('np.size(%r)' % (v,))


def call_inline(E, qual, args, node, keep_self=False):
    """a private helper without loops is executed in place (its body is then part of the caller's verification
    conditions; no contract is assumed for it)"""
    mi, fdef = E.sources.func(qual)
    if fdef is None:
        raise Unsupported('callee %s not found' % qual)
    if keep_self:
        slf, rest = args.pos[0], CallArgs(list(args.pos[1:]), dict(args.kw), list(args.star_kw))
        bound = bind_params(E, qual, rest, node)
        bound['self'] = slf
    else:
        bound = bind_params(E, qual, args, node)
    saved_env = E.st.env
    saved_stack = E.mod_stack
    E.st.env = dict(bound)
    E.mod_stack = E.mod_stack + [mi]
    E.inline_depth = getattr(E, 'inline_depth', 0) + 1
    try:
        try:
            E.exec_block(fdef.body)
            result = None
        except ReturnSig as r:
            result = r.value
    finally:
        E.st.env = saved_env
        E.mod_stack = saved_stack
        E.inline_depth -= 1
    return result


@libfn('operator.gt', 'operator.lt')
def op_gtlt(E, args, node):
    name = None
    f = E.eval(node.func)
    op = ast.Gt() if f.qual.endswith('gt') else ast.Lt()
    return E.compare(op, args.pos[0], args.pos[1], node)


@libfn('numpy.median')
def np_median(E, args, node):
    """median of a non-empty int sequence: a real between the smallest and the largest element (for strictly increasing
    index arrays: between the first and the last)"""
    from .values import SeqSort
    v = args.pos[0]
    if isinstance(v, PyList) and len(v.items) == 1:
        return Z(to_real(lift(v.items[0])), REAL)
    if isinstance(v, Arr) and v.ty == INT:
        f = E.seq_fn('seq_median', SeqSort, z3.RealSort())
        r = f(E.seq(v))
        n = v.n if not isinstance(v.n, int) else z3.IntVal(v.n)
        if not E.spec_mode:
            E.oblige('lib-pre', n >= 1, node, 'median of a non-empty array')
        meta = getattr(v, 'meta', {})
        if 'g' in meta:          # strictly increasing indices
            first = to_int(E.rd(v, 0))
            last = to_int(E.rd(v, n - 1))
            E.assume(z3.Implies(n >= 1, z3.And(z3.ToReal(first) <= r, r <= z3.ToReal(last))))
        return Z(r, REAL)
    raise Unsupported('np.median(%r)' % (v,))


@method('Arr.flatten')
def arr_flatten(E, a, args, node):
    from . import grid
    if grid.is_grid(a):
        return grid.grid_flatten(E, a, node)
    if a.ndim == 1:
        return E.snapshot(a)
    raise Unsupported('flatten')


@method('Arr.reshape')
def arr_reshape(E, a, args, node):
    from . import grid
    if grid.is_grid(a):
        return grid.grid_reshape(E, a, args.pos, node)
    raise Unsupported('reshape')


@libfn('numpy.swapaxes')
def np_swapaxes(E, args, node):
    from . import grid
    a = args.pos[0]
    if grid.is_grid(a):
        return grid.grid_swapaxes(E, a, args.pos[1], args.pos[2], node)
    raise Unsupported('swapaxes')


@libfn('importlib.import_module')
def importlib_import_module(E, args, node):
    """an optional dependency: either the module (an opaque value) or ImportError - both outcomes are explored"""
    if E.choose(2, 'import') == 1:
        raise RaiseSig('ImportError', node, 'module not installed')
    return Opaque(z3.Const(fresh_name('module'), ValSort), 'module')


@method('Opaque.tqdm')
def tqdm_tqdm(E, mod, args, node):
    """ASSUMED contract of tqdm.tqdm(iterable, ...): iterating the wrapper yields the items of the iterable, in its order;
    as far as items and order go the wrapper IS the iterable"""
    if getattr(mod, 'note', None) != 'module':
        raise Unsupported('.tqdm on %r' % (mod,))
    return args.get(0, 'iterable')


@libfn('copy.copy')
def copy_copy(E, args, node):
    """shallow copy: a new container holding the SAME element objects"""
    from . import grid
    v = args.pos[0]
    if grid.is_grid(v):
        clo = E.st.heap[v.ident]
        return grid.grid(E, v.shape, v.lead, clo, v.kind, owner=grid.owner_of(v))
    if isinstance(v, Opaque) and getattr(v, 'cell', None) is not None:
        o = Opaque(v.t, v.note)
        o.cell = {'ident': E.new_ident(True), 't': v.t}
        return o
    if isinstance(v, SDict):
        return sdict_copy(E, v, args, node)
    if isinstance(v, Arr):
        return E.snapshot(v)
    if v is None or isinstance(v, (int, float, str, bool, Z, X)):
        return v
    raise Unsupported('copy of %r' % (v,))


@libfn('numpy.arange')
def np_arange(E, args, node):
    p = args.pos
    if len(p) == 1:
        lo, hi, st = 0, p[0], 1
    elif len(p) == 2:
        lo, hi, st = p[0], p[1], 1
    else:
        lo, hi, st = p[0], p[1], p[2]
    vals = [lift(v) for v in (lo, hi, st)]
    if not all(v.ty in (INT, BOOL) for v in vals):
        # np.arange(0, k / d, 1 / d) with the same positive d: the sample grid i / d, i < k, over the reals (the float
        # grid can have one element more or fewer and its entries are rounded: real-arithmetic idealisation, see DESIGN 7)
        lo_r, hi_r, st_r = [z3.simplify(to_real(v)) for v in vals]
        if z3.is_rational_value(lo_r) and lo_r.as_fraction() == 0 and z3.is_div(hi_r) and z3.is_div(st_r) \
                and hi_r.arg(1).eq(st_r.arg(1)) and z3.is_rational_value(st_r.arg(0)) and st_r.arg(0).as_fraction() == 1 \
                and E.decide(st_r.arg(1) > 0) is True:
            k_, d_ = hi_r.arg(0), hi_r.arg(1)
            if z3.is_to_real(k_):
                k_int = k_.arg(0)
            elif z3.is_rational_value(k_) and k_.as_fraction().denominator == 1:
                k_int = z3.IntVal(int(k_.as_fraction()))
            else:
                raise Unsupported('float arange with a non-integral extent')
            n = z3.simplify(z3.If(k_int > 0, k_int, z3.IntVal(0)))
            r = E.new_arr(n, REAL, lambda i, d_=d_: Z(z3.ToReal(i) / d_, REAL))
            r.meta = {'sample_grid': d_}
            E.stats.setdefault('definitions', []).append('%s: np.arange(0, k/d, 1/d) taken as the exact grid i/d (real arithmetic)' % E.fn_short)
            return r
        raise Unsupported('float arange')
    lo_t, hi_t, st_t = [to_int(v) for v in vals]
    if not E.spec_mode:
        E.oblige('lib-pre', st_t > 0, node, 'positive arange step')
    n = z3.If(hi_t > lo_t, (hi_t - lo_t + st_t - 1) / st_t, z3.IntVal(0))
    return E.new_arr(z3.simplify(n), INT, lambda i: Z(lo_t + i * st_t, INT))


@method('Frame.reset_index')
def frame_reset_index(E, f, args, node):
    """row labels are not modelled (tables are indexed by position): a no-op on the contents"""
    if args.kw.get('inplace', False) is True:
        E.mutate(f.ident, node, 'reset_index(inplace=True)')
        return None
    return frame_copy(E, f, args, node)


@libfn('numpy.interp')
def np_interp(E, args, node):
    """ASSUMED library contract of np.interp(x, xp, fp) for a non-empty, strictly increasing xp and finite fp (both are
    obligations at the call): the result has x's length and is finite; equals fp[0] / fp[-1] at and outside the end
    knots; takes the value fp[k] where x equals xp[k]; every x in [xp[0], xp[-1]) lies in some [xp[s], xp[s+1]); and on every
    knot interval [xp[s], xp[s+1]] it is strictly
    increasing, strictly decreasing or constant in x according to fp[s] <, >, == fp[s+1].  (Weaker than the exact
    linear formula, which is not needed and would bring nonlinear arithmetic; true of it in real arithmetic.)"""
    x, xp, fp = args.get(0, 'x'), args.get(1, 'xp'), args.get(2, 'fp')
    if not all(isinstance(v, Arr) and v.ndim == 1 for v in (x, xp, fp)) or args.kw:
        raise Unsupported('np.interp of %r' % ((x, xp, fp),))
    n = x.n if not isinstance(x.n, int) else z3.IntVal(x.n)
    m = xp.n if not isinstance(xp.n, int) else z3.IntVal(xp.n)
    num = lambda a, i: to_real(lift(E.rd(a, i))) if a.ty != XR else None
    if x.ty == XR or xp.ty == XR:
        raise Unsupported('np.interp over possibly non-finite abscissae')
    X_ = lambda i: num(x, i)
    XP = lambda k: num(xp, k)
    FP = lambda k: xops.to_x(E.rd(fp, k))
    k = z3.Int(fresh_name('k'))
    if not E.spec_mode:
        # proof hook just before the call's own obligations (the selected knots exist only as arguments)
        E.st.ghost['interp_args'] = dict(x=x, xp=xp, fp=fp)
        E.run_hook(('before_lib', 'numpy.interp', len(E.st.ghost.get('interp', [])) + 1), node)
        E.oblige('lib-pre', z3.And(m >= 1, _eq_len(xp.n, fp.n)), node, 'np.interp: sample points non-empty, fp of the same length')
        E.oblige('lib-pre', z3.ForAll([k], z3.Implies(z3.And(k >= 0, k < m - 1), XP(k) < XP(k + 1))), node,
                 'np.interp: sample points strictly increasing')
        E.oblige('lib-pre', z3.ForAll([k], z3.Implies(z3.And(k >= 0, k < m), xops.isfin(FP(k)))), node,
                 'np.interp: finite values')
    out = E.new_arr(z3.simplify(n), XR, base='interp')
    O = lambda i: E.rd(out, i)
    seg = z3.Function(fresh_name('seg'), z3.IntSort(), z3.IntSort())
    i, i2, s = z3.Int(fresh_name('i')), z3.Int(fresh_name('i')), z3.Int(fresh_name('s'))
    inr = lambda v: z3.And(v >= 0, v < n)
    lt, eq = xops.lt, xops.eq
    sch = dict(
        fin=lambda a: z3.Implies(inr(a), z3.And(xops.isfin(O(a)), xops.wf(O(a).t))),
        left=lambda a: z3.Implies(z3.And(inr(a), X_(a) <= XP(0)), xops.same(O(a), FP(0))),
        right=lambda a: z3.Implies(z3.And(inr(a), X_(a) >= XP(m - 1)), xops.same(O(a), FP(m - 1))),
        seg=lambda a: z3.Implies(z3.And(inr(a), m >= 2, XP(0) <= X_(a), X_(a) < XP(m - 1)),
                                 z3.And(seg(a) >= 0, seg(a) <= m - 2, XP(seg(a)) <= X_(a), X_(a) < XP(seg(a) + 1))),
        knot=lambda a, b: z3.Implies(z3.And(inr(a), b >= 0, b < m, X_(a) == XP(b)), xops.same(O(a), FP(b))),
        mono=lambda a, a2, b: z3.Implies(
            z3.And(inr(a), inr(a2), b >= 0, b < m - 1, XP(b) <= X_(a), X_(a) < X_(a2), X_(a2) <= XP(b + 1)),
            z3.And(z3.Implies(lt(FP(b), FP(b + 1)), lt(O(a), O(a2))),
                   z3.Implies(lt(FP(b + 1), FP(b)), lt(O(a2), O(a))),
                   z3.Implies(xops.same(FP(b), FP(b + 1)), xops.same(O(a), O(a2))))))
    ax = [z3.ForAll([i], sch['fin'](i)), z3.ForAll([i], sch['left'](i)), z3.ForAll([i], sch['right'](i)),
          z3.ForAll([i], sch['seg'](i)), z3.ForAll([i, s], sch['knot'](i, s)), z3.ForAll([i, i2, s], sch['mono'](i, i2, s))]
    for f in ax:
        E.assumptions_quant(f)
    cnt = len(E.st.ghost.setdefault('interp', []))
    E.st.ghost['interp'].append(dict(out=out, x=x, xp=xp, fp=fp, seg=seg, m=m, n=n, sch=sch))
    E.st.ghost.setdefault('facts', {})['interp#%d' % (cnt + 1)] = ax
    E.stats.setdefault('definitions', [])
    return out


@libfn('neurodsp.plts.plot_time_series', 'neurodsp.plts.time_series.plot_time_series')
def nd_plot_time_series(E, args, node):
    """external drawing routine: nothing is assumed about it; the call and its arguments are logged (ghost state), so that
    contracts can state WHAT is handed to it (call_arg)"""
    bound = {'times': args.get(0, 'times'), 'sigs': args.get(1, 'sigs')}
    for k, v in args.kw.items():
        bound[k] = v
    for d in args.star_kw:
        if isinstance(d, SDict):
            for k, (pres, v) in d.items.items():
                if pres is True:
                    bound[k] = v
    E.st.calls.append(('neurodsp.plts.plot_time_series', bound, None))
    if bound.get('ls') == '':
        # a call without a line style draws markers only: logged a second time under a name of its own, so that a contract
        # can speak about "the marker call" whatever else is drawn before or after it
        E.st.calls.append(('neurodsp.plts.plot_time_series:markers', bound, None))
    return None


@libfn('numpy.unique')
def np_unique(E, args, node):
    """ASSUMED contract of np.unique(a) for a 1-D integer / real array: the result is strictly increasing, each of its
    entries occurs in a, and each entry of a occurs in it (two witness functions)"""
    a = args.pos[0]
    if not isinstance(a, Arr) or a.ndim != 1 or a.ty not in (INT, REAL) or args.kw or len(args.pos) != 1:
        raise Unsupported('np.unique of %r' % (a,))
    n = a.n if not isinstance(a.n, int) else z3.IntVal(a.n)
    m = z3.Int(fresh_name('uniq.len'))
    out = E.new_arr(m, a.ty, base='uniq')
    src = z3.Function(fresh_name('uniq.src'), z3.IntSort(), z3.IntSort())      # where out[j] comes from
    pos = z3.Function(fresh_name('uniq.pos'), z3.IntSort(), z3.IntSort())      # where a[i] went
    i, j = z3.Int(fresh_name('i')), z3.Int(fresh_name('j'))
    A = lambda x: E.rd(a, x).t
    O = lambda x: E.rd(out, x).t
    ax = [z3.And(m >= 0, m <= n, z3.Implies(n > 0, m >= 1)),
          z3.ForAll([j], z3.Implies(z3.And(j >= 0, j < m - 1), O(j) < O(j + 1))),
          z3.ForAll([j], z3.Implies(z3.And(j >= 0, j < m), z3.And(src(j) >= 0, src(j) < n, A(src(j)) == O(j)))),
          z3.ForAll([i], z3.Implies(z3.And(i >= 0, i < n), z3.And(pos(i) >= 0, pos(i) < m, O(pos(i)) == A(i))))]
    for f in ax:
        E.assumptions_quant(f)
    cnt = len(E.st.ghost.setdefault('unique', []))
    E.st.ghost['unique'].append(dict(out=out, a=a, src=src, pos=pos, m=m))
    E.st.ghost.setdefault('facts', {})['unique#%d' % (cnt + 1)] = ax
    return out


@libfn('bycycle.plts.burst.plot_burst_detect_summary', 'bycycle.plts.plot_burst_detect_summary')
def byc_plot_summary_logged(E, args, node):
    """the burst summary plot as seen from Bycycle.plot: NOT verified here (C20 decides it on the bounded side) - the call is
    bound against its real signature and logged, so that the caller's contract can state what it hands over; assumed: it
    returns None, raises nothing and changes none of its arguments"""
    bound = bind_params(E, 'bycycle.plts.burst.plot_burst_detect_summary', args, node)
    E.st.calls.append(('bycycle.plts.burst.plot_burst_detect_summary', bound, None))
    return None


@method('Opaque.axvspan')
def ax_axvspan(E, ax, args, node):
    """matplotlib Axes.axvspan on an opaque drawing surface: external, nothing assumed; logged as ghost state"""
    E.st.calls.append(('matplotlib.axes.Axes.axvspan', {'xmin': args.get(0, 'xmin'), 'xmax': args.get(1, 'xmax')}, None))
    return None


@libfn('scipy.stats.zscore')
def sp_zscore(E, args, node):
    """external: an unconstrained real array of the input's length"""
    a = args.pos[0]
    if not isinstance(a, Arr) or a.ndim != 1:
        raise Unsupported('zscore of %r' % (a,))
    return E.new_arr(a.n, REAL, base='zscore')


AXES_AT = z3.Function('axes_at', ValSort, z3.IntSort(), ValSort)


@libfn('matplotlib.pyplot.subplots')
def plt_subplots(E, args, node):
    """external: (figure, axes) - one opaque drawing surface when nrows is 1 (or absent), otherwise an array of nrows of them"""
    nrows = args.kw.get('nrows', 1)
    fig = Opaque(z3.Const(fresh_name('figure'), ValSort), 'figure')
    if isinstance(nrows, int) and nrows == 1:
        return (fig, Opaque(z3.Const(fresh_name('axes'), ValSort), 'axes'))
    base = z3.Const(fresh_name('axes_array'), ValSort)
    n = term_int(nrows)
    from . import grid
    g = grid.grid(E, (z3.simplify(n),), 1, (lambda i, base=base: Opaque(AXES_AT(base, i), 'axes')), 'ndarray')
    return (fig, g)


@libfn('neurodsp.plts.plot_bursts', 'neurodsp.plts.time_series.plot_bursts')
def nd_plot_bursts(E, args, node):
    """external drawing routine (trace with the bursting samples highlighted): nothing assumed, the call is logged"""
    bound = {'times': args.get(0, 'times'), 'sig': args.get(1, 'sig'), 'bursting': args.get(2, 'bursting')}
    for k, v in args.kw.items():
        bound[k] = v
    E.st.calls.append(('neurodsp.plts.plot_bursts', bound, None))
    return None


@libfn('itertools.cycle')
def it_cycle(E, args, node):
    v = args.pos[0]
    items = list(v.items) if isinstance(v, PyList) else (list(v) if isinstance(v, (tuple, list)) else None)
    if not items:
        raise Unsupported('cycle(%r)' % (v,))
    return {'__cycle__': items, 'pos': 0}
