"""bycycle.features.features.compute_features and drop_samples_df — C01, C04-C07, C15, C19 at the top-level entry."""
import z3

from . import contract
from .features_burst import SHAPE_COLS, sample_cols, burst_feature_specs, burst_fraction_spec, BK_KEYS
from .burst import FEATS, THRS
from .features_shape import shape_specs, table_row_invariant
from .cyclepoints import FE_KEYS, fe_args
from vf.values import BOOL, INT, REAL, XR, STR, Frame, fresh_name


# ------------------------------------------------------------------------------------------------ drop_samples_df
def _dropped(E, env):
    f = env['df_features']
    cols = {c: E.new_arr(f.n, a.ty, kind='series', base='drop.' + c) for c, a in f.cols.items()
            if not c.startswith('sample_')}
    return Frame(E.new_ident(), f.n, cols)


def _drop_cases():
    out = []
    for centre in ('peak', 'trough'):
        for method, extra in (('cycles', {f: XR for f in FEATS}), ('amp', {'burst_fraction': XR})):
            cols = dict(SHAPE_COLS)
            cols.update(extra)
            cols['is_burst'] = BOOL
            keep = list(cols)
            for c in sample_cols(centre):
                cols[c] = INT
            out.append(dict(
                label='%s,%s' % (centre, method), params={'df_features': ('frame', cols)},
                # C18: the non-sample columns, unaltered; nothing else
                ensures=["len(result) == len(df_features)", "ncols(result) == %d" % len(keep)] +
                        ["forall(i, 0 <= i < len(result), same(result['%s'][i], df_features['%s'][i]))" % (c, c)
                         for c in keep]))
    return out


contract('bycycle.utils.dataframes.drop_samples_df', cases=_drop_cases(), modifies=[], result=_dropped)

# ------------------------------------------------------------------------------------------------ compute_features
TK_CYCLES = dict({t: REAL for t in THRS}, min_n_cycles=INT)
TK_AMP = {'burst_fraction_threshold': REAL, 'min_n_cycles': INT}
DEFAULTS = {'amp_fraction_threshold': '0.', 'amp_consistency_threshold': '.5', 'period_consistency_threshold': '.5',
            'monotonicity_threshold': '.8', 'burst_fraction_threshold': '1', 'min_n_cycles': '3'}


def opt(d, k, default, is_dict):
    if not is_dict:
        return default
    return "(value(%s, '%s') if present(%s, '%s') else %s)" % (d, k, d, k, default)


def _cf_result(E, env):
    centre, method, rs = env['center_extrema'], env['burst_method'], env['return_samples']
    n = z3.Int(fresh_name('cf.nrows'))
    E.assume(n >= 0)
    types = dict(SHAPE_COLS)
    types.update({'volt_peak': REAL, 'volt_trough': REAL, 'volt_decay': REAL, 'volt_rise': REAL})
    cols = {}
    feats = {f: XR for f in FEATS} if method == 'cycles' else {'burst_fraction': XR}
    for c, ty in list(feats.items()) + list(types.items()):
        cols[c] = E.new_arr(n, ty, kind='series', base='cf.' + c)
    if rs is True:
        for c in sample_cols(centre):
            cols[c] = E.new_arr(n, INT, kind='series', base='cf.' + c)
    cols['is_burst'] = E.new_arr(n, BOOL, kind='series', base='cf.is_burst')
    return Frame(E.new_ident(), n, cols)


def _cf_cases():
    out = []
    for centre in ('peak', 'trough'):
        s = 'sig' if centre == 'peak' else '(-sig)'
        for method in ('cycles', 'amp'):
            for bk in (False, True):
                for tk in (False, True):
                    for fek in (False, True):
                        for rs in (True, False):
                            label = '%s,%s,bk=%s,tk=%s,fek=%s,samples=%s' % (
                                centre, method, 'dict' if bk else 'None', 'dict' if tk else 'None',
                                'dict' if fek else 'None', rs)
                            params = {'sig': ('arr', REAL), 'fs': REAL, 'f_range': ('tuple', [REAL, REAL]),
                                      'center_extrema': ('const', centre), 'burst_method': ('const', method),
                                      'burst_kwargs': ('dict', {k: v for k, v in BK_KEYS.items()
                                                                if k not in ('fs', 'f_range')}) if bk else 'none',
                                      'threshold_kwargs': ('dict', TK_CYCLES if method == 'cycles' else TK_AMP) if tk else 'none',
                                      'find_extrema_kwargs': ('dict', FE_KEYS) if fek else 'none',
                                      'return_samples': ('const', rs)}
                            if fek:
                                bnd = "(value(find_extrema_kwargs, 'boundary') if present(find_extrema_kwargs, 'boundary') else 0)"
                                osc = "osc3(%s, fs, f_range, %s)" % (s, fe_args('find_extrema_kwargs'))
                                req = ["present(find_extrema_kwargs, 'first_extrema') or (" + osc + " and " + bnd + " >= 0)"]
                                bad = ["present(find_extrema_kwargs, 'first_extrema')"]
                            else:
                                bnd = '0'
                                req = ["osc3(%s, fs, f_range, 0, {'n_cycles': 3}, 'bandpass', True)" % s]
                                bad = []
                            bad.append("fs < 0")
                            T = "result" if rs else "call_arg('bycycle.utils.dataframes.drop_samples_df', 'df_features')"
                            ens = ["len(result) >= 1", "len(result) == len(%s)" % T]
                            ens += table_row_invariant(T, centre, 'len(sig)', bnd)
                            ens += shape_specs(T, centre, amp_args="fs, f_range, remove_edges=False, n_cycles=3")
                            M_th = opt('threshold_kwargs', 'min_n_cycles', '3', tk)
                            if method == 'cycles':
                                ens += burst_feature_specs(T, centre, res=T)
                                thr = {t: opt('threshold_kwargs', t, DEFAULTS[t], tk) for t in THRS}
                                q = ("arrdef(j, len({T}), 0 < j < len({T}) - 1 and " + " and ".join(
                                    "{T}['%s'][j] > %s" % (f, thr[t]) for f, t in zip(FEATS, THRS)) + ")").format(T=T)
                                ens.append("forall(i, 0 <= i < len(result), result['is_burst'][i] == minrun(%s, %s, i))" % (q, M_th))
                                bad += ["%s < 0 or %s > 1" % (thr[t], thr[t]) for t in THRS]
                                bad.append("%s < 0" % M_th)
                                cols_expected = len(SHAPE_COLS) + 4 + 1 + (6 if rs else 0)
                            else:
                                M = opt('burst_kwargs', 'min_n_cycles', M_th, bk)
                                amp = opt('burst_kwargs', 'amp_threshes', '(1, 2)', bk)
                                dur = opt('burst_kwargs', 'min_burst_duration', 'None', bk)
                                mnc_det = ("(None if present(burst_kwargs, 'min_burst_duration') else %s)" % M) if bk else M
                                fk = ''
                                if bk:
                                    # filter options either absent or given: two sub-cases by requirement
                                    pass
                                bf = burst_fraction_spec(T, centre, T, 'fs', 'f_range', amp, mnc_det, dur, '@FK@')
                                thr_bf = opt('threshold_kwargs', 'burst_fraction_threshold', '1', tk)
                                qa = "arrdef(j, len({T}), {T}['burst_fraction'][j] >= {t})".format(T=T, t=thr_bf)
                                ens_tail = ["forall(i, 0 <= i < len(result), result['is_burst'][i] == minrun(%s, %s, i))" % (qa, M)]
                                bad += ["%s < 0 or %s > 1" % (thr_bf, thr_bf), "%s < 0" % M,
                                        "%s[0] < 0 or %s[0] > %s[1]" % (amp, amp, amp)]
                                cols_expected = len(SHAPE_COLS) + 1 + 1 + (6 if rs else 0)
                                if bk:
                                    for fkl, fkreq, fks in (('fk=absent', "not present(burst_kwargs, 'filter_kwargs')", ''),
                                                            ('fk=given', "present(burst_kwargs, 'filter_kwargs')",
                                                             ", **value(burst_kwargs, 'filter_kwargs')")):
                                        out.append(dict(label=label + ',' + fkl, params=params, requires=req + [fkreq],
                                                        raises={'ValueError': " or ".join("(%s)" % b for b in bad)},
                                                        ensures=ens + [bf.replace('@FK@', fks)] + ens_tail +
                                                        ["ncols(result) == %d" % cols_expected]))
                                    continue
                                ens += [bf.replace('@FK@', '')] + ens_tail
                            ens.append("ncols(result) == %d" % cols_expected)
                            out.append(dict(label=label, params=params, requires=req,
                                            raises={'ValueError': " or ".join("(%s)" % b for b in bad)}, ensures=ens))
    base = {'sig': ('arr', REAL), 'fs': REAL, 'f_range': ('tuple', [REAL, REAL]), 'burst_kwargs': 'none',
            'threshold_kwargs': 'none', 'find_extrema_kwargs': 'none', 'return_samples': BOOL}
    out.append(dict(label='other-centre', params=dict(base, center_extrema=STR, burst_method=('const', 'cycles')),
                    requires=["center_extrema != 'peak' and center_extrema != 'trough'"], raises={'ValueError': 'True'}))
    out.append(dict(label='other-method', params=dict(base, center_extrema=('const', 'peak'), burst_method=STR),
                    requires=["burst_method != 'cycles' and burst_method != 'amp'",
                              "osc3(sig, fs, f_range, 0, {'n_cycles': 3}, 'bandpass', True)"],
                    raises={'ValueError': 'True'}))
    return out


contract('bycycle.features.features.compute_features', cases=_cf_cases(), modifies=[], result=_cf_result)
