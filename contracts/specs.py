"""Spec functions (the oracles of DESIGN.md section 3), as terms for the deductive side.

Array-valued arguments are *materialised* (vf.engine.Engine.mat) so that arrays that agree on their range are
equal terms; the functions themselves are uninterpreted symbols whose defining axioms are supplied, as explicit
`unfold` steps, only in the proofs that need them (modular reasoning: a caller of check_min_burst_cycles sees
MR(...) as an opaque function of the mask, the count and the position).
"""
import z3

from vf.spec import specfn, form
from vf.values import Z, X, INT, REAL, BOOL, XR, Arr, fresh_name
from vf.engine import zbool, lift, Unsupported
from vf.lib import term_int

BoolArr = z3.ArraySort(z3.IntSort(), z3.BoolSort())
IntArr = z3.ArraySort(z3.IntSort(), z3.IntSort())
RealArr = z3.ArraySort(z3.IntSort(), z3.RealSort())

# MR(b, n, m, i): position i of the boolean array b[0:n] lies in a run of True of length >= m
MR = z3.Function('minrun', BoolArr, z3.IntSort(), z3.IntSort(), z3.IntSort(), z3.BoolSort())


def minrun_def(A, n, m, i):
    """the definition of MR at (A, n, m, i): A[i] and some window [a, c) of length >= m of True around i"""
    a = z3.Int(fresh_name('a'))
    c = z3.Int(fresh_name('c'))
    k = z3.Int(fresh_name('k'))
    window = z3.Exists([a, c], z3.And(0 <= a, a <= i, i < c, c <= n, c - a >= m,
                                      z3.ForAll([k], z3.Implies(z3.And(a <= k, k < c), z3.Select(A, k)))))
    return z3.And(0 <= i, i < n, z3.Select(A, i), window)


def minrun_skolem(A, n, m):
    """the same definition with the existential skolemised: witness functions lo(i), hi(i).
    D1(i): MR(i) => i in range, A[i], and [lo(i), hi(i)) is a window of True of length >= m around i
    D2(i, a, c): any such window [a, c) around a True position i makes MR(i)
    (D1 and D2 together are equivalent to MR(i) <=> minrun_def(i); a conservative definitional extension)"""
    tag = str(A.get_id())
    lo = z3.Function('minrun_lo_' + tag, z3.IntSort(), z3.IntSort())
    hi = z3.Function('minrun_hi_' + tag, z3.IntSort(), z3.IntSort())
    k = z3.Int('mr_k')

    def window(a, c):
        return z3.ForAll([k], z3.Implies(z3.And(a <= k, k < c), z3.Select(A, k)))

    def D1(i):
        return z3.Implies(MR(A, n, m, i),
                          z3.And(0 <= i, i < n, z3.Select(A, i), 0 <= lo(i), lo(i) <= i, i < hi(i), hi(i) <= n,
                                 hi(i) - lo(i) >= m, window(lo(i), hi(i))))

    def D2(i, a, c):
        return z3.Implies(z3.And(0 <= i, i < n, z3.Select(A, i), 0 <= a, a <= i, i < c, c <= n, c - a >= m, window(a, c)),
                          MR(A, n, m, i))
    return lo, hi, window, D1, D2


@specfn('minrun')
def minrun(E, b, m, i):
    if not isinstance(b, Arr) or b.ty != BOOL:
        raise Unsupported('minrun over %r' % (b,))
    return Z(MR(E.mat(b), term_int(lib_len(b)), term_int(m), term_int(i)), BOOL)


def lib_len(a):
    return a.n if isinstance(a.n, int) else Z(a.n, INT)


# ------------------------------------------------------------------------------------------------
# C05 spec functions (extended reals)
# ------------------------------------------------------------------------------------------------
from vf import xops          # noqa: E402
from vf.values import STR, str_code   # noqa: E402


def _x(E, a, i):
    return xops.to_x(E.rd(a, i))


def ratio(a, b):
    """min/max ratio with numpy semantics (nan-propagating min/max, x/0 -> inf/nan)"""
    return xops.ratio(a, b)


def clamp0(x):
    return xops.clamp0(x)


def _dir_is(E, direction, name):
    r = E.eq(direction, name)
    return z3.BoolVal(r) if isinstance(r, bool) else r.t


def _ac_raw(E, rises, decays, peak_centred, direction, c):
    c = term_int(c)
    cur = ratio(_x(E, rises, c), _x(E, decays, c))
    if peak_centred:
        last = ratio(_x(E, rises, c), _x(E, decays, c - 1))
        nxt = ratio(_x(E, rises, c + 1), _x(E, decays, c))
    else:
        last = ratio(_x(E, rises, c - 1), _x(E, decays, c))
        nxt = ratio(_x(E, rises, c), _x(E, decays, c + 1))
    both = xops.nanmin2(xops.nanmin2(cur, nxt), last)
    v = xops.ite(_dir_is(E, direction, 'next'), xops.nanmin2(cur, nxt),
                 xops.ite(_dir_is(E, direction, 'last'), xops.nanmin2(cur, last), both))
    allnan = z3.And(xops.isnan(cur), xops.isnan(nxt), xops.isnan(last))
    return xops.ite(allnan, xops.nan(), v)


@specfn('amp_consistency_raw_spec')
def amp_consistency_raw_spec(E, rises, decays, peak_centred, direction, c):
    return _ac_raw(E, rises, decays, peak_centred, direction, c)


@specfn('amp_consistency_spec')
def amp_consistency_spec(E, rises, decays, peak_centred, direction, c):
    """C05: the smallest min/max ratio among the adjacent rise/decay pairs that include one of the cycle's flanks
    (three pairs for 'both', the two on the named side otherwise), clamped at 0; nan if all ratios are nan."""
    return clamp0(_ac_raw(E, rises, decays, peak_centred, direction, c))


@specfn('period_consistency_spec')
def period_consistency_spec(E, periods, direction, c):
    c = term_int(c)
    p = lambda j: _x(E, periods, j)
    last = ratio(p(c), p(c - 1))
    nxt = ratio(p(c + 1), p(c))
    both = xops.np_min2(nxt, last)
    return xops.ite(_dir_is(E, direction, 'next'), nxt, xops.ite(_dir_is(E, direction, 'last'), last, both))


@form('xnan')
def f_xnan(E, node):
    return xops.nan()


# ------------------------------------------------------------------------------------------------
# lemmas over minrun (pure logic, from the definition)
# ------------------------------------------------------------------------------------------------
from vf.lemmas import lemma    # noqa: E402


@lemma('minrun_monotone')
def minrun_monotone():
    """q subset of q', m >= m'  ==>  minrun(q, m) subset of minrun(q', m')   (C06/C07: raising a threshold or the
    minimum run length can only remove labels; C16: growing q keeps old bursts)"""
    A = z3.Array('A', z3.IntSort(), z3.BoolSort())
    B = z3.Array('B', z3.IntSort(), z3.BoolSort())
    n, m, m2, i, k = z3.Ints('n m m2 i k')
    sub = z3.ForAll([k], z3.Implies(z3.And(0 <= k, k < n, z3.Select(A, k)), z3.Select(B, k)))
    # unfold the definition on the hypothesis side to get the witnesses, re-fold on the goal side
    a0, c0 = z3.Ints('a0 c0')
    hyp_window = z3.And(0 <= a0, a0 <= i, i < c0, c0 <= n, c0 - a0 >= m,
                        z3.ForAll([k], z3.Implies(z3.And(a0 <= k, k < c0), z3.Select(A, k))))
    k2 = z3.Int('k2')
    goal_window = z3.And(0 <= a0, a0 <= i, i < c0, c0 <= n, c0 - a0 >= m2,
                         z3.ForAll([k2], z3.Implies(z3.And(a0 <= k2, k2 < c0), z3.Select(B, k2))))
    steps = [
        ('same-window-works', [sub, m >= m2, 0 <= i, i < n, z3.Select(A, i), hyp_window],
         z3.And(z3.Select(B, i), goal_window)),
        # the definition really is "exists a window": the skolemised hypothesis above is what minrun_def gives
        ('definition-shape', [minrun_def(A, n, m, i)],
         z3.Exists([a0, c0], z3.And(z3.Select(A, i), hyp_window))),
        ('fold', [z3.Select(B, i), 0 <= i, i < n, goal_window], minrun_def(B, n, m2, i)),
    ]
    return steps


@lemma('minrun_props')
def minrun_props():
    """C08 consequences of the definition: no False -> True; m <= 1 keeps the array; m > n clears it; a kept position's
    window consists of kept positions (the step that makes the filter idempotent)"""
    A = z3.Array('A', z3.IntSort(), z3.BoolSort())
    n, m, i, k, a0, c0 = z3.Ints('n m i k a0 c0')
    steps = [
        ('no-false-to-true', [minrun_def(A, n, m, i)], z3.Select(A, i)),
        ('m-le-1-identity', [m <= 1, 0 <= i, i < n, z3.Select(A, i),
                             # witness window [i, i+1)
                             z3.BoolVal(True)],
         z3.And(0 <= i, i < i + 1, i + 1 <= n, (i + 1) - i >= m,
                z3.ForAll([k], z3.Implies(z3.And(i <= k, k < i + 1), z3.Select(A, k))))),
        ('m-gt-n-clears', [m > n, n >= 0], z3.Not(minrun_def(A, n, m, i))),
        # idempotence step: if [a0, c0) is a True window of length >= m around i, then every j in it has the same window
        ('window-members-kept', [0 <= a0, a0 <= i, i < c0, c0 <= n, c0 - a0 >= m,
                                 z3.ForAll([k], z3.Implies(z3.And(a0 <= k, k < c0), z3.Select(A, k))),
                                 a0 <= z3.Int('j'), z3.Int('j') < c0],
         z3.And(z3.Select(A, z3.Int('j')), 0 <= a0, a0 <= z3.Int('j'), z3.Int('j') < c0, c0 <= n, c0 - a0 >= m)),
    ]
    return steps


@lemma('minrun_idempotent')
def minrun_idempotent():
    """applying the filter twice changes nothing: with B'[k] = minrun(B, n, m, k) on [0, n), minrun(B', n, m, i) == B'[i]"""
    B = z3.Array('B', z3.IntSort(), z3.BoolSort())
    B2 = z3.Array('B2', z3.IntSort(), z3.BoolSort())
    n, m, i, k, a0, c0, x = z3.Ints('n m i k a0 c0 x')
    # B2 is the filtered array (normalised outside the range like every materialised array)
    def_B2 = lambda v: z3.Select(B2, v) == z3.If(z3.And(0 <= v, v < n), minrun_def(B, n, m, v), False)
    win = lambda arr, lo, hi: z3.ForAll([k], z3.Implies(z3.And(lo <= k, k < hi), z3.Select(arr, k)))
    window_hyp = z3.And(0 <= a0, a0 <= i, i < c0, c0 <= n, c0 - a0 >= m, win(B, a0, c0))
    steps = [
        # (1) every member x of a True window of length >= m is itself kept (same window is its witness)
        ('members-kept', [window_hyp, a0 <= x, x < c0],
         z3.And(0 <= x, x < n, z3.Select(B, x),
                z3.And(0 <= a0, a0 <= x, x < c0, c0 <= n, c0 - a0 >= m, win(B, a0, c0)))),
        # (2) hence, if B2 is the filtered array, the window is also a True window of B2
        ('window-transfers', [window_hyp, z3.ForAll([x], def_B2(x)),
                              z3.ForAll([x], z3.Implies(z3.And(a0 <= x, x < c0), minrun_def(B, n, m, x)))],
         win(B2, a0, c0)),
        # (3) second application keeps what the first kept
        ('kept-stays', [0 <= i, i < n, z3.Select(B2, i), def_B2(i), window_hyp, win(B2, a0, c0)], minrun_def(B2, n, m, i)),
        # (4) and never adds anything
        ('nothing-added', [minrun_def(B2, n, m, i)], z3.Select(B2, i)),
    ]
    return steps


@lemma('epoch_partition')
def epoch_partition():
    """C13: the windows (e*L, (e+1)*L], e = 0 .. N-1 with N = ceil(n / L) - exactly the windows epoch_df builds from
    np.arange(L, n + L, L) and for which its per-epoch postcondition is proved - partition the closing samples 0 < s <= N*L:
    every cycle of the flattened analysis lands in exactly one epoch, the one whose window contains its closing sample.
    (Products of two unknowns: nonlinear integer arithmetic, but each step is one multiplication fact.)"""
    s_, L, N, n, e1, e2 = z3.Ints('s L N n e1 e2')
    e = (s_ - 1) / L
    win = lambda ee, ss: z3.And(ee * L < ss, ss <= (ee + 1) * L)
    return [
        # the epoch that contains closing sample s is (s - 1) div L
        ('exists/window', [L > 0, s_ > 0], win(e, s_)),
        ('exists/index', [L > 0, s_ > 0, s_ <= N * L, win(e, s_)], z3.And(e >= 0, e < N)),
        # no other epoch contains it
        ('unique/gap', [L > 0, e1 + 1 <= e2], (e2 - e1 - 1) * L >= 0),
        ('unique', [L > 0, win(e1, s_), win(e2, s_), z3.Implies(e1 + 1 <= e2, (e2 - e1 - 1) * L >= 0),
                    z3.Implies(e2 + 1 <= e1, (e1 - e2 - 1) * L >= 0)], e1 == e2),
        # the N windows cover every sample of the signal, and the last one is not beyond need
        ('cover', [L > 0, n > 0, N == (n + L - 1) / L], z3.And(N >= 1, N * L >= n, (N - 1) * L < n)),
    ]
