"""C20: what the plotting functions hand to the external drawing routines (argument-level ghost log), on corpus tables."""
import copy
import random

import numpy as np
import pandas as pd

from .core import job, stable_hash
from . import oracles as O
from .signals import FAMILIES, make_signal
from .jobs_pipeline import TH_PRESETS


class Recorder:
    def __init__(self):
        self.calls = []

    def make(self, name):
        def f(*a, **k):
            self.calls.append((name, a, k))
        return f


def low_truncating(fs, n):
    t = np.arange(0, n / fs, 1 / fs)
    return [k for k in range(1, min(n, len(t))) if t[k] * fs < k]


def table_for(c):
    from bycycle.features import compute_features
    fs = c['fs']
    sig = make_signal(c['family'], c['seed'], n=c['n'], fs=fs, f=10.0 * fs / 500.0 if fs != 500 else 10.0)
    fr = (7.0 * fs / 500.0, 13.0 * fs / 500.0)
    df = compute_features(sig, fs, fr, center_extrema=c['centre'], threshold_kwargs=dict(TH_PRESETS['loose']))
    return sig, df


def windows(c, n, fs, rng, df=None, r=None):
    yield None
    low = low_truncating(fs, n)
    if df is not None and len(df) > 3:
        # windows whose limits coincide with cycle boundaries (first sample of the view = first sample of a cycle)
        L = df[r['L']].values.astype(int)
        N = df[r['N']].values.astype(int)
        burst = [i for i in range(len(df)) if bool(df['is_burst'].values[i])] or [1]
        i0 = rng.choice(burst)
        i1 = min(len(df) - 1, i0 + rng.choice([0, 1, 3]))
        yield (int(L[i0]), min(n - 1, int(N[i1]) + rng.choice([1, 5])))
        yield (int(L[i0]), int(N[i1]))
        # a window closing exactly on the closing sample of a NON-bursting cycle (threshold spans are drawn for those)
        quiet = [i for i in range(2, len(df)) if not bool(df['is_burst'].values[i])]
        if quiet:
            # not left to chance: up to six quiet cycles spread over the table, plus one drawn at random
            step = max(1, len(quiet) // 6)
            for iq in sorted(set(quiet[::step][:6] + [quiet[-1], rng.choice(quiet)])):
                yield (int(L[max(iq - 2, 0)]) + 1, int(N[iq]))
    for _ in range(c['nwin']):
        a = rng.choice(low) if low and rng.random() < 0.5 else rng.randrange(0, n - 2)
        width = rng.choice([3, 40, 200, 600])
        b = min(n - 1, a + width)
        if b > a:
            yield (a, b)


@job('plots', props=['C20'], function='bycycle.plts')
class Plots:
    chunk = 1

    def bound(self, tier):
        return ('corpus tables of both centrings at fs in {500, 1000}; x-limits None or %d random sample-grid windows per table '
                '(including windows with no complete cycle and windows starting on grid points whose time*fs truncates low) plus, per table, '
                'windows on the boundaries of a bursting cycle and windows closing exactly on the last sample of up to eight non-bursting cycles; '
                'the four cyclepoint-kind switches; plot_only_result and interp settings' % (3 if tier == 'quick' else 10))

    def gen(self, tier, seed):
        for fam in FAMILIES[:4 if tier == 'quick' else None]:
            for centre in ('peak', 'trough'):
                for fs in (500.0, 1000.0):
                    yield dict(family=fam, seed=seed, centre=centre, fs=fs, n=1200 if fs == 500.0 else 6000,
                               nwin=3 if tier == 'quick' else 10)

    def nontrivial(self, c):
        return True

    def run(self, c):
        import matplotlib
        matplotlib.use('Agg')
        import matplotlib.pyplot as plt
        import bycycle.plts.cyclepoints as pc
        import bycycle.plts.burst as pb
        rng = random.Random(c['seed'] * 7 + stable_hash((c['family'], c['centre'], c['fs'])) % 1000)
        sig, df = table_for(c)
        fs = c['fs']
        n = len(sig)
        times = np.arange(0, n / fs, 1 / fs)
        r = O.roles(df)
        th = dict(TH_PRESETS['loose'])
        saved = (pc.plot_time_series, pb.plot_time_series, pb.plot_bursts)
        try:
            for win in windows(c, n, fs, rng, df, r):
                xlim = None if win is None else (times[win[0]], times[win[1]])
                # the view is the displayed sample range: limit_signal keeps start <= t < stop
                lo, hi = (0, n - 1) if win is None else (win[0], win[1] - 1)
                # ---------------- cyclepoint plots
                for flags in ((True, True), (True, False), (False, True)):
                    rec = Recorder()
                    pc.plot_time_series = rec.make('pts')
                    fig, ax = plt.subplots()
                    pc.plot_cyclepoints_df(df, sig, fs, plot_sig=False, plot_extrema=flags[0], plot_zerox=flags[1],
                                           xlim=xlim, ax=ax)
                    plt.close('all')
                    name, a, k = rec.calls[-1]
                    xs, ys = a[0], a[1]
                    kinds = []
                    if flags[0]:
                        kinds += [('centre', df[r['C']].values), ('side', np.unique(np.append(df[r['L']].values, df[r['N']].values)))]
                    if flags[1]:
                        kinds += [('rise', df['sample_zerox_rise'].values), ('decay', df['sample_zerox_decay'].values)]
                    if len(xs) != len(kinds):
                        return 'cyclepoint plot: %d marker series for %d kinds' % (len(xs), len(kinds))
                    for (kname, pts), x, y in zip(kinds, xs, ys):
                        m = self.check_markers(kname, pts, np.asarray(x), np.asarray(y), times, sig, lo, hi, win)
                        if m:
                            return 'plot_cyclepoints_df xlim=%s: %s' % (win, m)
                # ---------------- burst summary
                for only in (False, True):
                    rec = Recorder()
                    pb.plot_bursts = rec.make('bursts')
                    pb.plot_time_series = rec.make('pts')
                    pc.plot_time_series = rec.make('cp')
                    interp = rng.choice([True, False])
                    pb.plot_burst_detect_summary(df, sig, fs, th, xlim=xlim, plot_only_result=only, interp=interp)
                    plt.close('all')
                    bcalls = [x for x in rec.calls if x[0] == 'bursts']
                    if len(bcalls) != 1:
                        return 'plot_bursts called %d times' % len(bcalls)
                    _, a, k = bcalls[0]
                    t_view, s_view, is_osc = np.asarray(a[0]), np.asarray(a[1]), np.asarray(a[2])
                    m = self.check_highlight(df, r, is_osc, t_view, times, lo, hi, win)
                    if m:
                        return 'plot_burst_detect_summary xlim=%s: %s' % (win, m)
                    panels = [x for x in rec.calls if x[0] == 'pts']
                    keys = [k for k in th if k != 'min_n_cycles']
                    if only:
                        if panels:
                            return 'parameter panels drawn with plot_only_result=True'
                        continue
                    if len(panels) != len(keys):
                        return '%d parameter panels for %d thresholds' % (len(panels), len(keys))
                    for key, (_, a, k) in zip(keys, panels):
                        m = self.check_panel(df, r, key.replace('_threshold', ''), th[key], a, times, lo, hi, win, interp, fs)
                        if m:
                            return 'parameter panel %s xlim=%s interp=%s: %s' % (key, win, interp, m)
        finally:
            pc.plot_time_series, pb.plot_time_series, pb.plot_bursts = saved
            plt.close('all')
        return None

    def check_markers(self, kname, pts, x, y, times, sig, lo, hi, win):
        pts = np.asarray(pts).astype(int)
        genuine = {}
        for p in pts:
            genuine[round(float(times[p]), 12)] = p
        drawn = set()
        for xv, yv in zip(x.tolist(), y.tolist()):
            key = round(float(xv), 12)
            if key not in genuine:
                return '%s marker at t=%r is not the time of a %s cyclepoint' % (kname, xv, kname)
            p = genuine[key]
            if yv != sig[p]:
                return '%s marker for sample %d drawn at value %r, the signal there is %r' % (kname, p, yv, sig[p])
            drawn.add(p)
        for p in pts:
            if lo < p < hi and p not in drawn:
                return '%s cyclepoint %d strictly inside the view [%d, %d] is not drawn' % (kname, p, lo, hi)
        return None

    def check_highlight(self, df, r, is_osc, t_view, times, lo, hi, win):
        first = int(round(float(t_view[0]) / (times[1] - times[0]))) if len(t_view) else lo
        if len(t_view) and abs(times[first] - t_view[0]) > 1e-9:
            first = int(np.argmin(np.abs(times - t_view[0])))
        allowed = np.zeros(len(times), bool)
        required = np.zeros(len(times), bool)
        for L, N, b in zip(df[r['L']].values.astype(int), df[r['N']].values.astype(int), df['is_burst'].values):
            if b:
                allowed[L:N + 1] = True
                if first <= L and N <= first + len(t_view) - 1:
                    required[L:N + 1] = True
        for k, v in enumerate(is_osc.tolist()):
            s = first + k
            if v and not allowed[s]:
                return 'sample %d is highlighted but belongs to no bursting cycle' % s
            if not v and required[s]:
                return 'sample %d of a bursting cycle entirely inside the view is not highlighted' % s
        return None

    def check_panel(self, df, r, column, thresh, a, times, lo, hi, win, interp, fs):
        xs, ys = a[0], a[1]
        line_x, line_y = xs[1], ys[1]
        if list(line_y) != [thresh] * 2:
            return 'threshold line drawn at %r, threshold is %r' % (list(line_y), thresh)
        px, py = np.asarray(xs[0]), np.asarray(ys[0])
        C = df[r['C']].values.astype(int)
        L = df[r['L']].values.astype(int)
        N = df[r['N']].values.astype(int)
        vals = df[column].values
        if interp:
            byt = {round(float(times[c]), 12): i for i, c in enumerate(C)}
            seen = set()
            for xv, yv in zip(px.tolist(), py.tolist()):
                i = byt.get(round(float(xv), 12))
                if i is None:
                    return 'point at t=%r is not at a cycle centre' % xv
                if not O.same_float(yv, vals[i]):
                    return 'cycle %d drawn with value %r, its %s is %r' % (i, yv, column, vals[i])
                seen.add(i)
            for i in range(len(df)):
                if lo <= L[i] and N[i] < hi and i not in seen and win is not None:
                    return 'cycle %d lies inside the view but is not drawn' % i
                if win is None and i not in seen:
                    return 'cycle %d is not drawn' % i
        else:
            bys = {(round(float(times[a_]), 12), round(float(times[b_]), 12)): i for i, (a_, b_) in enumerate(zip(L, N))}
            for k in range(0, len(px), 2):
                i = bys.get((round(float(px[k]), 12), round(float(px[k + 1]), 12)))
                if i is None:
                    return 'segment (%r, %r) is not a cycle\'s side extrema' % (px[k], px[k + 1])
                if not (O.same_float(py[k], vals[i]) and O.same_float(py[k + 1], vals[i])):
                    return 'cycle %d drawn with value %r, its %s is %r' % (i, py[k], column, vals[i])
        return None
