"""bycycle.utils.dataframes.epoch_df — C13 (per-epoch table construction), C15 (frame)."""
from . import contract, frame_result
from .features_burst import SHAPE_COLS, sample_cols
from .burst import FEATS
from vf.values import BOOL, INT, REAL, XR


def _epoch_cases():
    out = []
    for centre in ('peak', 'trough'):
        cols = dict(SHAPE_COLS)
        cols.update({f: XR for f in FEATS})
        cols['is_burst'] = BOOL
        samples = sample_cols(centre)
        for c in samples:
            cols[c] = INT
        closing = 'sample_next_trough' if centre == 'peak' else 'sample_next_peak'
        mask = ("arrdef(i, len(df_features), df_features['%s'][i] <= last_idx and df_features['%s'][i] > first_idx)"
                % (closing, closing))
        out.append(dict(
            label='%s-centred' % centre,
            params={'df_features': ('frame', cols), 'sig_len': INT, 'epoch_len': INT},
            requires=["epoch_len > 0 and sig_len > 0"],
            loops={1: dict(index='e', invariant=[], opaque_lists=['dfs_features'], body_ensures=[
                # C13, for an arbitrary epoch e: the half-open window (e*L, (e+1)*L] on the closing side extremum ...
                "first_idx == e * epoch_len and last_idx == (e + 1) * epoch_len",
                # ... selects exactly those cycles, in order, with every value unchanged and every sample_* column
                # shifted to be relative to the epoch start
                "selects(df_single, df_features, %s, %r, first_idx)" % (mask, tuple(samples)),
            ])}))
    return out


contract('bycycle.utils.dataframes.epoch_df', cases=_epoch_cases(), modifies=[])

contract('bycycle.utils.dataframes.get_extrema_df', inline=True)


# ------------------------------------------------------------------------------------------------ limit_df (C18, C15)
def _limit_cases():
    out = []
    for centre in ('peak', 'trough'):
        for method, extra in (('cycles', {f: XR for f in FEATS}), ('amp', {'burst_fraction': XR})):
            cols = dict(SHAPE_COLS)
            cols.update(extra)
            cols['is_burst'] = BOOL
            samples = sample_cols(centre)
            for c in samples:
                cols[c] = INT
            side = 'trough' if centre == 'peak' else 'peak'
            last, nxt = "df['sample_last_%s']" % side, "df['sample_next_%s']" % side
            for has_start in (False, True):
                for has_stop in (False, True):
                    for reset in (True, False):
                        s0 = 'start' if has_start else '0'
                        # C18: a cycle lies entirely inside the window when its opening side extremum is at or after
                        # start and its closing one at or before stop (times = samples / fs); entirely outside when it
                        # ends before start or begins after stop
                        inside = "%s[i] >= %s * fs" % (last, s0) + (" and %s[i] <= stop * fs" % nxt if has_stop else "")
                        outside = "%s[i] < %s * fs" % (nxt, s0) + (" or %s[i] > stop * fs" % last if has_stop else "")
                        bad = ["fs < 0"]
                        if has_start:
                            bad.append("start < 0" + (" or start > stop" if has_stop else ""))
                        if has_stop:
                            bad.append("stop < 0" if not has_start else "stop < start")
                        shift = ("int(round(fs * %s))" % s0) if reset else "0"
                        out.append(dict(
                            label='%s,%s,start=%s,stop=%s,reset=%s' % (centre, method, has_start, has_stop, reset),
                            params={'df': ('frame', cols), 'fs': REAL, 'start': REAL if has_start else 'none',
                                    'stop': REAL if has_stop else 'none', 'reset_indices': ('const', reset)},
                            # table invariant (C01, ensured by compute_features): a cycle closes after it opens
                            requires=["forall(i, 0 <= i < len(df), %s[i] < %s[i])" % (last, nxt)],
                            raises={'ValueError': " or ".join("(%s)" % b for b in bad)},
                            ensures=["selects_between(result, df, arrdef(i, len(df), %s), arrdef(i, len(df), not (%s)), %r, %s)"
                                     % (inside, outside, tuple(samples) if reset else (), shift)]))
    return out


contract('bycycle.utils.dataframes.limit_df', cases=_limit_cases(), modifies=[], split_ensures=True,
         result=frame_result(lambda env: {c: a.ty for c, a in env['df'].cols.items()}))


# ------------------------------------------------------------------------------------------------ limit_signal (C18)
def _limit_signal_cases():
    out = []
    for has_start in (False, True):
        for has_stop in (False, True):
            conds = (["times[i] >= start"] if has_start else []) + (["times[i] < stop"] if has_stop else [])
            mask = "arrdef(i, len(times), %s)" % (" and ".join(conds) or "True")
            bad = []
            if has_start:
                bad.append("start < 0" + (" or start > stop" if has_stop else ""))
            if has_stop:
                bad.append("stop < 0" if not has_start else "stop < start")
            out.append(dict(
                label='start=%s,stop=%s' % (has_start, has_stop),
                params={'times': ('arr', REAL), 'sig': ('arr', REAL), 'start': REAL if has_start else 'none',
                        'stop': REAL if has_stop else 'none'},
                requires=["len(times) == len(sig)"],
                raises=({'ValueError': " or ".join("(%s)" % b for b in bad)} if bad else {}),
                # C18: exactly the samples with start <= t < stop, in order, signal and times alike
                ensures=["selects_between(result[0], sig, %s, %s)" % (mask, mask),
                         "selects_between(result[1], times, %s, %s)" % (mask, mask)]))
    return out


contract('bycycle.utils.timeseries.limit_signal', cases=_limit_signal_cases(), modifies=[])


# ------------------------------------------------------------------------------------------------ split_samples_df (C18)
def _split_cases():
    out = []
    for centre in ('peak', 'trough'):
        for method, extra in (('cycles', {f: XR for f in FEATS}), ('amp', {'burst_fraction': XR})):
            cols = dict(SHAPE_COLS)
            cols.update(extra)
            cols['is_burst'] = BOOL
            keep = list(cols)
            samples = sample_cols(centre)
            for c in samples:
                cols[c] = INT
            out.append(dict(
                label='%s,%s' % (centre, method), params={'df_features': ('frame', cols)},
                # C18: the sample_* columns move to the second table, everything else stays in the first (which IS the
                # input object - the function pops the columns out of it, as documented), no value altered
                ensures=["result[0] is df_features",
                         "len(result[0]) == len(old(df_features)) and len(result[1]) == len(old(df_features))",
                         "ncols(result[0]) == %d and ncols(result[1]) == %d" % (len(keep), len(samples))] +
                        ["forall(i, 0 <= i < len(result[0]), same(result[0]['%s'][i], old(df_features)['%s'][i]))" % (c, c)
                         for c in keep] +
                        ["forall(i, 0 <= i < len(result[1]), same(result[1]['%s'][i], old(df_features)['%s'][i]))" % (c, c)
                         for c in samples]))
    return out


contract('bycycle.utils.dataframes.split_samples_df', cases=_split_cases(), modifies=['df_features'])


# ------------------------------------------------------------------------------------------------ flatten_dfs (C18), group level
# Tables and labels are opaque values.  flatten_dfs writes the label column INTO each table it is given (documented use:
# the tables are the function's to label) and returns their row-wise concatenation in list order (row-major for 2-D lists).
from vf.spec import form as _form                      # noqa: E402
from vf.engine import _opq as _opq_                    # noqa: E402
from vf import grid as _G                              # noqa: E402


@_form('concat_of')
def f_concat_of(E, node):
    lst = E.eval(node.args[0])
    return _opq_(_G.CONCAT_ROWS(_G.rows_term(E, lst)))


@_form('with_col')
def f_with_col(E, node):
    import z3
    from vf.values import str_code, Z as _Z, STR as _STR
    tb, key, val = [E.eval(a) for a in node.args]
    kt = z3.IntVal(str_code(key)) if isinstance(key, str) else key.t
    return _opq_(_G.WITH_COL(tb.t, kt, val.t))


def _flatten_cases():
    out = []
    T1, L1 = ('grid', 1, False, 'list', 'table'), ('grid', 1, False, 'list')
    T2, L2 = ('grid', 2, False, 'list', 'table'), ('grid', 2, False, 'list')
    out.append(dict(
        label='1d',
        params={'dfs_features': T1, 'labels': L1, 'column_name': ('const', 'Label')},
        raises={'ValueError': "len(labels) != len(dfs_features)"},
        ensures=["result == concat_of(dfs_features)",
                 "forall(i, 0 <= i < len(dfs_features), dfs_features[i] == with_col(old(dfs_features)[i], column_name, labels[i]))"],
        loops={1: dict(index='k', mutates=['dfs_features'], elementwise=True, invariant=[
            "forall(i, 0 <= i < k, dfs_features[i] == with_col(old(dfs_features)[i], column_name, labels[i]))",
            "forall(i, k <= i < len(dfs_features), dfs_features[i] == old(dfs_features)[i])"])}))
    N0, N1 = "dfs_features.shape[0]", "dfs_features.shape[1]"
    # (a 2-D label list is used in row-major order whatever its own shape: only the total count is checked)
    for ll, lt, lab in (('2d-labels', L2, "flat(labels)[i * %s + j]" % N1), ('flat-labels', L1, "labels[i * %s + j]" % N1)):
        nlab = "labels.shape[0] * labels.shape[1]" if ll == '2d-labels' else "len(labels)"
        out.append(dict(
            label='2d,' + ll,
            params={'dfs_features': T2, 'labels': lt, 'column_name': ('const', 'Label')},
            raises={'ValueError': "%s != %s * %s" % (nlab, N0, N1)},
            ensures=["result == concat_of(flat(dfs_features))",
                     "forall((i, j), 0 <= i < %s and 0 <= j < %s, dfs_features[i][j] == with_col(old(dfs_features)[i][j], column_name, %s))"
                     % (N0, N1, lab)],
            loops={2: dict(index='k', mutates=['dfs_features'], invariant=[
                "forall((i, j), 0 <= i < %s and 0 <= j < %s and i * %s + j < k, dfs_features[i][j] == "
                "with_col(old(dfs_features)[i][j], column_name, labels[i * %s + j]))" % (N0, N1, N1, N1),
                "forall((i, j), 0 <= i < %s and 0 <= j < %s and i * %s + j >= k, dfs_features[i][j] == old(dfs_features)[i][j])"
                % (N0, N1, N1)])}))
    return out


contract('bycycle.utils.dataframes.flatten_dfs', cases=_flatten_cases(), modifies=['dfs_features'])
