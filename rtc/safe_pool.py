"""The group functions leave their Pool with terminate() (context-manager exit) without joining its helper threads; a
second Pool created right afterwards forks while those threads may still hold locks, which can deadlock the child under
load.  The bounded jobs therefore run the group functions with a Pool whose exit also joins - same results, same ordering
semantics, no lingering threads.  (Environment hardening of the harness, not a change of the code under test.)"""
import multiprocessing
import multiprocessing.pool


class JoinedPool(multiprocessing.pool.Pool):
    def __exit__(self, exc_type, exc_val, exc_tb):
        self.terminate()
        self.join()


def make_pool(processes=None, *a, **k):
    return JoinedPool(processes, *a, context=multiprocessing.get_context('fork'), **k)


def install():
    import bycycle.group.features as gf
    gf.Pool = make_pool
