"""Attribute / subscript / array-operator semantics of the engine (numpy + pandas 3 copy-on-write model).

Everything here is part of the *assumed library contracts* (DESIGN.md 2.5) and is conformance-tested
against the installed libraries by rtc/conformance.py.
"""
import ast
import math

import z3

from .values import (INT, REAL, BOOL, STR, XR, VAL, Z, X, Opt, Arr, Frame, SDict, Obj, Opaque, Ref,
                     PyList, fresh_name, ValSort, x_nan)
from . import xops
from .engine import (_chk, Unsupported, RaiseSig, lift, to_int, to_real, zbool, is_sym, INF)


class Marker:
    """df.columns, df.iloc, df.loc, dict.keys() ... : lightweight handles"""

    def __init__(self, kind, obj, extra=None):
        self.kind = kind
        self.obj = obj
        self.extra = extra


NUMPY_CONSTS = {'inf': INF, 'nan': float('nan'), 'pi': math.pi}


# ---------------------------------------------------------------------------- attributes
def get_attr(E, obj, attr, node):
    if isinstance(obj, Ref):
        if obj.kind == 'module' or obj.kind == 'func':
            if obj.qual == 'numpy' and attr in NUMPY_CONSTS:
                return NUMPY_CONSTS[attr]
            if obj.qual == 'numpy' and attr == 'ndarray':
                return Ref('numpy.ndarray', 'type')
            if obj.qual == 'pandas' and attr == 'DataFrame':
                return Ref('pandas.DataFrame', 'func')
            return Ref(E.sources.resolve(obj.qual + '.' + attr), 'func')
        raise Unsupported('attribute %s of %r' % (attr, obj))
    if isinstance(obj, Arr):
        if attr == 'values':
            if obj.kind != 'series':
                raise Unsupported('.values on ndarray')
            # pandas 3: read-only view of the series' data
            return Arr(obj.ident, obj.shape, obj.ty, 'ndarray', obj.off, obj.stride, writeable=False)
        if attr == 'ndim':
            return obj.ndim
        if attr == 'shape':
            return tuple(_as_val(s) for s in obj.shape)
        if attr == 'size':
            if obj.ndim == 1:
                return _as_val(obj.n)
        if attr == 'iloc' and obj.kind == 'series':
            return Marker('siloc', obj)
        return Ref('Arr.' + attr, 'method', bound=obj)
    if isinstance(obj, Frame):
        if attr == 'columns':
            return Marker('columns', obj)
        if attr in ('iloc', 'loc'):
            return Marker(attr, obj)
        if attr == 'index':
            return Marker('index', obj)
        return Ref('Frame.' + attr, 'method', bound=obj)
    if isinstance(obj, SDict):
        return Ref('SDict.' + attr, 'method', bound=obj)
    if isinstance(obj, PyList):
        return Ref('PyList.' + attr, 'method', bound=obj)
    if isinstance(obj, Marker) and obj.kind == 'columns' and attr == 'values':
        # the column labels as they are now (an array of the current Index: later pops / inserts do not change it)
        return tuple(obj.obj.cols)
    if isinstance(obj, Marker):
        return Ref('Marker.' + obj.kind + '.' + attr, 'method', bound=obj)
    if isinstance(obj, str):
        return Ref('str.' + attr, 'method', bound=obj)
    if isinstance(obj, Obj):
        if attr in obj.attrs:
            return obj.attrs[attr]
        return Ref(obj.cls + '.' + attr, 'method', bound=obj)
    if isinstance(obj, Z) and obj.ty == STR:
        return Ref('str.' + attr, 'method', bound=obj)
    if isinstance(obj, Opaque):
        return Ref('Opaque.' + attr, 'method', bound=obj)
    raise Unsupported('attribute %s of %r (line %s)' % (attr, obj, getattr(node, 'lineno', '?')))


def simp(x):
    return z3.simplify(x) if isinstance(x, z3.ExprRef) else x


def _as_val(s):
    return s if isinstance(s, int) else Z(s, INT)


def term_int(v):
    """python int / Z int -> z3 Int term"""
    if isinstance(v, bool):
        return z3.IntVal(int(v))
    if isinstance(v, int):
        return z3.IntVal(v)
    if isinstance(v, Z) and v.ty in (INT, BOOL):
        return to_int(v)
    raise Unsupported('integer expected, got %r' % (v,))


# ---------------------------------------------------------------------------- slices
def norm_slice(E, n, sl):
    """python slice normalisation for step > 0 over length n (z3 term): returns (lo, hi, step, length)"""
    step = sl.step if sl.step is not None else 1
    if not isinstance(step, int) or step <= 0:
        raise Unsupported('slice step %r' % (step,))
    n = n if not isinstance(n, int) else z3.IntVal(n)

    def bound(b, default):
        if b is None:
            return default
        if isinstance(b, Opt):
            raise Unsupported('optional slice bound')
        t = term_int(b)
        return z3.If(t < 0, z3.If(n + t < 0, z3.IntVal(0), n + t), z3.If(t > n, n, t))
    lo = bound(sl.start, z3.IntVal(0))
    hi = bound(sl.stop, n)
    span = z3.If(hi > lo, hi - lo, z3.IntVal(0))
    length = span if step == 1 else (span + (step - 1)) / step
    return simp(lo), simp(hi), step, simp(length)


def slice_view(E, a, sl, node):
    if isinstance(sl.step, int) and sl.step == -1 and sl.start is None and sl.stop is None:
        # a[::-1]
        off = a.off + (a.n - 1) * a.stride
        return Arr(a.ident, (a.n,), a.ty, a.kind, off, -a.stride, a.writeable)
    lo, hi, step, length = norm_slice(E, a.n, sl)
    r = _slice_arr(E, a, sl, lo, hi, step, length)
    try:
        if step == 1:
            parent = E.seq(a)
            if sl.start is None and sl.stop is None:
                r.sx, r.sx_heap = parent, E.st.heap.get(a.ident)
            elif sl.start is None:
                E.set_seq(r, 'seq_slice_to', parent, term_int(sl.stop))
            elif sl.stop is None:
                E.set_seq(r, 'seq_slice_from', parent, term_int(sl.start))
            else:
                E.set_seq(r, 'seq_slice', parent, term_int(sl.start), term_int(sl.stop))
    except Unsupported:
        pass
    return r


def _slice_arr(E, a, sl, lo, hi, step, length):
    return Arr(a.ident, (length,), a.ty, a.kind, simp(a.off + lo * a.stride) if not _is0(a.off) or True else lo,
               a.stride * step, a.writeable)


def _is0(x):
    return isinstance(x, int) and x == 0


# ---------------------------------------------------------------------------- subscripts (load)
def get_subscript(E, obj, slc_node, node):
    if isinstance(obj, Marker):
        return marker_subscript(E, obj, slc_node, node)
    idx = E.eval(slc_node)
    if isinstance(obj, (tuple, list)):
        if isinstance(idx, int):
            try:
                return obj[idx]
            except IndexError:
                raise RaiseSig('IndexError', node)
        if isinstance(idx, slice):
            return obj[idx]
        if isinstance(idx, Z) and idx.ty == INT:
            # symbolic index into a concrete tuple: ite chain
            E.oblige('lib-pre', z3.And(idx.t >= -len(obj), idx.t < len(obj)), node, 'index in range')
            r = obj[-1]
            for k in range(len(obj) - 2, -1, -1):
                r = E.ite(z3.Or(idx.t == k, idx.t == k - len(obj)), obj[k], r)
            return r
        raise Unsupported('tuple index %r' % (idx,))
    if isinstance(obj, PyList):
        if isinstance(idx, int):
            try:
                return obj.items[idx]
            except IndexError:
                raise RaiseSig('IndexError', node)
        if isinstance(idx, slice):
            return PyList(E.new_ident(), obj.items[idx])
        raise Unsupported('list index %r' % (idx,))
    if isinstance(obj, SDict):
        if not isinstance(idx, (str, int)):
            raise Unsupported('symbolic dict key')
        if idx not in obj.items:
            raise RaiseSig('KeyError', node, str(idx))
        pres, val = obj.items[idx]
        if not isinstance(pres, bool):
            if E.spec_mode:
                return val
            if not E.branch(Z(pres, BOOL), 'haskey'):
                raise RaiseSig('KeyError', node, str(idx))
        elif not pres:
            raise RaiseSig('KeyError', node, str(idx))
        return val
    if isinstance(obj, dict):
        if idx in obj:
            return obj[idx]
        raise RaiseSig('KeyError', node, str(idx))
    if isinstance(obj, Frame):
        if isinstance(idx, str):
            if idx not in obj.cols:
                raise RaiseSig('KeyError', node, idx)
            col = obj.cols[idx]
            if E.spec_mode:
                return col
            return E.snapshot(col, kind='series')          # copy-on-write: independent of the frame
        if isinstance(idx, Arr) and idx.ty == BOOL:
            return frame_compress(E, obj, idx, node)
        raise Unsupported('frame subscript %r' % (idx,))
    if isinstance(obj, Arr):
        return arr_getitem(E, obj, idx, node)
    if isinstance(obj, str) and isinstance(idx, (int, slice)):
        return obj[idx]
    raise Unsupported('subscript on %r (line %s)' % (obj, getattr(node, 'lineno', '?')))


def arr_getitem(E, a, idx, node):
    if getattr(a, 'lead', None) is not None:
        from . import grid
        return grid.grid_get(E, a, idx, node)
    if a.ndim != 1:
        return nd_getitem(E, a, idx, node)
    if isinstance(idx, slice):
        return slice_view(E, a, idx, node)
    if isinstance(idx, Arr):
        if idx.ty == BOOL:
            return compress(E, a, idx, node)
        if idx.ty == INT:
            return gather(E, a, idx, node)
        raise Unsupported('array index of type %s' % idx.ty)
    if isinstance(idx, (int, Z)):
        t = term_int(idx)
        n = a.n if not isinstance(a.n, int) else z3.IntVal(a.n)
        if isinstance(idx, int):
            E.oblige('lib-pre', (n > idx) if idx >= 0 else (n >= -idx), node, 'index in range')
            return E.rd(a, idx if idx >= 0 else simp(n + idx))
        if E.spec_mode:
            return E.rd(a, t)             # contract language: indices are plain (no negative wrap-around)
        E.oblige('lib-pre', z3.And(t >= -n, t < n), node, 'index in range')
        return E.rd(a, z3.If(t < 0, n + t, t))
    raise Unsupported('array index %r' % (idx,))


def nd_getitem(E, a, idx, node):
    raise Unsupported('N-d indexing')


def gather(E, a, idx, node):
    """a[int array] -> fresh array res[k] = a[idx[k]]"""
    k = z3.Int(fresh_name('k'))
    n = a.n if not isinstance(a.n, int) else z3.IntVal(a.n)
    ik = to_int(E.rd(idx, k))
    if not E.spec_mode:
        E.oblige('lib-pre', z3.ForAll([k], z3.Implies(z3.And(k >= 0, k < idx.n), z3.And(ik >= -n, ik < n))),
                 node, 'gather indices in range')
    heap = E.st.heap
    src = heap[a.ident]
    isrc = heap[idx.ident]
    a_off, a_str, i_off, i_str = a.off, a.stride, idx.off, idx.stride

    def clo(i):
        j = to_int(isrc(i_off + i * i_str))
        j = z3.If(j < 0, n + j, j)
        return src(a_off + j * a_str)
    kind = 'series' if a.kind == 'series' else 'ndarray'
    return E.new_arr(idx.n, a.ty, clo, kind)


def compress_map(E, mask, node=None):
    """Index map of boolean-mask selection (shared by every array indexed with the same mask snapshot):
    returns (m, g) with g strictly increasing onto the True positions, plus the counting function."""
    key = ('cmap', mask.ident, id(E.st.heap[mask.ident]), str(mask.off), mask.stride, str(mask.n))
    if key in E.st.ghost:
        return E.st.ghost[key]
    n = mask.n if not isinstance(mask.n, int) else z3.IntVal(mask.n)
    # a mask that provably agrees pointwise with an earlier one selects through the same index map
    for okey, (omask, on) in list(E.st.ghost.get('cmap_masks', {}).items()):
        d = z3.Int(fresh_name('d'))
        try:
            neg = z3.Or(on != n, z3.And(d >= 0, d < n, zbool(omask(d)) != zbool(E.rd(mask, d))))
        except Exception:
            continue
        E.qf.push()
        E.qf.add(neg)
        E.qf.set('timeout', 500)
        res = _chk(E.qf)
        E.qf.pop()
        if res == z3.unsat:
            E.st.ghost[key] = E.st.ghost[okey]
            return E.st.ghost[okey]
    m = z3.Int(fresh_name('cnt'))
    g = z3.Function(fresh_name('g'), z3.IntSort(), z3.IntSort())
    cnt = z3.Function(fresh_name('c'), z3.IntSort(), z3.IntSort())      # cnt(i) = #True in mask[0:i]
    mk = lambda i: zbool(E.rd(mask, i))
    i = z3.Int(fresh_name('i'))
    k = z3.Int(fresh_name('k'))
    k2 = z3.Int(fresh_name('k'))
    ax = [
        m >= 0, m <= n, cnt(0) == 0, m == cnt(n),
        z3.ForAll([i], z3.Implies(z3.And(i >= 0, i < n),
                                  z3.And(cnt(i + 1) == cnt(i) + z3.If(mk(i), 1, 0), cnt(i) >= 0, cnt(i) <= i,
                                         cnt(i + 1) <= m)),
                  patterns=[cnt(i + 1)]),
        z3.ForAll([i], z3.Implies(z3.And(i >= 0, i < n, mk(i)), z3.And(g(cnt(i)) == i, cnt(i) < m)),
                  patterns=[z3.MultiPattern(cnt(i), mk(i))] if False else [cnt(i)]),
        z3.ForAll([k], z3.Implies(z3.And(k >= 0, k < m), z3.And(g(k) >= 0, g(k) < n, mk(g(k)), cnt(g(k)) == k)),
                  patterns=[g(k)]),
        z3.ForAll([k, k2], z3.Implies(z3.And(k >= 0, k < k2, k2 < m), g(k) < g(k2)),
                  patterns=[z3.MultiPattern(g(k), g(k2))]),
    ]
    for a in ax:
        E.assumptions_quant(a)
    E.st.ghost[key] = (m, g, cnt)
    src_m, off_m, str_m = E.st.heap[mask.ident], mask.off, mask.stride
    E.st.ghost.setdefault('cmap_masks', {})[key] = ((lambda i: src_m(off_m + i * str_m)), n)
    E.st.ghost.setdefault('cmap_axioms', {})[key] = ax
    # the same axioms as instantiable schemas (explicit instantiation in proof scripts)
    E.st.ghost.setdefault('cmap_inst', {})[key] = dict(
        base=z3.And(m >= 0, m <= n, cnt(0) == 0, m == cnt(n)),
        rec=lambda x: z3.Implies(z3.And(x >= 0, x < n),
                                 z3.And(cnt(x + 1) == cnt(x) + z3.If(mk(x), 1, 0), cnt(x) >= 0, cnt(x) <= x, cnt(x + 1) <= m)),
        hit=lambda x: z3.Implies(z3.And(x >= 0, x < n, mk(x)), z3.And(g(cnt(x)) == x, cnt(x) < m)),
        sel=lambda y: z3.Implies(z3.And(y >= 0, y < m), z3.And(g(y) >= 0, g(y) < n, mk(g(y)), cnt(g(y)) == y)),
        inc=lambda y, y2: z3.Implies(z3.And(y >= 0, y < y2, y2 < m), g(y) < g(y2)),
        mask=mk, n=n)
    return m, g, cnt


def compress(E, a, mask, node):
    if not E.spec_mode:
        E.oblige('lib-pre', _eq_len(a.n, mask.n), node, 'mask length equals array length')
    m, g, cnt = compress_map(E, mask, node)
    src = E.st.heap[a.ident]
    a_off, a_str = a.off, a.stride
    clo = lambda i: src(a_off + g(i) * a_str)
    r = E.new_arr(m, a.ty, clo, a.kind)
    r.meta = {'compress_of': (a, mask, g, cnt), 'cmap': (m, g, cnt)}
    return r


def frame_compress(E, f, mask, node):
    if not E.spec_mode:
        E.oblige('lib-pre', _eq_len(f.n, mask.n), node, 'mask length equals number of rows')
    m, g, cnt = compress_map(E, mask, node)
    cols = {}
    for c, a in f.cols.items():
        src = E.st.heap[a.ident]
        cols[c] = E.new_arr(m, a.ty, (lambda i, src=src, a=a: src(a.off + g(i) * a.stride)), 'series')
    r = Frame(E.new_ident(), m, cols)
    r.meta = {'rows_of': (f, g, cnt)}
    return r


def _eq_len(a, b):
    a = a if not isinstance(a, int) else z3.IntVal(a)
    b = b if not isinstance(b, int) else z3.IntVal(b)
    return a == b


def marker_subscript(E, mk, slc_node, node):
    idx = E.eval(slc_node)
    if mk.kind in ('iloc',):
        f = mk.obj
        if isinstance(idx, tuple) and idx and idx[0] == 'range':
            lo, hi = idx[1], idx[2]
            return frame_rows(E, f, lo, hi, node)
        if isinstance(idx, Arr) and idx.ty == INT:
            cols = {c: gather(E, a, idx, node) for c, a in f.cols.items()}
            for a in cols.values():
                a.kind = 'series'
            return Frame(E.new_ident(), idx.n, cols)
        raise Unsupported('iloc[%r]' % (idx,))
    if mk.kind == 'loc':
        f = mk.obj
        if isinstance(idx, Arr) and idx.ty == BOOL:
            return frame_compress(E, f, idx, node)
        raise Unsupported('loc[%r]' % (idx,))
    if mk.kind == 'columns':
        raise Unsupported('columns subscript')
    raise Unsupported('subscript on %s' % mk.kind)


def frame_rows(E, f, lo, hi, node):
    """df.iloc[range(lo, hi)]: independent frame of rows lo..hi-1 (requires 0 <= lo <= hi <= n)"""
    lo_t, hi_t = term_int(lo), term_int(hi)
    if not E.spec_mode:
        E.oblige('lib-pre', z3.And(lo_t >= 0, hi_t <= f.n), node, 'iloc range inside the table')
    length = simp(z3.If(hi_t > lo_t, hi_t - lo_t, z3.IntVal(0)))
    cols = {}
    for c, a in f.cols.items():
        src = E.st.heap[a.ident]
        cols[c] = E.new_arr(length, a.ty, (lambda i, src=src, a=a: src(a.off + (lo_t + i) * a.stride)), 'series')
    return Frame(E.new_ident(), length, cols)


# ---------------------------------------------------------------------------- pointwise maps
def _elem_type(v):
    if isinstance(v, X):
        return XR
    if isinstance(v, Z):
        return v.ty
    if isinstance(v, bool):
        return BOOL
    if isinstance(v, int):
        return INT
    if isinstance(v, float):
        return REAL if v == v and v not in (INF, -INF) else XR
    raise Unsupported('element type of %r' % (v,))


def map_arr(E, operands, f, node, kind=None, check_len=True):
    """pointwise application; operands are Arr or scalars (broadcast)"""
    arrs = [o for o in operands if isinstance(o, Arr)]
    n = arrs[0].n
    if check_len and not E.spec_mode:
        for b in arrs[1:]:
            E.oblige('lib-pre', _eq_len(n, b.n), node, 'operands have equal length')
    heap = E.st.heap
    readers = []
    for o in operands:
        if isinstance(o, Arr):
            src = heap[o.ident]
            readers.append(lambda i, src=src, o=o: src(i if (o.stride == 1 and _is0(o.off)) else o.off + i * o.stride))
        else:
            readers.append(lambda i, o=o: o)

    def clo(i):
        E.spec_mode += 1            # no forking / obligations while a pointwise definition is expanded
        try:
            return _norm_elem(f(*[r(i) for r in readers]))
        finally:
            E.spec_mode -= 1
    probe = clo(z3.Int(fresh_name('probe')))
    ty = _elem_type(probe)
    if kind is None:
        kind = 'series' if any(a.kind == 'series' for a in arrs) else 'ndarray'
    return E.new_arr(n, ty, clo, kind)


def _norm_elem(v):
    if isinstance(v, (Z, X)):
        return v
    return lift(v)


def arr_binop(E, op, a, b, node):
    if isinstance(op, ast.Div):
        f = lambda x, y: xops.div(xops.to_x(lift(x)), xops.to_x(lift(y)))
    else:
        f = lambda x, y: E.binop(op, x, y, node)
    for o in (a, b):
        if not isinstance(o, Arr) and not (is_sym(o) or isinstance(o, (int, float, bool))):
            raise Unsupported('array op with %r' % (o,))
    return map_arr(E, [a, b], f, node)


def arr_compare(E, op, a, b, node):
    r = map_arr(E, [a, b], lambda x, y: E.compare(op, x, y, node), node)
    try:
        if isinstance(a, Arr) and not isinstance(b, Arr):
            sc = lift(b)
            E.set_seq(r, 'seq_cmp_%s_%s' % (type(op).__name__, sc.ty), E.seq(a), sc.t)
        elif isinstance(a, Arr) and isinstance(b, Arr):
            E.set_seq(r, 'seq_cmp2_%s' % type(op).__name__, E.seq(a), E.seq(b))
    except Unsupported:
        pass
    return r


def list_binop(E, op, a, b, node):
    if isinstance(op, ast.Mult):
        lst, k = (a, b) if isinstance(a, (PyList, list, tuple)) else (b, a)
        items = lst.items if isinstance(lst, PyList) else list(lst)
        if isinstance(k, Z) and k.ty == INT and len(items) == 1 and isinstance(items[0], (Opaque,)):
            from . import grid
            e0 = items[0]
            cell = getattr(e0, 'cell', None)
            owner = cell['ident'] if cell else None
            g = grid.grid(E, (simp(z3.If(k.t > 0, k.t, z3.IntVal(0))),), 1, (lambda i, e0=e0: _opq_like(e0)), 'list', owner=owner)
            if owner is not None and owner in E.st.fresh:
                pass
            return g
        if isinstance(k, Z) and k.ty == INT and len(items) == 1 and items[0] is None:
            from . import grid
            return grid.grid(E, (simp(z3.If(k.t > 0, k.t, z3.IntVal(0))),), 1, (lambda i: grid._opq(grid.NONE_OPTS)), 'list')
        if isinstance(k, int):
            r = items * k
            return PyList(E.new_ident(), r) if not isinstance(lst, tuple) else tuple(r)
        raise Unsupported('list * symbolic')
    if isinstance(op, ast.Add):
        if isinstance(a, PyList) and isinstance(b, PyList):
            return PyList(E.new_ident(), a.items + b.items)
        if isinstance(a, tuple) and isinstance(b, tuple):
            return a + b
    raise Unsupported('list operator')


# ---------------------------------------------------------------------------- membership
def contains(E, container, item, node):
    if isinstance(container, Marker) and container.kind in ('keys',):
        container = container.obj
    if isinstance(container, Marker) and container.kind == 'columns':
        if isinstance(item, str):
            return item in container.obj.cols
        raise Unsupported('symbolic column membership')
    if isinstance(container, SDict):
        if isinstance(item, (str, int)):
            if item not in container.items:
                return False
            p = container.items[item][0]
            return p if isinstance(p, bool) else Z(p, BOOL)
        raise Unsupported('symbolic key membership')
    if isinstance(container, dict):
        return item in container
    if isinstance(container, str) and isinstance(item, str):
        return item in container
    if isinstance(container, PyList):
        container = container.items
    if isinstance(container, (list, tuple, set, frozenset)):
        rs = [E.eq(item, c) for c in container]
        if all(isinstance(r, bool) for r in rs):
            return any(rs)
        return Z(z3.Or(*[zbool(r) for r in rs]), BOOL)
    raise Unsupported('membership in %r' % (container,))


# ---------------------------------------------------------------------------- stores
def store_subscript(E, obj, slc_node, v, node):
    if isinstance(obj, Marker):
        return marker_store(E, obj, slc_node, v, node)
    idx = E.eval(slc_node)
    if isinstance(obj, SDict):
        if not isinstance(idx, (str, int)):
            raise Unsupported('symbolic dict key store')
        E.mutate(obj.ident, node, 'dict item store')
        obj.items[idx] = [True, v]
        return
    if isinstance(obj, PyList):
        if isinstance(idx, int):
            E.mutate(obj.ident, node, 'list item store')
            try:
                obj.items[idx] = v
            except IndexError:
                raise RaiseSig('IndexError', node)
            return
        raise Unsupported('list store index %r' % (idx,))
    if isinstance(obj, Frame):
        if not isinstance(idx, str):
            raise Unsupported('frame store key %r' % (idx,))
        E.mutate(obj.ident, node, 'column store')
        obj.cols = dict(obj.cols)
        if obj.n is None:
            if not isinstance(v, Arr):
                raise Unsupported('scalar column in an empty DataFrame')
            obj.n = v.n if not isinstance(v.n, int) else z3.IntVal(v.n)
        if isinstance(v, Arr):
            # (length mismatch raises ValueError in pandas)
            E.oblige('lib-pre', _eq_len(v.n, obj.n) if obj.cols or True else True, node,
                     'column length equals number of rows')
            obj.cols[idx] = E.snapshot(v, kind='series')
        elif isinstance(v, PyList):
            raise Unsupported('column from python list')
        else:
            e = _norm_elem(v) if v is not None else None
            if e is None:
                raise Unsupported('None column')
            obj.cols[idx] = E.new_arr(obj.n, _elem_type(e), (lambda i, e=e: e), 'series')
        return
    if isinstance(obj, Opaque) and hasattr(obj, 'arr'):
        from . import grid
        return grid.table_setitem(E, obj, idx, v, node)
    if isinstance(obj, Arr) and getattr(obj, 'lead', None) is not None:
        from . import grid
        return grid.grid_store(E, obj, idx, v, node)
    if isinstance(obj, Arr):
        return arr_store(E, obj, idx, v, node)
    raise Unsupported('store into %r' % (obj,))


def arr_store(E, a, idx, v, node):
    if not a.writeable:
        raise RaiseSig('ValueError', node, 'assignment destination is read-only')
    E.mutate(a.ident, node, 'array element store')
    heap = E.st.heap
    old = heap[a.ident]
    n = a.n if not isinstance(a.n, int) else z3.IntVal(a.n)

    def conv(e):
        e = _norm_elem(e)
        if a.ty == XR:
            return xops.to_x(e)
        if a.ty == REAL and isinstance(e, Z) and e.ty != REAL:
            return Z(to_real(e), REAL)
        if a.ty == INT and isinstance(e, Z) and e.ty == BOOL:
            return Z(to_int(e), INT)
        if a.ty == INT and isinstance(e, Z) and e.ty == REAL:
            raise Unsupported('float stored into int array (truncation)')
        if a.ty == BOOL and isinstance(e, Z) and e.ty != BOOL:
            return Z(zbool(e), BOOL)
        if isinstance(e, X) and a.ty != XR:
            raise Unsupported('xr stored into %s array' % a.ty)
        return e
    # position predicate over *base* indices j
    if isinstance(idx, (int, Z)):
        t = term_int(idx)
        if isinstance(idx, int):
            E.oblige('lib-pre', (n > idx) if idx >= 0 else (n >= -idx), node, 'store index in range')
            pos = idx if idx >= 0 else n + idx
        else:
            E.oblige('lib-pre', z3.And(t >= -n, t < n), node, 'store index in range')
            pos = z3.If(t < 0, n + t, t)
        base_pos = simp(a.off + pos * a.stride)
        val = conv(v)
        heap[a.ident] = lambda j, old=old: E.ite(j == base_pos, val, old(j))
        return
    if isinstance(idx, slice):
        if isinstance(v, Arr):
            raise Unsupported('slice store of an array')
        lo, hi, step, length = norm_slice(E, a.n, idx)
        if step != 1 or a.stride != 1:
            raise Unsupported('strided slice store')
        val = conv(v)
        blo, bhi = simp(a.off + lo), simp(a.off + hi)
        heap[a.ident] = lambda j, old=old: E.ite(z3.And(j >= blo, j < bhi), val, old(j))
        return
    if isinstance(idx, Arr) and idx.ty == BOOL:
        if a.stride != 1 or not _is0(a.off):
            raise Unsupported('masked store through a view')
        E.oblige('lib-pre', _eq_len(a.n, idx.n), node, 'mask length equals array length')
        msrc = heap[idx.ident]
        val = conv(v) if not isinstance(v, Arr) else None
        if val is None:
            raise Unsupported('masked store of array')
        heap[a.ident] = lambda j, old=old: E.ite(z3.And(j >= 0, j < n, zbool(msrc(idx.off + j * idx.stride))), val, old(j))
        return
    if isinstance(idx, Arr) and idx.ty == INT:
        meta = getattr(idx, 'meta', {})
        if 'nonzero_of' in meta and a.stride == 1 and _is0(a.off):
            mask = meta['nonzero_of']
            E.oblige('lib-pre', z3.Implies(mask.n > 0, True) if False else z3.BoolVal(True), node, '')
            msrc = heap[mask.ident]
            val = conv(v)
            mn = mask.n
            # indices are exactly the True positions of mask (all < len(mask)); they must also be < len(a)
            E.oblige('lib-pre', z3.Or(mn <= n, z3.BoolVal(False)), node, 'index array in range')
            heap[a.ident] = lambda j, old=old: E.ite(z3.And(j >= 0, j < mn, zbool(msrc(mask.off + j * mask.stride))), val, old(j))
            return
        if a.stride != 1 or not _is0(a.off) or isinstance(v, Arr):
            raise Unsupported('integer-array store through a view / of an array')
        # a[idx] = scalar for an arbitrary integer index array: the positions hit are exactly the (wrapped) entries of
        # idx - membership as an uninterpreted predicate with its two defining axioms (every entry is hit; every hit
        # position has a witness entry)
        m = idx.n if not isinstance(idx.n, int) else z3.IntVal(idx.n)
        isrc, i_off, i_str = heap[idx.ident], idx.off, idx.stride
        raw = lambda k: to_int(isrc(i_off + k * i_str))
        norm = lambda k: z3.If(raw(k) < 0, n + raw(k), raw(k))
        k = z3.Int(fresh_name('k'))
        E.oblige('lib-pre', z3.ForAll([k], z3.Implies(z3.And(k >= 0, k < m), z3.And(raw(k) >= -n, raw(k) < n))),
                 node, 'store indices in range')
        # the membership predicate depends only on the index array's contents and the wrapped length: one predicate per
        # (index array snapshot, length), shared by every store through it
        skey = ('scatter-set', idx.ident, id(isrc), str(i_off), i_str, str(m), str(n))
        known = E.st.ghost.get(skey)
        if known is None:
            hit = z3.Function(fresh_name('hit'), z3.IntSort(), z3.BoolSort())
            wit = z3.Function(fresh_name('wit'), z3.IntSort(), z3.IntSort())
            j = z3.Int(fresh_name('j'))
            ax = [z3.ForAll([k], z3.Implies(z3.And(k >= 0, k < m), hit(norm(k))), patterns=[raw(k)]),
                  z3.ForAll([j], z3.Implies(hit(j), z3.And(wit(j) >= 0, wit(j) < m, norm(wit(j)) == j)), patterns=[hit(j)])]
            for f in ax:
                E.assumptions_quant(f)
            E.st.ghost[skey] = known = (hit, wit, ax)
        hit, wit, ax = known
        val = conv(v)
        cnt = len(E.st.ghost.setdefault('scatter', []))
        E.st.ghost['scatter'].append(dict(arr=a, idx=idx, hit=hit, wit=wit, m=m, norm=norm, raw=raw, line=getattr(node, 'lineno', None)))
        E.st.ghost.setdefault('facts', {})['scatter#%d' % (cnt + 1)] = ax
        heap[a.ident] = lambda j, old=old: E.ite(z3.And(j >= 0, j < n, hit(j)), val, old(j))
        return
    raise Unsupported('array store index %r' % (idx,))


def marker_store(E, mk, slc_node, v, node):
    idx = E.eval(slc_node)
    if mk.kind == 'iloc' and isinstance(idx, tuple) and len(idx) == 2 and isinstance(idx[1], Marker) \
            and idx[1].kind == 'colidx':
        f = mk.obj
        col = idx[1].extra
        E.mutate(f.ident, node, 'iloc store')
        a = f.cols[col]
        t = term_int(idx[0])
        E.oblige('lib-pre', z3.And(t >= -f.n, t < f.n), node, 'iloc row in range')
        pos = z3.If(t < 0, f.n + t, t)
        old = E.st.heap[a.ident]
        val = _norm_elem(v)
        if a.ty == XR:
            val = xops.to_x(val)
        new = E.new_arr(f.n, a.ty, (lambda j, old=old, a=a: E.ite(j == pos, val, old(a.off + j * a.stride))), 'series')
        f.cols = dict(f.cols)
        f.cols[col] = new
        return
    raise Unsupported('store through %s' % mk.kind)


def _opq_like(e0):
    from .engine import _opq
    return _opq(e0.t, getattr(e0, 'length', None))
