"""bycycle.features.burst — C05 (burst features equal their definitions), C07 (burst fraction), C15."""
from . import contract, arr_result, frame_result
from vf.values import BOOL, INT, REAL, XR

DIRECTIONS = [('both', ('const', 'both')), ('next', ('const', 'next')), ('last', ('const', 'last')), ('other', 'str')]


def _centre_cases(extra_cols, ncol_min=1):
    cases = []
    for centre, marker in (('peak', 'sample_peak'), ('trough', 'sample_trough')):
        for dl, dt in DIRECTIONS:
            cols = dict(extra_cols)
            cols[marker] = INT
            cases.append(dict(label='%s-centred,direction=%s' % (centre, dl),
                              params={'df_shape_features': ('frame', cols, ncol_min), 'direction': dt},
                              peak=(centre == 'peak')))
    return cases


def _ac_cases():
    out = []
    for c in _centre_cases({'volt_rise': XR, 'volt_decay': XR}):
        pk = 'True' if c.pop('peak') else 'False'
        c['ensures'] = [
            "len(result) == len(df_shape_features)",
            "isnan(result[0]) and isnan(result[len(result) - 1])",
            "forall(c, 1 <= c < len(result) - 1, same(result[c], amp_consistency_spec("
            "df_shape_features['volt_rise'], df_shape_features['volt_decay'], %s, direction, c)))" % pk,
        ]
        c['loops'] = {1: dict(index='k', invariant=[
            "isnan(amp_consistency[0]) and isnan(amp_consistency[cycles - 1])",
            "len(amp_consistency) == cycles and cycles == len(df_shape_features)",
            "len(rises) == cycles and len(decays) == cycles",
            "forall(j, 0 <= j < cycles, same(rises[j], df_shape_features['volt_rise'][j]) and "
            "same(decays[j], df_shape_features['volt_decay'][j]))",
            "forall(c, 1 <= c < 1 + k, same(amp_consistency[c], amp_consistency_raw_spec("
            "df_shape_features['volt_rise'], df_shape_features['volt_decay'], %s, direction, c)))" % pk,
            "forall(c, 1 + k <= c < cycles - 1, same(amp_consistency[c], 0.0))",
        ])}
        out.append(c)
    return out


contract(
    'bycycle.features.burst.compute_amp_consistency',
    cases=_ac_cases(),
    case_requires={'direction=other': ["direction != 'both' and direction != 'next' and direction != 'last'"]},
    requires=["len(df_shape_features) >= 1"],
    raises={'ValueError': "direction != 'both' and direction != 'next' and direction != 'last'"},
    modifies=[],
    result=arr_result(XR),
)


def _pc_cases():
    out = []
    for dl, dt in DIRECTIONS:
        out.append(dict(
            label='direction=%s' % dl,
            params={'df_shape_features': ('frame', {'period': INT}, 1), 'direction': dt},
            ensures=[
                "len(result) == len(df_shape_features)",
                "isnan(result[0]) and isnan(result[len(result) - 1])",
                "forall(c, 1 <= c < len(result) - 1, same(result[c], period_consistency_spec("
                "df_shape_features['period'], direction, c)))",
            ],
            loops={1: dict(index='k', invariant=[
                "isnan(period_consistency[0]) and isnan(period_consistency[cycles - 1])",
                "len(period_consistency) == cycles and cycles == len(df_shape_features) and len(periods) == cycles",
                "forall(j, 0 <= j < cycles, periods[j] == df_shape_features['period'][j])",
                "forall(c, 1 <= c < 1 + k, same(period_consistency[c], period_consistency_spec("
                "df_shape_features['period'], direction, c)))",
            ])}))
    return out


contract(
    'bycycle.features.burst.compute_period_consistency',
    cases=_pc_cases(),
    case_requires={'direction=other': ["direction != 'both' and direction != 'next' and direction != 'last'"]},
    # helper precondition from the call sites: periods of a cycle table are positive (C01 row invariant)
    requires=["len(df_shape_features) >= 1",
              "forall(j, 0 <= j < len(df_shape_features), df_shape_features['period'][j] > 0)"],
    raises={'ValueError': "direction != 'both' and direction != 'next' and direction != 'last'"},
    modifies=[],
    result=arr_result(XR),
)


# ---------------------------------------------------------------------------------------------- amp_fraction
contract(
    'bycycle.features.burst.compute_amp_fraction',
    params={'df_shape_features': ('frame', {'volt_amp': XR})},
    # C05: average rank of volt_amp divided by the number of cycles
    ensures=["len(result) == len(df_shape_features)",
             "forall(i, 0 <= i < len(result), same(result[i], "
             "xdiv(df_shape_features['volt_amp'].rank()[i], len(df_shape_features))))"],
    modifies=[],
    result=arr_result(XR, 'series'),
)


# ---------------------------------------------------------------------------------------------- monotonicity
def _mono_cases():
    out = []
    for centre in ('peak', 'trough'):
        if centre == 'peak':
            cols = {'sample_last_trough': INT, 'sample_peak': INT, 'sample_next_trough': INT}
            a, b, c = 'sample_last_trough', 'sample_peak', 'sample_next_trough'
            rise = "df_samples['%s'][{i}] : df_samples['%s'][{i}] + 1" % (a, b)
            decay = "df_samples['%s'][{i}] : df_samples['%s'][{i}] + 1" % (b, c)
        else:
            cols = {'sample_last_peak': INT, 'sample_trough': INT, 'sample_next_peak': INT}
            a, b, c = 'sample_last_peak', 'sample_trough', 'sample_next_peak'
            decay = "df_samples['%s'][{i}] : df_samples['%s'][{i}] + 1" % (a, b)
            rise = "df_samples['%s'][{i}] : df_samples['%s'][{i}] + 1" % (b, c)
        # C05: mean of (fraction of strictly decreasing steps in the decay, fraction of strictly increasing
        # steps in the rise), windows from extremum to extremum inclusive
        spec = ("np.mean([np.mean(np.diff(sig[" + decay + "]) < 0), np.mean(np.diff(sig[" + rise + "]) > 0)])")
        out.append(dict(
            label='%s-centred' % centre,
            params={'df_samples': ('frame', cols), 'sig': ('arr', REAL)},
            requires=["forall(j, 0 <= j < len(df_samples), 0 <= df_samples['%s'][j] and "
                      "df_samples['%s'][j] < df_samples['%s'][j] and df_samples['%s'][j] < df_samples['%s'][j] "
                      "and df_samples['%s'][j] < len(sig))" % (a, a, b, b, c, c)],
            ensures=["len(result) == len(df_samples)",
                     "forall(i, 0 <= i < len(result), same(result[i], " + spec.format(i='i') + "))"],
            loops={1: dict(index='k', invariant=[
                "len(monotonicity) == cycles and cycles == len(df_samples)",
                "forall(i, 0 <= i < k, same(monotonicity[i], " + spec.format(i='i') + "))"])}))
    return out


contract('bycycle.features.burst.compute_monotonicity', cases=_mono_cases(), modifies=[], result=arr_result(XR))


# ---------------------------------------------------------------------------------------------- burst fraction
def _bf_cases():
    out = []
    for centre, side in (('peak', 'trough'), ('trough', 'peak')):
        for dl, dt in (('dur=None', 'none'), ('dur=given', REAL)):
            for fl, ft in (('fk=None', 'none'), ('fk=given', 'opaque')):
                cols = {'sample_last_' + side: INT, 'sample_next_' + side: INT, 'sample_' + centre: INT}
                # C07: fraction of the cycle's samples, last to next side extremum inclusive, that the dual-threshold
                # detector marks; the detector gets min_n_cycles unless a minimum duration is given
                det = ("detect_bursts_dual_threshold(sig, fs, amp_threshes, f_range, min_n_cycles=%s, "
                       "min_burst_duration=min_burst_duration%s)"
                       % ('min_n_cycles' if dt == 'none' else 'None', '' if ft == 'none' else ', **filter_kwargs'))
                spec = ("np.mean(" + det + ".astype(int)[df_samples['sample_last_%s'][{i}] : "
                        "df_samples['sample_next_%s'][{i}] + 1])" % (side, side))
                out.append(dict(
                    label='%s-centred,%s,%s' % (centre, dl, fl),
                    params={'df_samples': ('frame', cols), 'sig': ('arr', REAL), 'fs': REAL,
                            'f_range': ('tuple', [REAL, REAL]), 'amp_threshes': ('tuple', [REAL, REAL]),
                            'min_n_cycles': INT, 'min_burst_duration': dt, 'filter_kwargs': ft},
                    ensures=["len(result) == len(df_samples)",
                             "forall(i, 0 <= i < len(result), same(result[i], " + spec.format(i='i') + "))"],
                    loops={1: dict(index='k', appends={'burst_fraction': XR}, invariant=[
                        "len(burst_fraction) == k",
                        "forall(i, 0 <= i < k, same(burst_fraction[i], " + spec.format(i='i') + "))"])}))
    return out


contract(
    'bycycle.features.burst.compute_burst_fraction',
    cases=_bf_cases(),
    # C19: negative sampling rate, negative or reversed amplitude thresholds
    raises={'ValueError': "fs < 0 or amp_threshes[0] < 0 or amp_threshes[0] > amp_threshes[1]"},
    modifies=[],
    result=arr_result(XR, 'list'),
)


# ---------------------------------------------------------------------------------------------- compute_burst_features
SHAPE_COLS = {'period': INT, 'time_peak': INT, 'time_trough': INT, 'volt_peak': XR, 'volt_trough': XR,
              'time_decay': INT, 'time_rise': INT, 'volt_decay': XR, 'volt_rise': XR, 'volt_amp': XR,
              'time_rdsym': XR, 'time_ptsym': XR, 'band_amp': XR}


def sample_cols(centre):
    if centre == 'peak':
        return ['sample_peak', 'sample_last_zerox_decay', 'sample_zerox_decay', 'sample_zerox_rise',
                'sample_last_trough', 'sample_next_trough']
    return ['sample_trough', 'sample_last_zerox_rise', 'sample_zerox_rise', 'sample_zerox_decay',
            'sample_last_peak', 'sample_next_peak']


def shape_frame_type(centre, min_rows=0):
    cols = dict(SHAPE_COLS)
    for c in sample_cols(centre):
        cols[c] = INT
    return ('frame', cols, min_rows)


def row_invariant(df, centre, sig='sig'):
    """the C01 row invariant on the sample columns of table `df` (helper precondition of the feature functions)"""
    side = 'trough' if centre == 'peak' else 'peak'
    a, b, c = 'sample_last_' + side, 'sample_' + centre, 'sample_next_' + side
    return ("forall(j, 0 <= j < len({df}), 0 <= {df}['{a}'][j] and {df}['{a}'][j] < {df}['{b}'][j] and "
            "{df}['{b}'][j] < {df}['{c}'][j] and {df}['{c}'][j] < len({sig}))").format(df=df, a=a, b=b, c=c, sig=sig)


def _range_proof(centre):
    """explicit steps for the two range clauses: a min/max ratio of positive finite values lies in (0, 1], so do the
    (nan-ignoring) minima of such ratios, and clamping at 0 leaves them alone"""
    def h(P):
        import z3
        from vf import xops
        from vf.values import X, Z, XRS
        E, env = P.E, P.env
        df = env['df_shape_features']
        res = env.get('__return__')
        env2 = dict(E.entry_env)
        env2['result'] = res
        clauses = burst_feature_specs('df_shape_features', centre)
        xa, xb = z3.Const('G_a', XRS), z3.Const('G_b', XRS)
        zero, one = xops.to_x(Z(z3.RealVal(0), REAL)), xops.to_x(Z(z3.RealVal(1), REAL))
        pos = lambda t: z3.And(xops.wf(t), xops.isfin(X(t)), xops.lt(zero, X(t)))
        rng = lambda V: z3.And(xops.lt(zero, V), z3.Not(xops.lt(one, V)), xops.isfin(V), xops.wf(V.t))
        P.forall('xr:ratio-range', [xa, xb], z3.And(pos(xa), pos(xb)), rng(xops.ratio(X(xa), X(xb))))
        P.forall('xr:min-range', [xa, xb], z3.And(rng(X(xa)), rng(X(xb))),
                 z3.And(rng(xops.np_min2(X(xa), X(xb))), rng(xops.nanmin2(X(xa), X(xb))), xops.same(xops.clamp0(X(xa)), X(xa))))
        col = lambda c, x: xops.to_x(E.rd(df.cols[c], x))
        F = E.st.ghost['facts']
        inst_all = lambda name, xs: [P.inst_formula(f, x) if (z3.is_quantifier(f) and f.num_vars() == 1) else f
                                      for f in (F.get(name) or []) for x in xs]
        # period consistency
        def by_pc(i):
            p = lambda j: col('period', j)
            last, nxt = xops.ratio(p(i), p(i - 1)), xops.ratio(p(i + 1), p(i))
            return (inst_all('call:compute_period_consistency#1', [i]) + inst_all('requires', [i - 1, i, i + 1]) +
                    [P.inst('xr:ratio-range', p(i).t, p(i - 1).t), P.inst('xr:ratio-range', p(i + 1).t, p(i).t),
                     P.inst('xr:min-range', nxt.t, last.t)])
        P.prove_clause('range:period_consistency', clauses[-2], env2, by_pc)
        # amplitude consistency
        pk = centre == 'peak'

        def by_ac(i):
            r, d = (lambda j: col('volt_rise', j)), (lambda j: col('volt_decay', j))
            cur = xops.ratio(r(i), d(i))
            if pk:
                last, nxt = xops.ratio(r(i), d(i - 1)), xops.ratio(r(i + 1), d(i))
                pairs = [(r(i), d(i)), (r(i), d(i - 1)), (r(i + 1), d(i))]
            else:
                last, nxt = xops.ratio(r(i - 1), d(i)), xops.ratio(r(i), d(i + 1))
                pairs = [(r(i), d(i)), (r(i - 1), d(i)), (r(i), d(i + 1))]
            inner = xops.nanmin2(cur, nxt)
            both = xops.nanmin2(inner, last)
            wf = [xops.wf(v.t) for j in (i - 1, i, i + 1) for v in (r(j), d(j))]
            return (inst_all('call:compute_amp_consistency#1', [i]) + wf +
                    [P.inst('xr:ratio-range', a_.t, b_.t) for a_, b_ in pairs] +
                    [P.inst('xr:min-range', cur.t, nxt.t), P.inst('xr:min-range', inner.t, last.t), P.inst('xr:min-range', both.t, both.t)])
        P.prove_clause('range:amp_consistency', clauses[-1], env2, by_ac)
    return h


def burst_feature_specs(df, centre, res='result'):
    """C05 restated over the columns of table `df` (peak/trough naming by centring)"""
    pk = 'True' if centre == 'peak' else 'False'
    side = 'trough' if centre == 'peak' else 'peak'
    a, b, c = 'sample_last_' + side, 'sample_' + centre, 'sample_next_' + side
    if centre == 'peak':
        rise = "{df}['%s'][i] : {df}['%s'][i] + 1" % (a, b)
        decay = "{df}['%s'][i] : {df}['%s'][i] + 1" % (b, c)
    else:
        decay = "{df}['%s'][i] : {df}['%s'][i] + 1" % (a, b)
        rise = "{df}['%s'][i] : {df}['%s'][i] + 1" % (b, c)
    mono = "np.mean([np.mean(np.diff(sig[" + decay + "]) < 0), np.mean(np.diff(sig[" + rise + "]) > 0)])"
    n = "len({res})"
    out = [
        "forall(i, 0 <= i < %s, same({res}['amp_fraction'][i], xdiv({df}['volt_amp'].rank()[i], len({df}))))" % n,
        "isnan({res}['amp_consistency'][0]) and isnan({res}['amp_consistency'][%s - 1])" % n,
        "forall(i, 1 <= i < %s - 1, same({res}['amp_consistency'][i], amp_consistency_spec("
        "{df}['volt_rise'], {df}['volt_decay'], %s, 'both', i)))" % (n, pk),
        "isnan({res}['period_consistency'][0]) and isnan({res}['period_consistency'][%s - 1])" % n,
        "forall(i, 1 <= i < %s - 1, same({res}['period_consistency'][i], period_consistency_spec("
        "{df}['period'], 'both', i)))" % n,
        "forall(i, 0 <= i < %s, same({res}['monotonicity'][i], %s))" % (n, mono),
        # C05, range: the two consistencies lie in [0, 1] whenever the periods / (finite) flank voltages involved are positive
        "forall(i, 1 <= i < %s - 1, implies({df}['period'][i - 1] > 0 and {df}['period'][i] > 0 and {df}['period'][i + 1] > 0, "
        "0 <= {res}['period_consistency'][i] and {res}['period_consistency'][i] <= 1))" % n,
        "forall(i, 1 <= i < %s - 1, implies(" % n + " and ".join("{df}['%s'][i%s] > 0 and isfinite({df}['%s'][i%s])" % (c_, o_, c_, o_)
                                                                 for c_ in ('volt_rise', 'volt_decay') for o_ in (' - 1', '', ' + 1')) +
        ", 0 <= {res}['amp_consistency'][i] and {res}['amp_consistency'][i] <= 1))",
    ]
    return [s.format(df=df, res=res) for s in out]


def burst_fraction_spec(df, centre, res, fs, f_range, amp, mnc, dur, fk_suffix):
    side = 'trough' if centre == 'peak' else 'peak'
    det = ("detect_bursts_dual_threshold(sig, %s, %s, %s, min_n_cycles=%s, min_burst_duration=%s%s)"
           % (fs, amp, f_range, mnc, dur, fk_suffix))
    return ("forall(i, 0 <= i < len({res}), same({res}['burst_fraction'][i], np.mean(" + det +
            ".astype(int)[{df}['sample_last_%s'][i] : {df}['sample_next_%s'][i] + 1])))" % (side, side)
            ).format(df=df, res=res)


BK_KEYS = {'fs': REAL, 'f_range': ('tuple', [REAL, REAL]), 'amp_threshes': ('tuple', [REAL, REAL]),
           'min_n_cycles': INT, 'min_burst_duration': REAL, 'filter_kwargs': 'opaque'}


def _cbf_cases():
    out = []
    for centre in ('peak', 'trough'):
        ft = shape_frame_type(centre, 1)
        for bl, bt in (('bk=None', 'none'), ('bk=dict', ('dict', BK_KEYS))):
            out.append(dict(
                label='cycles,%s-centred,%s' % (centre, bl),
                params={'df_shape_features': ft, 'sig': ('arr', REAL), 'burst_method': ('const', 'cycles'),
                        'burst_kwargs': bt},
                requires=[row_invariant('df_shape_features', centre),
                          "forall(j, 0 <= j < len(df_shape_features), df_shape_features['period'][j] > 0)"],
                ensures=["len(result) == len(df_shape_features)"] + burst_feature_specs('df_shape_features', centre),
                # the range clause of amp_consistency needs nothing but the callee's own clauses about that column
                proof={('before_return',): _range_proof(centre)},
                ensures_using={8: ['range:period_consistency'], 9: ['range:amp_consistency']}))
        # amp: every subset of the documented keys of burst_kwargs (presence bits are symbolic)
        amp = "(value(burst_kwargs, 'amp_threshes') if present(burst_kwargs, 'amp_threshes') else (1, 2))"
        mnc = ("(None if present(burst_kwargs, 'min_burst_duration') else "
               "(value(burst_kwargs, 'min_n_cycles') if present(burst_kwargs, 'min_n_cycles') else 3))")
        dur = "(value(burst_kwargs, 'min_burst_duration') if present(burst_kwargs, 'min_burst_duration') else None)"
        for fl in ('fk=absent', 'fk=given'):
            keys = dict(BK_KEYS)
            req = []
            if fl == 'fk=absent':
                req.append("not present(burst_kwargs, 'filter_kwargs')")
                fk = ''
            else:
                req.append("present(burst_kwargs, 'filter_kwargs')")
                fk = ", **value(burst_kwargs, 'filter_kwargs')"
            out.append(dict(
                label='amp,%s-centred,%s' % (centre, fl),
                params={'df_shape_features': ft, 'sig': ('arr', REAL), 'burst_method': ('const', 'amp'),
                        'burst_kwargs': ('dict', keys)},
                requires=req,
                raises={'ValueError': "not present(burst_kwargs, 'fs') or not present(burst_kwargs, 'f_range') or "
                                      "value(burst_kwargs, 'fs') < 0 or %s[0] < 0 or %s[0] > %s[1]" % (amp, amp, amp)},
                ensures=["len(result) == len(df_shape_features)",
                         burst_fraction_spec('df_shape_features', centre, 'result', "value(burst_kwargs, 'fs')",
                                             "value(burst_kwargs, 'f_range')", amp, mnc, dur, fk)]))
    out.append(dict(label='other-method', params={'df_shape_features': shape_frame_type('peak', 1),
                                                  'sig': ('arr', REAL), 'burst_method': 'str', 'burst_kwargs': 'none'},
                    requires=["burst_method != 'cycles' and burst_method != 'amp'"],
                    raises={'ValueError': "True"}))
    return out


def _cbf_result_cols(env):
    m = env['burst_method']
    if m == 'cycles':
        return {'amp_fraction': XR, 'amp_consistency': XR, 'period_consistency': XR, 'monotonicity': XR}
    return {'burst_fraction': XR}


contract(
    'bycycle.features.burst.compute_burst_features',
    cases=_cbf_cases(),
    modifies=[],
    result=frame_result(_cbf_result_cols),
)
