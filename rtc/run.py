"""CLI of the run-time side:  /venv/bin/python -m rtc.run --jobs a,b --tier quick --seed 0 --out f.json
                              /venv/bin/python -m rtc.run --replay file.json"""
import argparse
import importlib
import json
import os
import pkgutil
import sys
import warnings

warnings.simplefilter('ignore')
os.environ.setdefault('MPLBACKEND', 'Agg')
# single-threaded numerical libraries: their thread pools do not survive fork(), and the group functions fork worker pools
for _v in ('OMP_NUM_THREADS', 'OPENBLAS_NUM_THREADS', 'MKL_NUM_THREADS', 'NUMEXPR_NUM_THREADS', 'VECLIB_MAXIMUM_THREADS'):
    os.environ[_v] = '1'

from . import core  # noqa: E402


def load_jobs():
    import rtc
    for m in pkgutil.iter_modules(rtc.__path__):
        if m.name.startswith('jobs_'):
            importlib.import_module('rtc.' + m.name)


def main():
    ap = argparse.ArgumentParser()
    ap.add_argument('--jobs', default='')
    ap.add_argument('--tier', default='quick')
    ap.add_argument('--seed', type=int, default=0)
    ap.add_argument('--out', default='-')
    ap.add_argument('--budget', type=float, default=None)
    ap.add_argument('--replay', default=None)
    ap.add_argument('--list', action='store_true')
    ap.add_argument('--one-case', default=None, help='JSON file {job, case}: run a single case in this process (isolation)')
    a = ap.parse_args()
    load_jobs()
    if a.one_case:
        with open(a.one_case) as f:
            doc = json.load(f)
        r = core._run_chunk((doc['job'], [doc['case']]))[0]
        print('ONE-CASE-RESULT ' + json.dumps(r))
        return 0
    if a.list:
        for n, j in core.JOBS.items():
            print(n, j.meta)
        return 0
    if a.replay:
        import json as _json
        with open(a.replay) as f:
            doc = _json.load(f)
        if doc.get('kind') == 'model':
            from . import modelreplay
            r = modelreplay.replay(doc)
            if r and r.startswith('SKIP'):
                print('REPLAY', r)
                return 4
            print('REPLAY', 'FAILS: ' + r if r else 'passes')
            return 1 if r else 0
        r = core.replay(a.replay)
        print('REPLAY', 'FAILS: ' + r if r else 'passes')
        return 1 if r else 0
    res = []
    for name in [x for x in a.jobs.split(',') if x]:
        if name not in core.JOBS:
            res.append({'job': name, 'errors': [{'what': 'CHECKER-ERROR unknown job'}], 'failures': [],
                        'evaluations': 0, 'distinct_nontrivial': 0, 'samples': [], 'bound': '', 'wall_s': 0})
            continue
        res.append(core.run_job(name, a.tier, a.seed, a.budget))
    out = json.dumps(res, default=str)
    if a.out == '-':
        print(out)
    else:
        with open(a.out, 'w') as f:
            f.write(out)
    return 0


if __name__ == '__main__':
    sys.exit(main())
