"""Native reproductions of the genuine defects D1..D10 found on the pinned tree.

Run: /venv/bin/python /verif/findings/repro.py [D1 D2 ...]
Prints '<id> PRESENT <detail>' or '<id> absent'.  Exit 0 always (this is documentation,
the checks under /verif/check are what decide properties).
"""
import sys, warnings, copy
import numpy as np, pandas as pd
warnings.simplefilter('ignore')


def sine(n=2000, fs=500, f=10, ph=0.3, asym=0.0):
    t = np.arange(n) / fs
    return np.sin(2*np.pi*f*t + ph) + asym*np.sin(4*np.pi*f*t + 1.0)


TH = dict(amp_fraction_threshold=0., amp_consistency_threshold=.5,
          period_consistency_threshold=.5, monotonicity_threshold=.5, min_n_cycles=3)


def D1():
    from bycycle.features import compute_features
    try:
        compute_features(sine(), 500, (8, 12), threshold_kwargs=dict(TH))
    except ValueError as e:
        return 'compute_features(burst_method="cycles") raises ValueError: %s' % e


def _table():
    from bycycle.features import compute_shape_features, compute_burst_features
    rng = np.random.RandomState(3)
    t = np.arange(4000)/500
    env = (np.sin(2*np.pi*0.5*t) > -0.2).astype(float)
    sig = env*np.sin(2*np.pi*10*t) + 0.35*rng.randn(4000)
    sh = compute_shape_features(sig, 500, (8, 12))
    bf = compute_burst_features(sh, sig)
    df = pd.concat((bf, sh), axis=1)
    return sig, df


def D2():
    from bycycle.burst.utils import recompute_edge
    sig, df = _table()
    df['is_burst'] = False
    before = df.copy()
    changed = 0
    for i in range(1, len(df)-1):
        out = recompute_edge(df.copy(), i, 'next')
        a, b = out['amp_consistency'].values, before['amp_consistency'].values
        p, q = out['period_consistency'].values, before['period_consistency'].values
        if not (np.array_equal(a, b, equal_nan=True) and np.array_equal(p, q, equal_nan=True)):
            changed += 1
    if changed == 0:
        return 'recompute_edge changed 0 of %d rows (chained assignment is lost)' % (len(df)-2)


def D3():
    from bycycle.group import compute_features_3d
    from bycycle.features import compute_features
    sigs = np.array([[sine(ph=0.1*(2*i+j), f=9+i+0.5*j) for j in range(2)] for i in range(2)])
    kw = dict(threshold_kwargs=dict(TH))
    out = compute_features_3d(sigs, 500, (7, 13), compute_features_kwargs=kw, axis=(0, 1), n_jobs=1)
    ref = compute_features(sigs[1, 0], 500, (7, 13), **copy.deepcopy(kw))
    if not out[1][0].equals(ref):
        ref01 = compute_features(sigs[0, 1], 500, (7, 13), **copy.deepcopy(kw))
        return 'axis=(0,1): out[1][0] != analysis of sigs[1,0]; equals sigs[0,1]: %s' % out[1][0].equals(ref01)


def D4():
    from bycycle.group.utils import check_kwargs_shape
    sigs = np.zeros((2, 3, 10))
    kw = np.array([[{}]*3]*2)
    bad = []
    for axis in (0, 1):
        try:
            check_kwargs_shape(sigs, kw, axis)
            bad.append(axis)
        except ValueError:
            pass
    if bad:
        return '2-D option list accepted for 3-D sigs with axis in %s' % bad


def D5():
    from bycycle.utils import limit_df, limit_signal
    msgs = []
    sig, df = _table()
    for kw in (dict(start=None, stop=2.), dict(start=1., stop=None), dict()):
        try:
            limit_df(df.copy(), 500, **kw)
        except TypeError as e:
            msgs.append('limit_df(%s) TypeError' % kw)
    try:
        limit_signal(np.arange(10)/10, np.arange(10.), start=None, stop=.5)
    except TypeError:
        msgs.append('limit_signal(start=None) TypeError')
    from bycycle.features import compute_shape_features
    sh = compute_shape_features(sig, 500, (8, 12), center_extrema='trough')
    try:
        limit_df(sh, 500, start=1., stop=3.)
    except KeyError as e:
        msgs.append('limit_df(trough-centred) KeyError %s' % e)
    return '; '.join(msgs) or None


def D6():
    from bycycle.cyclepoints import extrema_interpolated_phase
    msgs = []
    n = 14
    pha = extrema_interpolated_phase(np.zeros(n), np.array([2, 9]), np.array([6, 13]))
    if np.isnan(pha).all():
        msgs.append('P2 T6 P9 T13 (n=14): all NaN')
    pha = extrema_interpolated_phase(np.zeros(n), np.array([2, 10]), np.array([6]))
    if not np.isnan(pha[11]):
        msgs.append('P2 T6 P10 (n=14): sample 11 outside span is %r' % pha[11])
    return '; '.join(msgs) or None


def D7():
    from bycycle.features import compute_features
    bk, tk = {}, {'burst_fraction_threshold': 0.5}
    msgs = []
    try:
        compute_features(sine(), 500, (8, 12), burst_method='amp', burst_kwargs=bk, threshold_kwargs=tk)
    except Exception as e:
        msgs.append('raised %r' % e)
    if bk != {}:
        msgs.append('caller burst_kwargs became %r' % bk)
    if tk != {'burst_fraction_threshold': 0.5}:
        msgs.append('caller threshold_kwargs became %r' % tk)
    bk = {'min_n_cycles': 2}
    tk = {'burst_fraction_threshold': 0.5}
    compute_features(sine(), 500, (8, 12), burst_method='amp', burst_kwargs=bk, threshold_kwargs=tk)
    if tk != {'burst_fraction_threshold': 0.5} or bk != {'min_n_cycles': 2}:
        msgs.append('second case: bk=%r tk=%r' % (bk, tk))
    return '; '.join(msgs) or None


def D8():
    from bycycle.cyclepoints import find_extrema
    try:
        find_extrema(sine(), 500, (8, 12), filter_kwargs={'n_seconds': 0.5})
    except ValueError as e:
        return "find_extrema(filter_kwargs={'n_seconds': .5}) ValueError: %s" % e


def D9():
    from bycycle.group import compute_features_2d
    from bycycle.features import compute_features
    from bycycle.utils import epoch_df
    sig = sine(n=3000)
    sigs = sig.reshape(3, 1000)
    kw = dict(threshold_kwargs=dict(TH))
    out = compute_features_2d(sigs, 500, (8, 12), compute_features_kwargs=kw, axis=None, n_jobs=1)
    flat = compute_features(sig, 500, (8, 12), **copy.deepcopy(kw))
    ref = epoch_df(flat, 3000, 1000)
    bad = [e for e in range(3) if not np.array_equal(out[e]['is_burst'].values, ref[e]['is_burst'].values)]
    if bad:
        return 'single option set, axis=None: is_burst of epochs %s differs from the flattened analysis' % bad


def D10():
    from bycycle.plts import cyclepoints as pc
    import matplotlib
    matplotlib.use('Agg')
    calls = []
    orig = pc.plot_time_series
    pc.plot_time_series = lambda *a, **k: calls.append((a, k))
    try:
        fs = 1000
        sig = np.arange(6000.)
        times = np.arange(0, len(sig)/fs, 1/fs)
        k0 = 4007
        peaks = np.array([4500])
        pc.plot_cyclepoints_array(sig, fs, peaks=peaks, xlim=(times[k0], times[5500]), plot_sig=False)
    finally:
        pc.plot_time_series = orig
    x, y = calls[-1][0][0][0], calls[-1][0][1][0]
    if y[0] != sig[4500]:
        return 'window starting on sample %d at fs=1000: marker for sample 4500 drawn with value of sample %d at t=%r' % (k0, int(y[0]), float(x[0]))


if __name__ == '__main__':
    ids = sys.argv[1:] or ['D%d' % k for k in range(1, 11)]
    for d in ids:
        try:
            r = globals()[d]()
        except Exception as e:
            r = 'repro itself raised %r' % e
        print(d, 'PRESENT ' + r if r else 'absent')
