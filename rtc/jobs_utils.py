"""Bounded stand-ins for the table / signal utilities (C18, C13) and edge recomputation (C16)."""
import copy
import itertools
import random

import numpy as np
import pandas as pd

from .core import job
from . import oracles as O

NAN = float('nan')


def synth_table(centre, sides, mids_seed=0, extra=True):
    """a synthetic cycle table of the given centring from a strictly increasing list of side-extremum samples"""
    rng = random.Random(mids_seed)
    n = len(sides) - 1
    L, N = np.array(sides[:-1]), np.array(sides[1:])
    C = np.array([rng.randint(a + 1, b - 1) for a, b in zip(L, N)])
    ZA = np.array([rng.randint(a, c) for a, c in zip(L, C)])
    ZB = np.array([rng.randint(c, b) for c, b in zip(C, N)])
    ZL = np.concatenate(([max(0, L[0] - 1)], ZB[:-1])) if n else np.array([], int)
    other = 'trough' if centre == 'peak' else 'peak'
    names = O.roles(pd.DataFrame(columns=['sample_' + centre]))
    d = {names['C']: C, names['L']: L, names['N']: N, names['ZA']: ZA, names['ZB']: ZB, names['ZL']: ZL}
    if extra:
        d['period'] = N - L
        d['volt_amp'] = np.array([1.0 + 0.25 * k for k in range(n)])
        d['is_burst'] = np.array([k % 3 != 0 for k in range(n)], dtype=bool)
        d['time_rdsym'] = (C - L) / np.maximum(N - L, 1)
    return pd.DataFrame(d)


@job('limit_df', props=['C18', 'C20'], function='bycycle.utils.dataframes.limit_df')
class LimitDf:
    exhaustive = True
    chunk = 200

    def bound(self, tier):
        return ('synthetic tables of both centrings with 0..%d cycles on a grid of side extrema, fs in {1, 4, 500}, every '
                'start/stop from {None} U {cycle boundaries, midpoints between them, before the first, after the last}, '
                'reset_indices in {True, False}' % (4 if tier == 'quick' else 6))

    def gen(self, tier, seed):
        nmax = 4 if tier == 'quick' else 6
        for centre in ('peak', 'trough'):
            for n in range(0, nmax + 1):
                sides = [4 + 8 * k + (k % 2) * 3 for k in range(n + 1)]
                cand = [None, 0] + sides + [s + 2 for s in sides] + [sides[-1] + 9]
                # off-grid limits (fs * start not an integer: the uniform shift must still be uniform)
                cand += [sides[0] - 0.5, sides[0] + 0.43]
                variants = [(1, cand, sides), (4, cand, sides), (500, cand, sides)]
                if n >= 1:
                    # large sample indices at fs = 500 / 1000: (k / fs) * fs is then not always k in floating point
                    for fs_, off in ((500, 1001), (1000, 4003)):
                        s2 = [s + off for s in sides]
                        variants.append((fs_, [None] + s2 + [s2[-1] + 7], s2))
                for fs, cand, sides_v in variants:
                    for a, b in itertools.product(range(len(cand)), repeat=2):
                        st, sp = cand[a], cand[b]
                        if st is not None and sp is not None and st > sp:
                            continue
                        for reset in (True, False):
                            yield dict(centre=centre, sides=sides_v, fs=fs, start=st, stop=sp, reset=reset, seed=seed)

    def nontrivial(self, c):
        return len(c['sides']) >= 3 and (c['start'] is not None or c['stop'] is not None)

    def run(self, c):
        from bycycle.utils import limit_df
        df = synth_table(c['centre'], c['sides'], c['seed'])
        before = df.copy()
        fs = c['fs']
        start = None if c['start'] is None else c['start'] / fs
        stop = None if c['stop'] is None else c['stop'] / fs
        try:
            out = limit_df(df, fs, start=start, stop=stop, reset_indices=c['reset'])
        except Exception as e:
            return 'raised %r' % (e,)
        d = O.frames_identical(df, before)
        if d:
            return 'input table modified: ' + d
        r = O.roles(before)
        L, N = before[r['L']].values, before[r['N']].values
        lo = -np.inf if c['start'] is None else c['start']
        hi = np.inf if c['stop'] is None else c['stop']
        inside = [(lo <= L[i]) and (N[i] <= hi) for i in range(len(before))]
        outside = [(N[i] < lo) or (L[i] > hi) for i in range(len(before))]
        kept = list(out.index)
        if kept != sorted(kept):
            return 'row order changed'
        for i in range(len(before)):
            if inside[i] and i not in kept:
                return 'cycle %d lies entirely inside [start, stop] but was dropped' % i
            if outside[i] and i in kept:
                return 'cycle %d lies entirely outside [start, stop] but was kept' % i
        off = None
        for col in before.columns:
            a, b = before.loc[kept, col].values, out[col].values
            if col.startswith('sample_'):
                if len(a):
                    d0 = set((a - b).tolist())
                    if len(d0) != 1:
                        return 'sample column %s shifted non-uniformly' % col
                    o = d0.pop()
                    if off is None:
                        off = o
                    if o != off:
                        return 'sample columns shifted by different offsets (%s vs %s)' % (o, off)
                    if not c['reset'] and o != 0:
                        return 'sample column %s shifted although reset_indices=False' % col
            elif not O.same_array(a, b):
                return 'feature column %s altered' % col
        return None


@job('limit_signal', props=['C18', 'C20'], function='bycycle.utils.timeseries.limit_signal')
class LimitSignal:
    exhaustive = True
    chunk = 500

    def bound(self, tier):
        return 'times 0..n-1 over fs for n <= %d, fs in {1, 4, 1000}, start/stop None or any grid time or half-grid time; also event-locked axes starting before time zero' % (8 if tier == 'quick' else 12)

    def gen(self, tier, seed):
        nmax = 8 if tier == 'quick' else 12
        for n in range(1, nmax + 1):
            for fs in (1, 4, 1000):
                cand = [None] + [k / 2 for k in range(0, 2 * n + 2)]
                for a, b in itertools.product(cand, repeat=2):
                    if a is not None and b is not None and a > b:
                        continue
                    yield dict(n=n, fs=fs, start=a, stop=b)
                    if n >= 3 and (a == 0 or b == 0 or (a is None and b is not None)):
                        # an event-locked time axis that starts before zero (limits stay non-negative)
                        yield dict(n=n, fs=fs, start=a, stop=b, shift=(n // 2))

    def nontrivial(self, c):
        return c['start'] is not None or c['stop'] is not None

    def run(self, c):
        from bycycle.utils import limit_signal
        n, fs = c['n'], c['fs']
        times = np.arange(0, n / fs, 1 / fs)[:n]
        sig = np.arange(n, dtype=float) * 1.5 + 0.25
        start = None if c['start'] is None else times[int(c['start'])] if c['start'] == int(c['start']) and c['start'] < n else c['start'] / fs
        stop = None if c['stop'] is None else times[int(c['stop'])] if c['stop'] == int(c['stop']) and c['stop'] < n else c['stop'] / fs
        if c.get('shift'):
            times = times - times[c['shift']]              # samples before time zero; start / stop were taken on the old axis
            start = None if start is None else max(0.0, float(start) - float(c['shift']) / fs)
            stop = None if stop is None else max(0.0 if start is None else start, float(stop) - float(c['shift']) / fs)
        t0, s0 = times.copy(), sig.copy()
        try:
            s, t = limit_signal(times, sig, start=start, stop=stop)
        except Exception as e:
            return 'raised %r' % (e,)
        if not (np.array_equal(times, t0) and np.array_equal(sig, s0)):
            return 'inputs modified'
        keep = np.ones(n, bool)
        if start is not None:
            keep &= times >= start
        if stop is not None:
            keep &= times < stop
        if not (np.array_equal(t, times[keep]) and np.array_equal(s, sig[keep])):
            return 'selection is not exactly start <= t < stop: got %s' % (t,)
        return None


@job('samples_split_flatten', props=['C18'], function='bycycle.utils.dataframes.flatten_dfs')
class SplitFlatten:
    exhaustive = True
    chunk = 100

    def bound(self, tier):
        return 'split/drop on synthetic tables of both centrings (0..4 cycles); flatten_dfs over 1-D lists (1..4 tables) and 2-D lists (up to 3x3) with matching and mismatching label counts'

    def gen(self, tier, seed):
        for centre in ('peak', 'trough'):
            for n in range(0, 5):
                yield dict(kind='split', centre=centre, n=n)
        for k in range(1, 5):
            for nl in range(0, 6):
                yield dict(kind='flat1', k=k, nl=nl, lens=[(j * 2 + 1) % 4 for j in range(k)])
        for a in range(1, 4):
            for b in range(1, 4):
                for nl in (a * b, a * b - 1, a * b + 1, a, b):
                    yield dict(kind='flat2', a=a, b=b, nl=nl)

    def nontrivial(self, c):
        return c['kind'] != 'split' or c['n'] >= 2

    def run(self, c):
        from bycycle.utils import split_samples_df, drop_samples_df, flatten_dfs
        if c['kind'] == 'split':
            sides = [3 + 7 * k for k in range(c['n'] + 1)]
            df = synth_table(c['centre'], sides, 1)
            ref = df.copy()
            out = drop_samples_df(df)
            if O.frames_identical(df, ref):
                return 'drop_samples_df modified its input'
            keep = [col for col in ref.columns if not col.startswith('sample_')]
            if list(out.columns) != keep:
                return 'drop_samples_df columns %s expected %s' % (list(out.columns), keep)
            d = O.frames_identical(out, ref[keep])
            if d:
                return 'drop_samples_df altered a value: ' + d
            feats, samples = split_samples_df(df.copy())
            if list(feats.columns) != keep or list(samples.columns) != [col for col in ref.columns if col.startswith('sample_')]:
                return 'split_samples_df partition wrong: %s | %s' % (list(feats.columns), list(samples.columns))
            d = O.frames_identical(feats, ref[keep]) or O.frames_identical(samples, ref[list(samples.columns)])
            return ('split_samples_df altered a value: ' + d) if d else None
        if c['kind'] == 'flat1':
            dfs = [pd.DataFrame({'x': np.arange(L) + 10 * j, 'y': np.arange(L) * 0.5}) for j, L in enumerate(c['lens'])]
            labels = ['lab%d' % j for j in range(c['nl'])]
            try:
                out = flatten_dfs([d.copy() for d in dfs], labels)
            except ValueError:
                return None if c['nl'] != c['k'] else 'ValueError for matching label count'
            if c['nl'] != c['k']:
                return 'mismatching label count accepted'
            exp = pd.concat([d.assign(Label=labels[j]) for j, d in enumerate(dfs)], axis=0)
            d = O.frames_identical(out, exp)
            return ('flatten_dfs (1-D): ' + d) if d else None
        a, b = c['a'], c['b']
        dfs = [[pd.DataFrame({'x': np.arange((i + j) % 3 + 1) + 100 * i + 10 * j}) for j in range(b)] for i in range(a)]
        labels = [['L%d%d' % (i, j) for j in range(b)] for i in range(a)]
        flat_labels = [x for row in labels for x in row][:c['nl']]
        if c['nl'] > a * b:
            flat_labels += ['extra'] * (c['nl'] - a * b)
        lab_arg = np.array(labels) if c['nl'] == a * b else np.array(flat_labels)
        try:
            out = flatten_dfs([[d.copy() for d in row] for row in dfs], lab_arg)
        except ValueError:
            return None if c['nl'] != a * b else 'ValueError for matching label count (2-D)'
        if c['nl'] != a * b:
            return 'mismatching label count accepted (2-D)'
        exp = pd.concat([dfs[i][j].assign(Label=labels[i][j]) for i in range(a) for j in range(b)], axis=0)
        d = O.frames_identical(out, exp)
        return ('flatten_dfs (2-D): ' + d) if d else None


@job('epoch_df', props=['C13'], function='bycycle.utils.dataframes.epoch_df')
class EpochDf:
    exhaustive = True
    chunk = 300

    def bound(self, tier):
        return ('both centrings, 0..%d cycles with side extrema on every increasing subsequence of a small grid, epoch '
                'lengths 3..9 (boundaries coinciding with cycle ends, empty epochs included)' % (4 if tier == 'quick' else 5))

    def gen(self, tier, seed):
        nmax = 4 if tier == 'quick' else 5
        grid = list(range(1, 23, 2)) + [6, 12, 18]
        grid = sorted(set(grid))
        rng = random.Random(seed)
        for centre in ('peak', 'trough'):
            for n in range(0, nmax + 1):
                combos = list(itertools.combinations(grid, n + 1))
                if len(combos) > (60 if tier == 'quick' else 400):
                    combos = rng.sample(combos, 60 if tier == 'quick' else 400)
                for sides in combos:
                    for L in (3, 4, 6, 9):
                        yield dict(centre=centre, sides=list(sides), L=L)

    def nontrivial(self, c):
        return len(c['sides']) >= 3

    def run(self, c):
        from bycycle.utils import epoch_df
        sides = [2 * s for s in c['sides']]        # room for centre samples strictly between side extrema
        L = 2 * c['L']
        df = synth_table(c['centre'], sides, 3)
        ref = df.copy()
        sig_len = ((sides[-1] + 1 + L - 1) // L) * L
        try:
            out = epoch_df(df, sig_len, L)
        except Exception as e:
            return 'raised %r' % (e,)
        if O.frames_identical(df, ref):
            return 'input table modified'
        E = sig_len // L
        if len(out) != E:
            return '%d epochs expected, got %d' % (E, len(out))
        r = O.roles(ref)
        closing = ref[r['N']].values
        seen = []
        for e in range(E):
            rows = [i for i in range(len(ref)) if e * L < closing[i] <= (e + 1) * L]
            seen += rows
            sub = out[e]
            if len(sub) != len(rows):
                return 'epoch %d holds %d rows, expected rows %s' % (e, len(sub), rows)
            for col in ref.columns:
                a = ref[col].values[rows]
                b = sub[col].values
                if col.startswith('sample_'):
                    a = a - e * L
                if not O.same_array(a, b):
                    return 'epoch %d column %s: %s expected %s' % (e, col, b, a)
        if seen != list(range(len(ref))):
            return 'cycles not partitioned in order: %s' % seen
        return None


def runs_of(b):
    out = []
    i, n = 0, len(b)
    while i < n:
        if b[i]:
            j = i
            while j < n and b[j]:
                j += 1
            out.append((i, j - 1))
            i = j
        else:
            i += 1
    return out


@job('recompute_edges', props=['C16', 'C15'], function='bycycle.burst.utils.recompute_edges')
class RecomputeEdges:
    exhaustive = False
    chunk = 100
    COLS = ('amp_fraction', 'amp_consistency', 'period_consistency', 'monotonicity')

    def bound(self, tier):
        return ('synthetic tables of both centrings with 3..%d rows: every is_burst pattern with both ends False, flank '
                'voltages over {1,2,3} and periods over {2,3,4} (seeded), two threshold presets and reductions; plus tables '
                'from the signal corpus' % (6 if tier == 'quick' else 8))

    def gen(self, tier, seed):
        nmax = 6 if tier == 'quick' else 8
        rng = random.Random(seed)
        for centre in ('peak', 'trough'):
            for n in range(3, nmax + 1):
                for bits in range(1 << (n - 2)):
                    for rep in range(1 if tier == 'quick' else 3):
                        yield dict(kind='synth', centre=centre, n=n, bits=bits << 1, vs=rng.getrandbits(30), th=rng.choice([0, 1]))
        from .signals import FAMILIES
        for fam in FAMILIES[:6 if tier == 'quick' else None]:
            for centre in ('peak', 'trough'):
                yield dict(kind='corpus', family=fam, seed=seed, centre=centre, th=1)

    def nontrivial(self, c):
        return c['kind'] == 'corpus' or c['bits'] != 0

    THS = [dict(amp_fraction_threshold=0., amp_consistency_threshold=.6, period_consistency_threshold=.6,
                monotonicity_threshold=.5, min_n_cycles=1),
           dict(amp_fraction_threshold=0., amp_consistency_threshold=.4, period_consistency_threshold=.5,
                monotonicity_threshold=.6, min_n_cycles=2)]

    def table(self, c):
        if c['kind'] == 'corpus':
            from bycycle.features import compute_features
            from .signals import make_signal
            sig = make_signal(c['family'], c['seed'])
            return compute_features(sig, 500.0, (7.0, 13.0), center_extrema=c['centre'],
                                    threshold_kwargs=dict(self.THS[c['th']]))
        rng = random.Random(c['vs'])
        n = c['n']
        marker = 'sample_peak' if c['centre'] == 'peak' else 'sample_trough'
        df = pd.DataFrame({
            'volt_rise': np.array([rng.choice([1., 2., 3.]) for _ in range(n)]),
            'volt_decay': np.array([rng.choice([1., 2., 3.]) for _ in range(n)]),
            'period': np.array([rng.choice([2, 3, 4]) for _ in range(n)]),
            'amp_fraction': np.array([(k + 1) / n for k in range(n)]),
            'monotonicity': np.array([rng.choice([.4, .7, 1.]) for _ in range(n)]),
            marker: np.arange(n) * 10 + 5})
        df['amp_consistency'] = O.amp_consistency_ref(df['volt_rise'].values, df['volt_decay'].values, c['centre'] == 'peak')
        df['period_consistency'] = O.period_consistency_ref(df['period'].values.astype(float))
        df['is_burst'] = np.array([bool((c['bits'] >> k) & 1) for k in range(n)])
        return df

    def run(self, c):
        from bycycle.burst.utils import recompute_edges
        df = self.table(c)
        ref = df.copy()
        th = dict(self.THS[c['th']])
        th0 = dict(th)
        out = recompute_edges(df, th)
        if O.frames_identical(df, ref):
            return 'the input table was modified'
        if th != th0:
            return 'the thresholds dictionary was modified'
        if out is df:
            return 'the input table object was returned'
        n = len(ref)
        pk = 'sample_peak' in ref.columns
        b = [bool(x) for x in ref['is_burst'].values]
        vr, vd, per = ref['volt_rise'].values, ref['volt_decay'].values, ref['period'].values.astype(float)
        ac = {d: O.amp_consistency_ref(vr, vd, pk, d) for d in ('next', 'last')}
        pc = {d: O.period_consistency_ref(per, d) for d in ('next', 'last')}
        allowed = {}          # row -> set of allowed directions
        for s, e in runs_of(b):
            if s - 1 >= 0:
                allowed.setdefault(s - 1, set()).add('next')
            if e + 1 < n:
                allowed.setdefault(e + 1, set()).add('last')
        for col in ref.columns:
            if col in ('amp_consistency', 'period_consistency', 'is_burst'):
                continue
            if not O.same_array(out[col].values, ref[col].values):
                return 'column %s changed' % col
        edited = ref.copy()
        for name, refs in (('amp_consistency', ac), ('period_consistency', pc)):
            got = out[name].values
            old = ref[name].values
            for i in range(n):
                if i in allowed:
                    oks = [refs[d][i] if 0 < i < n - 1 else NAN for d in allowed[i]]
                    if not any(O.same_float(got[i], v, 1e-12) for v in oks):
                        return '%s at edge row %d is %r, expected the one-sided value %s' % (name, i, got[i], oks)
                elif not O.same_float(got[i], old[i]):
                    return '%s changed at row %d which is not next to a burst' % (name, i)
            edited[name] = got
        m = th0['min_n_cycles']
        exp = O.cycles_labels_ref(edited, {k: v for k, v in th0.items() if k != 'min_n_cycles'}, m)
        gotb = [bool(x) for x in out['is_burst'].values]
        if gotb != exp:
            return 'new labels are not the threshold-and-run rule on the edited table: %s expected %s' % (gotb, exp)
        if c['kind'] == 'corpus':
            lost = [i for i in range(n) if b[i] and not gotb[i]]
            if lost:
                return 'previously bursting cycles %s lost their label under unchanged thresholds' % lost[:6]
        return None
