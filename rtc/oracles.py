"""The spec functions of DESIGN.md section 3 as plain python — none of this is code from the repo."""
import math
import numpy as np


def minrun(b, m):
    """reference for the minimum-run filter: position i survives iff it lies in a maximal run of True of
    length >= m"""
    n = len(b)
    out = [False] * n
    i = 0
    while i < n:
        if b[i]:
            j = i
            while j < n and b[j]:
                j += 1
            if j - i >= m:
                for k in range(i, j):
                    out[k] = True
            i = j
        else:
            i += 1
    return out


def gt(a, t):
    """IEEE >: false on nan"""
    return (not (isinstance(a, float) and math.isnan(a))) and a > t


def ge(a, t):
    return (not (isinstance(a, float) and math.isnan(a))) and a >= t


def same_float(a, b, tol=0.0):
    a, b = float(a), float(b)
    if math.isnan(a) or math.isnan(b):
        return math.isnan(a) and math.isnan(b)
    if a == b:
        return True
    if math.isinf(a) or math.isinf(b):
        return False
    return abs(a - b) <= tol * max(1.0, abs(a), abs(b))


def same_array(a, b, tol=0.0):
    a, b = np.asarray(a), np.asarray(b)
    if a.shape != b.shape:
        return False
    if a.dtype == object or b.dtype == object:
        return all(x == y or (x != x and y != y) for x, y in zip(a.ravel(), b.ravel()))
    if a.dtype.kind in 'biu' and b.dtype.kind in 'biu':
        return bool(np.array_equal(a, b))
    return all(same_float(x, y, tol) for x, y in zip(a.ravel().tolist(), b.ravel().tolist()))


def frames_identical(a, b, tol=0.0, cols=None):
    """None if the two tables have the same columns (in order) and values, else a description"""
    if list(a.columns) != list(b.columns) and cols is None:
        return 'columns differ: %s vs %s' % (list(a.columns), list(b.columns))
    if len(a) != len(b):
        return 'row counts differ: %d vs %d' % (len(a), len(b))
    for c in (cols or a.columns):
        if not same_array(a[c].values, b[c].values, tol):
            return 'column %s differs: %s vs %s' % (c, a[c].values[:8], b[c].values[:8])
    return None


# ------------------------------------------------------------------------------------------------
# C01 / C04 / C05 oracles over a finished table (definitions taken from the property statements)
# ------------------------------------------------------------------------------------------------
def roles(df):
    if 'sample_peak' in df.columns:
        return dict(centre='peak', C='sample_peak', L='sample_last_trough', N='sample_next_trough',
                    ZA='sample_zerox_rise', ZB='sample_zerox_decay', ZL='sample_last_zerox_decay')
    return dict(centre='trough', C='sample_trough', L='sample_last_peak', N='sample_next_peak',
                ZA='sample_zerox_decay', ZB='sample_zerox_rise', ZL='sample_last_zerox_rise')


def check_rows(df, n_sig, boundary=0):
    """C01: ordered, gap-free, inside the signal and the boundary"""
    if len(df) < 1:
        return 'empty table'
    r = roles(df)
    L, C, N, ZA, ZB, ZL = (df[r[k]].values.astype(int) for k in ('L', 'C', 'N', 'ZA', 'ZB', 'ZL'))
    for i in range(len(df)):
        if not (boundary < L[i] < C[i] < N[i] < n_sig - boundary):
            return 'row %d: not boundary < last %d < centre %d < next %d < n - boundary' % (i, L[i], C[i], N[i])
        if not (L[i] <= ZA[i] <= C[i] <= ZB[i] <= N[i]):
            return 'row %d: midpoints %d, %d not between their extrema %d, %d, %d' % (i, ZA[i], ZB[i], L[i], C[i], N[i])
        if not (0 <= ZL[i] <= L[i]):
            return 'row %d: last midpoint %d after last side extremum %d' % (i, ZL[i], L[i])
    for i in range(len(df) - 1):
        if N[i] != L[i + 1]:
            return 'rows %d/%d do not share their side extremum (%d vs %d)' % (i, i + 1, N[i], L[i + 1])
    return None


def check_shape(df, sig, amp=None, tol=1e-9):
    """C04 against the ORIGINAL signal"""
    r = roles(df)
    L, C, N, ZA, ZB, ZL = (df[r[k]].values.astype(int) for k in ('L', 'C', 'N', 'ZA', 'ZB', 'ZL'))
    exp = {'period': N - L}
    if r['centre'] == 'peak':
        exp.update(time_peak=ZB - ZA, time_trough=ZA - ZL, volt_peak=sig[C], volt_trough=sig[L],
                   time_decay=N - C, time_rise=C - L, volt_decay=sig[C] - sig[N], volt_rise=sig[C] - sig[L])
    else:
        exp.update(time_trough=ZB - ZA, time_peak=ZA - ZL, volt_trough=sig[C], volt_peak=sig[L],
                   time_rise=N - C, time_decay=C - L, volt_rise=sig[N] - sig[C], volt_decay=sig[L] - sig[C])
    exp['volt_amp'] = (exp['volt_decay'] + exp['volt_rise']) / 2
    with np.errstate(all='ignore'):
        exp['time_rdsym'] = exp['time_rise'] / exp['period']
        exp['time_ptsym'] = exp['time_peak'] / (exp['time_peak'] + exp['time_trough'])
    if amp is not None:
        exp['band_amp'] = np.array([np.mean(amp[a:b]) for a, b in zip(L, N)])
    for k, v in exp.items():
        exact = k.startswith('time_') and k not in ('time_rdsym', 'time_ptsym') or k == 'period'
        if not same_array(df[k].values, v, 0.0 if exact else tol):
            return 'column %s is not its documented definition: got %s expected %s' % (k, df[k].values[:6], np.asarray(v)[:6])
    if not ((df['time_rdsym'].values > 0) & (df['time_rdsym'].values < 1)).all():
        return 'time_rdsym outside (0, 1)'
    return None


def _ratio(a, b):
    with np.errstate(all='ignore'):
        return np.float64(min(a, b) if not (a != a or b != b) else np.nan) / np.float64(max(a, b) if not (a != a or b != b) else np.nan)


def _nanmin(xs):
    xs = [x for x in xs if x == x]
    return min(xs) if xs else float('nan')


def amp_consistency_ref(rises, decays, peak_centred, direction='both'):
    n = len(rises)
    out = np.full(n, np.nan)
    for c in range(1, n - 1):
        cur = _ratio(rises[c], decays[c])
        if peak_centred:
            last, nxt = _ratio(rises[c], decays[c - 1]), _ratio(rises[c + 1], decays[c])
        else:
            last, nxt = _ratio(rises[c - 1], decays[c]), _ratio(rises[c], decays[c + 1])
        pairs = {'both': [cur, nxt, last], 'next': [cur, nxt], 'last': [cur, last]}[direction]
        v = _nanmin(pairs)
        if all(x != x for x in (cur, nxt, last)):
            v = float('nan')
        out[c] = 0.0 if v < 0 else v
    return out


def period_consistency_ref(periods, direction='both'):
    n = len(periods)
    out = np.full(n, np.nan)
    for c in range(1, n - 1):
        last, nxt = _ratio(periods[c], periods[c - 1]), _ratio(periods[c + 1], periods[c])
        out[c] = {'both': min(nxt, last), 'next': nxt, 'last': last}[direction]
    return out


def avg_rank_ref(v):
    v = np.asarray(v, dtype=float)
    out = np.full(len(v), np.nan)
    for i, x in enumerate(v):
        if x == x:
            out[i] = np.sum(v < x) + (np.sum(v == x) + 1) / 2.0
    return out


def monotonicity_ref(df, sig):
    r = roles(df)
    L, C, N = (df[r[k]].values.astype(int) for k in ('L', 'C', 'N'))
    out = np.zeros(len(df))
    for i in range(len(df)):
        first, second = sig[L[i]:C[i] + 1], sig[C[i]:N[i] + 1]
        if r['centre'] == 'peak':
            rise, decay = first, second
        else:
            decay, rise = first, second
        up = np.mean(np.diff(rise) > 0)
        down = np.mean(np.diff(decay) < 0)
        out[i] = (down + up) / 2
    return out


def check_burst_features(df, sig, tol=1e-12):
    """C05"""
    r = roles(df)
    pk = r['centre'] == 'peak'
    n = len(df)
    exp = {
        'amp_fraction': avg_rank_ref(df['volt_amp'].values) / n,
        'amp_consistency': amp_consistency_ref(df['volt_rise'].values, df['volt_decay'].values, pk),
        'period_consistency': period_consistency_ref(df['period'].values.astype(float)),
        'monotonicity': monotonicity_ref(df, sig),
    }
    for k, v in exp.items():
        if not same_array(df[k].values, v, tol):
            return 'column %s is not its documented definition: got %s expected %s' % (k, df[k].values[:6], v[:6])
    return None


def cycles_labels_ref(df, thr, m):
    n = len(df)
    cols = ('amp_fraction', 'amp_consistency', 'period_consistency', 'monotonicity')
    q = [0 < i < n - 1 and all(gt(float(df[c].values[i]), thr[c + '_threshold']) for c in cols) for i in range(n)]
    return minrun(q, m)
