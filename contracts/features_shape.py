"""bycycle.features.{shape,cyclepoints} and rename_extrema_df — C01 (row assembly), C04, C09."""
import z3

from . import contract, arr_result, frame_result
from .features_burst import SHAPE_COLS, sample_cols, shape_frame_type, row_invariant
from vf.values import BOOL, INT, REAL, XR, Frame, SDict, fresh_name

PEAK_SAMPLES = {c: INT for c in sample_cols('peak')}


def full_row_invariant(df, n_sig, boundary='0'):
    """C01 row + tiling invariant, peak naming: last_trough < peak < next_trough, midpoints (inclusively) between the
    extrema they separate, everything inside the signal and beyond the boundary, consecutive rows share a trough"""
    return [
        ("forall(j, 0 <= j < len({df}), {b} < {df}['sample_last_trough'][j] and "
         "{df}['sample_last_trough'][j] < {df}['sample_peak'][j] and {df}['sample_peak'][j] < {df}['sample_next_trough'][j] "
         "and {df}['sample_next_trough'][j] < {n} - {b})").format(df=df, n=n_sig, b=boundary),
        ("forall(j, 0 <= j < len({df}), {df}['sample_last_trough'][j] <= {df}['sample_zerox_rise'][j] and "
         "{df}['sample_zerox_rise'][j] <= {df}['sample_peak'][j] and {df}['sample_peak'][j] <= {df}['sample_zerox_decay'][j] "
         "and {df}['sample_zerox_decay'][j] <= {df}['sample_next_trough'][j] and "
         "0 <= {df}['sample_last_zerox_decay'][j] and {df}['sample_last_zerox_decay'][j] <= {df}['sample_last_trough'][j])"
         ).format(df=df),
        ("forall(j, 0 <= j < len({df}) - 1, {df}['sample_next_trough'][j] == {df}['sample_last_trough'][j + 1] and "
         "{df}['sample_zerox_decay'][j] == {df}['sample_last_zerox_decay'][j + 1])").format(df=df),
    ]


# ------------------------------------------------------------------------------------------------ durations
def _tuple3_series(E, env):
    n = env['df_samples'].n
    return tuple(E.new_arr(n, INT, kind='series', base='dur%d' % k) for k in range(3))


contract(
    'bycycle.features.shape.compute_durations',
    params={'df_samples': ('frame', PEAK_SAMPLES)},
    ensures=[
        "len(result[0]) == len(df_samples) and len(result[1]) == len(df_samples) and len(result[2]) == len(df_samples)",
        "forall(i, 0 <= i < len(df_samples), result[0][i] == df_samples['sample_next_trough'][i] - df_samples['sample_last_trough'][i])",
        "forall(i, 0 <= i < len(df_samples), result[1][i] == df_samples['sample_zerox_decay'][i] - df_samples['sample_zerox_rise'][i])",
        "forall(i, 0 <= i < len(df_samples), result[2][i] == df_samples['sample_zerox_rise'][i] - df_samples['sample_last_zerox_decay'][i])",
    ],
    modifies=[],
    result=_tuple3_series,
)

IN_RANGE = ("forall(j, 0 <= j < len(df_samples), 0 <= df_samples['sample_last_trough'][j] and "
            "df_samples['sample_last_trough'][j] < len(sig) and 0 <= df_samples['sample_peak'][j] and "
            "df_samples['sample_peak'][j] < len(sig) and 0 <= df_samples['sample_next_trough'][j] and "
            "df_samples['sample_next_trough'][j] < len(sig))")


def _tuple2_real(E, env):
    n = env['df_samples'].n
    return tuple(E.new_arr(n, REAL, kind='ndarray', base='volt%d' % k) for k in range(2))


contract(
    'bycycle.features.shape.compute_extrema_voltage',
    params={'df_samples': ('frame', PEAK_SAMPLES), 'sig': ('arr', REAL)},
    requires=[IN_RANGE],
    ensures=[
        "len(result[0]) == len(df_samples) and len(result[1]) == len(df_samples)",
        "forall(i, 0 <= i < len(df_samples), result[0][i] == sig[df_samples['sample_peak'][i]])",
        "forall(i, 0 <= i < len(df_samples), result[1][i] == sig[df_samples['sample_last_trough'][i]])",
    ],
    modifies=[],
    result=_tuple2_real,
)

SYM_KEYS = {'time_decay': INT, 'time_rise': INT, 'volt_decay': REAL, 'volt_rise': REAL, 'volt_amp': XR,
            'time_rdsym': XR, 'time_ptsym': XR}


def _sym_result(E, env):
    n = env['df_samples'].n
    items = {}
    for k, ty in SYM_KEYS.items():
        kind = 'series' if k.startswith('time') else 'ndarray'
        items[k] = [True, E.new_arr(n, ty, kind=kind, base='sym.' + k)]
    return SDict(E.new_ident(), items)


def _sym_ensures(period, tpk, ttr):
    D = "df_samples"
    return [
        " and ".join("len(result['%s']) == len(df_samples)" % k for k in SYM_KEYS),
        "forall(i, 0 <= i < len(%s), result['time_decay'][i] == %s['sample_next_trough'][i] - %s['sample_peak'][i])" % (D, D, D),
        "forall(i, 0 <= i < len(%s), result['time_rise'][i] == %s['sample_peak'][i] - %s['sample_last_trough'][i])" % (D, D, D),
        "forall(i, 0 <= i < len(%s), result['volt_decay'][i] == sig[%s['sample_peak'][i]] - sig[%s['sample_next_trough'][i]])" % (D, D, D),
        "forall(i, 0 <= i < len(%s), result['volt_rise'][i] == sig[%s['sample_peak'][i]] - sig[%s['sample_last_trough'][i]])" % (D, D, D),
        "forall(i, 0 <= i < len(%s), same(result['volt_amp'][i], xdiv(result['volt_decay'][i] + result['volt_rise'][i], 2)))" % D,
        "forall(i, 0 <= i < len(%s), same(result['time_rdsym'][i], xdiv(result['time_rise'][i], %s)))" % (D, period),
        "forall(i, 0 <= i < len(%s), same(result['time_ptsym'][i], xdiv(%s, %s + %s)))" % (D, tpk, tpk, ttr),
    ]


contract(
    'bycycle.features.shape.compute_symmetry',
    cases=[
        dict(label='durations-given',
             params={'df_samples': ('frame', PEAK_SAMPLES), 'sig': ('arr', REAL), 'period': ('series', INT),
                     'time_peak': ('series', INT), 'time_trough': ('series', INT)},
             requires=["len(period) == len(df_samples) and len(time_peak) == len(df_samples) and "
                       "len(time_trough) == len(df_samples)"],
             ensures=_sym_ensures('period[i]', 'time_peak[i]', 'time_trough[i]')),
        dict(label='durations-None',
             params={'df_samples': ('frame', PEAK_SAMPLES), 'sig': ('arr', REAL), 'period': 'none',
                     'time_peak': 'none', 'time_trough': 'none'},
             ensures=_sym_ensures(
                 "(df_samples['sample_next_trough'][i] - df_samples['sample_last_trough'][i])",
                 "(df_samples['sample_zerox_decay'][i] - df_samples['sample_zerox_rise'][i])",
                 "(df_samples['sample_zerox_rise'][i] - df_samples['sample_last_zerox_decay'][i])")),
    ],
    requires=[IN_RANGE],
    modifies=[],
    result=_sym_result,
)

TILE = "forall(j, 0 <= j < len(df_samples) - 1, df_samples['sample_next_trough'][j] == df_samples['sample_last_trough'][j + 1])"
BAND_SPEC = ("np.mean(amp_by_time(sig, fs, f_range, remove_edges=False, n_cycles=n_cycles)"
             "[{df}['sample_last_trough'][{i}] : {df}['sample_next_trough'][{i}]])")

contract(
    'bycycle.features.shape.compute_band_amp',
    params={'df_samples': ('frame', PEAK_SAMPLES, 1), 'sig': ('arr', REAL), 'fs': REAL,
            'f_range': ('tuple', [REAL, REAL]), 'n_cycles': REAL},
    # the re-assembled trough array equals [last, next) per row only for a table that tiles (C01)
    requires=["len(df_samples) >= 1", TILE],
    raises={'ValueError': "fs < 0 or n_cycles < 0"},
    # C04: mean analytic band amplitude over [last side, next side)
    ensures=["len(result) == len(df_samples)",
             "forall(i, 0 <= i < len(result), same(result[i], " + BAND_SPEC.format(df='df_samples', i='i') + "))"],
    modifies=[],
    result=arr_result(XR, 'list'),
)


# ------------------------------------------------------------------------------------------------ rename_extrema_df
FEATURE_RENAME = {'time_peak': 'time_trough', 'time_trough': 'time_peak', 'volt_peak': 'volt_trough',
                  'volt_trough': 'volt_peak', 'time_rise': 'time_decay', 'time_decay': 'time_rise',
                  'volt_rise': 'volt_decay', 'volt_decay': 'volt_rise'}
SAMPLE_RENAME = {'sample_peak': 'sample_trough', 'sample_zerox_decay': 'sample_zerox_rise',
                 'sample_zerox_rise': 'sample_zerox_decay', 'sample_last_zerox_decay': 'sample_last_zerox_rise',
                 'sample_last_trough': 'sample_last_peak', 'sample_next_trough': 'sample_next_peak'}
PEAK_FRAME_COLS = dict(SHAPE_COLS, **PEAK_SAMPLES)
PEAK_FRAME_COLS.update({'volt_peak': REAL, 'volt_trough': REAL, 'volt_decay': REAL, 'volt_rise': REAL})


def _rename_ensures(with_samples):
    """whole-table postcondition: every column of the result is named and valued as the mirror rule says"""
    ens = ["result is df_features", "len(result) == len(old(df_features))"]
    for c in SHAPE_COLS:
        new = FEATURE_RENAME.get(c, c)
        src = "old(df_features)['%s'][i]" % c
        if new in ('volt_peak', 'volt_trough'):
            val = "-" + src
            ens.append("forall(i, 0 <= i < len(result), result['%s'][i] == %s)" % (new, val))
        elif new in ('time_rdsym', 'time_ptsym'):
            ens.append("forall(i, 0 <= i < len(result), same(result['%s'][i], xsub(1, %s)))" % (new, src))
        else:
            ens.append("forall(i, 0 <= i < len(result), same(result['%s'][i], %s))" % (new, src))
    for c in PEAK_SAMPLES:
        new = SAMPLE_RENAME[c] if with_samples else c
        ens.append("forall(i, 0 <= i < len(result), result['%s'][i] == old(df_features)['%s'][i])" % (new, c))
    ens.append("ncols(result) == %d" % (len(SHAPE_COLS) + len(PEAK_SAMPLES)))
    return ens


def _same_frame(E, env):
    return env['df_features']


def _renamed_frame(with_samples):
    def make(E, env):
        f = env['df_features']
        cols = {}
        for c, a in f.cols.items():
            new = FEATURE_RENAME.get(c, c)
            if with_samples:
                new = SAMPLE_RENAME.get(new, new) if c in SAMPLE_RENAME else new
            cols[new] = E.new_arr(f.n, a.ty, kind='series', base='ren.' + new)
        f.cols = cols
        return f
    return make


contract(
    'bycycle.utils.dataframes.rename_extrema_df',
    cases=[
        dict(label='peak', params={'center_extrema': ('const', 'peak'), 'df_features': ('frame', PEAK_FRAME_COLS),
                                   'return_samples': BOOL},
             ensures=["result is df_features", "len(result) == len(old(df_features))", "ncols(result) == %d" % len(PEAK_FRAME_COLS)] +
                     ["forall(i, 0 <= i < len(result), same(result['%s'][i], old(df_features)['%s'][i]))" % (c, c)
                      for c in PEAK_FRAME_COLS],
             result=_same_frame),
        dict(label='trough,samples', params={'center_extrema': ('const', 'trough'),
                                             'df_features': ('frame', PEAK_FRAME_COLS), 'return_samples': ('const', True)},
             ensures=_rename_ensures(True), result=_renamed_frame(True)),
        dict(label='trough,nosamples', params={'center_extrema': ('const', 'trough'),
                                               'df_features': ('frame', PEAK_FRAME_COLS), 'return_samples': ('const', False)},
             ensures=_rename_ensures(False), result=_renamed_frame(False)),
    ],
    modifies=['df_features'],
)


# ------------------------------------------------------------------------------------------------ compute_shape_features
def roles(centre):
    if centre == 'peak':
        return dict(C='sample_peak', L='sample_last_trough', N='sample_next_trough', ZA='sample_zerox_rise',
                    ZB='sample_zerox_decay', ZL='sample_last_zerox_decay')
    return dict(C='sample_trough', L='sample_last_peak', N='sample_next_peak', ZA='sample_zerox_decay',
                ZB='sample_zerox_rise', ZL='sample_last_zerox_rise')


def shape_specs(res, centre, sig='sig', amp_args="fs, f_range, remove_edges=False, n_cycles=n_cycles"):
    """C04: every shape feature as the documented function of the row's cyclepoints and the ORIGINAL signal"""
    r = roles(centre)
    col = lambda c: "%s['%s'][i]" % (res, c)
    C, L, N, ZA, ZB, ZL = (col(r[k]) for k in ('C', 'L', 'N', 'ZA', 'ZB', 'ZL'))
    S = lambda idx: "%s[%s]" % (sig, idx)
    if centre == 'peak':
        d = {'time_peak': "%s - %s" % (ZB, ZA), 'time_trough': "%s - %s" % (ZA, ZL),
             'volt_peak': S(C), 'volt_trough': S(L), 'time_decay': "%s - %s" % (N, C), 'time_rise': "%s - %s" % (C, L),
             'volt_decay': "%s - %s" % (S(C), S(N)), 'volt_rise': "%s - %s" % (S(C), S(L))}
    else:
        d = {'time_trough': "%s - %s" % (ZB, ZA), 'time_peak': "%s - %s" % (ZA, ZL),
             'volt_trough': S(C), 'volt_peak': S(L), 'time_rise': "%s - %s" % (N, C), 'time_decay': "%s - %s" % (C, L),
             'volt_rise': "%s - %s" % (S(N), S(C)), 'volt_decay': "%s - %s" % (S(L), S(C))}
    d['period'] = "%s - %s" % (N, L)
    out = ["forall(i, 0 <= i < len(%s), %s == %s)" % (res, col(k), v) for k, v in d.items()]
    out += [
        "forall(i, 0 <= i < len({r}), same({r}['volt_amp'][i], xdiv({r}['volt_decay'][i] + {r}['volt_rise'][i], 2)))".format(r=res),
        "forall(i, 0 <= i < len({r}), same({r}['time_rdsym'][i], xdiv({r}['time_rise'][i], {r}['period'][i])))".format(r=res),
        "forall(i, 0 <= i < len({r}), same({r}['time_ptsym'][i], xdiv({r}['time_peak'][i], "
        "{r}['time_peak'][i] + {r}['time_trough'][i])))".format(r=res),
        "forall(i, 0 <= i < len({r}), same({r}['band_amp'][i], np.mean(amp_by_time({s}, {a})[{L} : {N}])))".format(
            r=res, s=sig, a=amp_args, L=L, N=N),
        # C04: period = time_rise + time_decay; the rise-decay symmetry lies strictly in (0, 1), the peak-trough symmetry in [0, 1]
        "forall(i, 0 <= i < len({r}), {r}['period'][i] == {r}['time_rise'][i] + {r}['time_decay'][i])".format(r=res),
        "forall(i, 0 <= i < len({r}), 0 < {r}['time_rdsym'][i] and {r}['time_rdsym'][i] < 1)".format(r=res),
        "forall(i, 0 <= i < len({r}), 0 <= {r}['time_ptsym'][i] and {r}['time_ptsym'][i] <= 1)".format(r=res),
    ]
    return out


def table_row_invariant(res, centre, n_sig, boundary):
    """C01 over a finished table of either centring"""
    r = roles(centre)
    c = lambda k: "%s['%s']" % (res, r[k])
    return [
        ("forall(j, 0 <= j < len({res}), {b} < {L}[j] and {L}[j] < {C}[j] and {C}[j] < {N}[j] and {N}[j] < {n} - {b})"
         ).format(res=res, b=boundary, n=n_sig, L=c('L'), C=c('C'), N=c('N')),
        ("forall(j, 0 <= j < len({res}), {L}[j] <= {ZA}[j] and {ZA}[j] <= {C}[j] and {C}[j] <= {ZB}[j] and "
         "{ZB}[j] <= {N}[j] and 0 <= {ZL}[j] and {ZL}[j] <= {L}[j])"
         ).format(res=res, L=c('L'), C=c('C'), N=c('N'), ZA=c('ZA'), ZB=c('ZB'), ZL=c('ZL')),
        ("forall(j, 0 <= j < len({res}) - 1, {N}[j] == {L}[j + 1] and {ZB}[j] == {ZL}[j + 1])"
         ).format(res=res, L=c('L'), N=c('N'), ZB=c('ZB'), ZL=c('ZL')),
    ]


def _shape_result(E, env):
    from vf.values import Frame
    centre = env['center_extrema']
    n = z3.Int(fresh_name('shape.nrows'))
    E.assume(n >= 0)
    cols = {}
    types = dict(SHAPE_COLS)
    types.update({'volt_peak': REAL, 'volt_trough': REAL, 'volt_decay': REAL, 'volt_rise': REAL})
    for c, ty in types.items():
        cols[c] = E.new_arr(n, ty, kind='series', base='shape.' + c)
    for c in sample_cols(centre):
        cols[c] = E.new_arr(n, INT, kind='series', base='shape.' + c)
    return Frame(E.new_ident(), n, cols)


def _csf_cases():
    from .cyclepoints import FE_KEYS, fe_args
    out = []
    for centre in ('peak', 'trough'):
        s = 'sig' if centre == 'peak' else '(-sig)'
        for fl in ('fek=None', 'fek=dict'):
            if fl == 'fek=None':
                fek_t = 'none'
                osc = "osc3(%s, fs, f_range, 0, {'n_cycles': n_cycles}, 'bandpass', True)" % s
                bnd = '0'
                rz = "fs < 0 or n_cycles < 0"
                req = [osc]
            else:
                fek_t = ('dict', FE_KEYS)
                bnd = "(value(find_extrema_kwargs, 'boundary') if present(find_extrema_kwargs, 'boundary') else 0)"
                osc = "osc3(%s, fs, f_range, %s)" % (s, fe_args('find_extrema_kwargs'))
                rz = "fs < 0 or n_cycles < 0 or present(find_extrema_kwargs, 'first_extrema')"
                req = ["present(find_extrema_kwargs, 'first_extrema') or (" + osc + " and " + bnd + " >= 0)"]
            out.append(dict(
                label='%s,%s' % (centre, fl),
                params={'sig': ('arr', REAL), 'fs': REAL, 'f_range': ('tuple', [REAL, REAL]),
                        'center_extrema': ('const', centre), 'find_extrema_kwargs': fek_t, 'n_cycles': REAL},
                requires=req,
                raises={'ValueError': rz},
                ensures=["len(result) >= 1", "ncols(result) == %d" % (len(SHAPE_COLS) + 6)] +
                        table_row_invariant('result', centre, 'len(sig)', bnd) + shape_specs('result', centre)))
    out.append(dict(label='other-centre',
                    params={'sig': ('arr', REAL), 'fs': REAL, 'f_range': ('tuple', [REAL, REAL]),
                            'center_extrema': STR, 'find_extrema_kwargs': 'none', 'n_cycles': REAL},
                    requires=["center_extrema != 'peak' and center_extrema != 'trough'"],
                    raises={'ValueError': "True"}))
    return out


from vf.values import STR  # noqa: E402

contract('bycycle.features.shape.compute_shape_features', cases=_csf_cases(), modifies=[], result=_shape_result)
