"""Concretise a solver counter-model to arguments of the real function (DESIGN.md 2.7, step 1)."""
import z3

from .values import (INT, REAL, BOOL, STR, XR, Z, X, Opt, Arr, Frame, SDict, Obj, Opaque, PyList, str_of_code, _STR_CODES)

CAP = 16


class TooBig(Exception):
    pass


def _num(v):
    if z3.is_int_value(v):
        return v.as_long()
    if z3.is_rational_value(v):
        return float(v.numerator_as_long()) / float(v.denominator_as_long())
    if z3.is_algebraic_value(v):
        return float(v.approx(12).as_decimal(12).rstrip('?'))
    if z3.is_true(v):
        return True
    if z3.is_false(v):
        return False
    raise TooBig('non-numeric model value %s' % v)


def _ev(model, t):
    return model.eval(t, model_completion=True)


def scalar(model, z):
    if isinstance(z, X):
        tag = _num(_ev(model, z.tag))
        if tag == 0:
            return float(_num(_ev(model, z.val)))
        return {1: float('nan'), 2: float('inf'), 3: float('-inf')}[tag]
    if isinstance(z, Z):
        v = _num(_ev(model, z.t))
        if z.ty == STR:
            for s, c in _STR_CODES.items():
                if c == v:
                    return s
            return 'zz_other_string'
        if z.ty == REAL:
            return float(v)
        if z.ty == BOOL:
            return bool(v)
        return int(v)
    return z


def concretise(E, model, value, heap):
    if value is None or isinstance(value, (bool, int, float, str)):
        return value
    if isinstance(value, (Z, X)):
        return scalar(model, value)
    if isinstance(value, tuple):
        return {'__tuple__': [concretise(E, model, v, heap) for v in value]}
    if isinstance(value, Arr) and getattr(value, 'lead', None) is not None:
        raise TooBig('arrays of opaque values are not concretised')
    if isinstance(value, Opaque):
        if getattr(value, 'cell', None) is not None or hasattr(value, 'length'):
            raise TooBig('opaque value')
        return {'__dict__': {}}
    if isinstance(value, Arr):
        if value.ndim != 1:
            shape = [int(_num(_ev(model, s))) if not isinstance(s, int) else s for s in value.shape]
            if any(s > CAP for s in shape):
                raise TooBig('shape %s' % shape)
            return {'__nd__': shape}
        n = value.n if isinstance(value.n, int) else int(_num(_ev(model, value.n)))
        if n > CAP or n < 0:
            raise TooBig('array length %d' % n)
        clo = heap[value.ident]
        items = []
        for i in range(n):
            idx = i if (value.stride == 1 and isinstance(value.off, int) and value.off == 0) else value.off + i * value.stride
            items.append(scalar(model, clo(z3.IntVal(idx) if isinstance(idx, int) else idx)))
        return {'__arr__': items, 'dtype': {BOOL: 'bool', INT: 'int', REAL: 'float', XR: 'float'}.get(value.ty, 'object'),
                'kind': value.kind}
    if isinstance(value, Frame):
        cols = {}
        for c, a in value.cols.items():
            v = concretise(E, model, a, heap)
            cols[c] = v
        return {'__frame__': cols}
    if isinstance(value, SDict):
        out = {}
        for k, (p, v) in value.items.items():
            present = p if isinstance(p, bool) else bool(_num(_ev(model, p)))
            if present:
                out[k] = concretise(E, model, v, heap)
        return {'__dict__': out}
    if isinstance(value, PyList):
        return [concretise(E, model, v, heap) for v in value.items]
    raise TooBig('cannot concretise %r' % (value,))


def model_args(E, model):
    """{param: json} for the function under contract, or None if the model is too large / not concretisable"""
    try:
        heap = E.st.entry_heap
        return {name: concretise(E, model, v, heap) for name, v in E.entry_env.items()}
    except (TooBig, z3.Z3Exception, KeyError, AttributeError, ValueError):
        return None
