"""bycycle.burst.{utils,cycle,amp} — C06, C07, C08, C16, C19."""
import z3

from . import contract
from . import specs
from vf.values import Arr, Frame, Z, BOOL, INT, fresh_name


def _same_array_havoc(param):
    """result maker for in-place functions: the very same array object, contents havoc'd (then constrained by
    the ensures clauses)"""
    def make(E, env):
        a = env[param]
        E.st.heap[a.ident] = E.base_closure(param + '@post', a.ty)
        return a
    return make


contract(
    'bycycle.burst.utils.check_min_burst_cycles',
    params={'is_burst': ('arr', BOOL), 'min_n_cycles': INT},
    requires=[],
    raises={'ValueError': "len(is_burst) > 0 and min_n_cycles < 0"},
    ensures=[
        "result is is_burst",
        "len(result) == len(old(is_burst))",
        "forall(i, 0 <= i < len(result), result[i] == minrun(old(is_burst), min_n_cycles, i))",
    ],
    modifies=['is_burst'],
    result=_same_array_havoc('is_burst'),
)

FEATS = ('amp_fraction', 'amp_consistency', 'period_consistency', 'monotonicity')
THRS = tuple(f + '_threshold' for f in FEATS)

Q_CYCLES = ("arrdef(j, len(df_features), 0 < j < len(df_features) - 1 and " +
            " and ".join("old(df_features['%s'])[j] > %s" % (f, t) for f, t in zip(FEATS, THRS)) + ")")


def _frame_plus_is_burst(E, env):
    """result maker for detect_bursts_*: the same table object with an is_burst column of unknown content"""
    f = env['df_features']
    f.cols = dict(f.cols)
    f.cols['is_burst'] = E.new_arr(f.n, BOOL, kind='series', base='is_burst@post')
    return f


contract(
    'bycycle.burst.cycle.detect_bursts_cycles',
    params={'df_features': ('frame', {f: 'xr' for f in FEATS}, 1),
            **{t: 'real' for t in THRS}, 'min_n_cycles': INT},
    requires=["len(df_features) >= 1"],
    raises={'ValueError': " or ".join("%s < 0 or %s > 1" % (t, t) for t in THRS) + " or min_n_cycles < 0"},
    ensures=[
        "result is df_features",
        "len(result) == len(old(df_features))",
        # C06: exactly the cycles in a run of >= min_n_cycles qualifying cycles (strict >, ends never qualify)
        "forall(i, 0 <= i < len(result), result['is_burst'][i] == minrun(%s, min_n_cycles, i))" % Q_CYCLES,
    ] + ["forall(i, 0 <= i < len(result), same(result['%s'][i], old(df_features['%s'])[i]))" % (f, f) for f in FEATS],
    modifies=['df_features'],
    result=_frame_plus_is_burst,
)

Q_AMP = "arrdef(j, len(df_features), old(df_features['burst_fraction'])[j] >= burst_fraction_threshold)"

contract(
    'bycycle.burst.amp.detect_bursts_amp',
    params={'df_features': ('frame', {'burst_fraction': 'xr'}), 'burst_fraction_threshold': 'real',
            'min_n_cycles': INT},
    raises={'ValueError': "burst_fraction_threshold < 0 or burst_fraction_threshold > 1 or "
                          "(len(df_features) > 0 and min_n_cycles < 0)"},
    ensures=[
        "result is df_features",
        "len(result) == len(old(df_features))",
        "forall(i, 0 <= i < len(result), result['is_burst'][i] == minrun(%s, min_n_cycles, i))" % Q_AMP,
        "forall(i, 0 <= i < len(result), same(result['burst_fraction'][i], old(df_features['burst_fraction'])[i]))",
    ],
    modifies=['df_features'],
    result=_frame_plus_is_burst,
)
