"""Proof script for bycycle.cyclepoints.phase.extrema_interpolated_phase (C17): extrema only, and extrema with both
kinds of midpoints (one per flank, inside its closed flank - what find_zerox returns; a midpoint may coincide with an extremum).

The argument, in the order the hooks establish it (every step is its own small obligation; nothing is assumed):

  knots      the cyclepoints in temporal order form a slot sequence c(0) <= c(1) <= ... (extrema only: the alternating merge
             of the two extremum arrays; with midpoints: extremum, midpoint, extremum, ... - a midpoint slot may share its
             position with a neighbouring extremum slot).  Inside the signal, extrema at least two samples apart, globally
             non-decreasing (induction)
  anchors    the scattered stores put a finite value exactly on the slots (membership predicate of each store and its
             witness); which store wins at a slot (later stores overwrite: midpoints first, extrema last)
  selection  between two consecutive slots no sample is selected by the NaN mask, so consecutive distinct slots are
             consecutive sample points of np.interp (counting function of the mask selection, three inductions)
  branches   for each of the two interpolated series: value at every slot, constant before the first / after the last,
             strictly monotone on each slot interval in the direction given by the two end values (assumed np.interp contract)
  merge      the callee's precondition (finite, rises at the first slot); the callee's F and K are the first and last slot
  result     the clauses of the property
"""
import math

import z3

from vf import xops
from vf.values import X, Z, INT, REAL, fresh_name
from vf.engine import lift, to_int, Unsupported

PI = math.pi


def _xc(v):
    return xops.to_x(lift(float(v)))


class Ctx:
    """terms shared by the hooks of one path.  mode 'ext': slots are the extrema; mode 'mid': slot 2e is extremum e, slot
    2e + 1 the midpoint of the flank from extremum e to extremum e + 1."""

    def __init__(self, P, first, mode):
        E = P.E
        env = E.entry_env          # the arguments (never re-bound by the function); hooks may fire inside an inlined helper
        self.E, self.first, self.mode = E, first, mode
        pk, tr = env['peaks'], env['troughs']
        self.A, self.B = (pk, tr) if first == 'peak' else (tr, pk)
        rdi = lambda a, k: to_int(E.rd(a, k))
        self.nA, self.nB = self.A.n, self.B.n
        self.n = env['sig'].n
        sc = E.st.ghost.get('scatter', [])
        byid = {}
        for r in sc:
            byid.setdefault(r['idx'].ident, r)
        F = E.st.ghost['facts']
        self.req = F['requires']

        def store(arr):
            if arr.ident not in byid:
                raise Unsupported('phase proof: an anchor store was not seen')
            r = byid[arr.ident]
            return dict(hit=r['hit'], wit=r['wit'], ax=F['scatter#%d' % (1 + sc.index(r))], arr=arr)
        self.sP, self.sT = store(pk), store(tr)
        zero, pi_, mpi, hp, mhp = _xc(0.0), _xc(PI), _xc(-PI), _xc(PI / 2), _xc(-PI / 2)
        ite = xops.ite
        if mode == 'ext':
            self.M = self.nA + self.nB
            self.c = lambda q: z3.If(q % 2 == 0, rdi(self.A, q / 2), rdi(self.B, (q - 1) / 2))
            self.isT = (lambda q: q % 2 == 1) if first == 'peak' else (lambda q: q % 2 == 0)
            self.valU = lambda q: ite(self.isT(q), pi_, zero)
            self.valV = lambda q: ite(self.isT(q), mpi, zero)
            self.sP['slot'] = (lambda w: 2 * w) if first == 'peak' else (lambda w: 2 * w + 1)
            self.sT['slot'] = (lambda w: 2 * w + 1) if first == 'peak' else (lambda w: 2 * w)
            self.stores = [self.sP, self.sT]
            self.per = 2
        else:
            ri, de = env['rises'], env['decays']
            # a kind of midpoint that is not supplied is modelled as a virtual slot sitting on the extremum before it (no
            # store goes through it)
            self.sR = store(ri) if ri is not None else None
            self.sD = store(de) if de is not None else None
            # midpoints after an A extremum / after a B extremum
            self.MA, self.MB = (de, ri) if first == 'peak' else (ri, de)
            self.M = 2 * (self.nA + self.nB) - 1
            mA = (lambda k: rdi(self.MA, k)) if self.MA is not None else (lambda k: rdi(self.A, k))
            mB = (lambda k: rdi(self.MB, k)) if self.MB is not None else (lambda k: rdi(self.B, k))
            self.c = lambda q: z3.If(q % 4 == 0, rdi(self.A, q / 4), z3.If(q % 4 == 1, mA((q - 1) / 4),
                                     z3.If(q % 4 == 2, rdi(self.B, (q - 2) / 4), mB((q - 3) / 4))))
            tslot = (lambda q: q % 4 == 2) if first == 'peak' else (lambda q: q % 4 == 0)      # trough slots
            pslot = (lambda q: q % 4 == 0) if first == 'peak' else (lambda q: q % 4 == 2)
            dslot = (lambda q: q % 4 == 1) if first == 'peak' else (lambda q: q % 4 == 3)      # decay slots
            c = self.c
            self.tslot, self.pslot, self.dslot = tslot, pslot, dslot
            self.left = lambda q: z3.And(q % 2 == 1, c(q) == c(q - 1))           # midpoint slot on its left extremum
            self.right = lambda q: z3.And(q % 2 == 1, c(q) == c(q + 1))
            self.isT = lambda q: z3.Or(tslot(q), z3.And(self.left(q), tslot(q - 1)), z3.And(self.right(q), tslot(q + 1)))
            self.isP = lambda q: z3.Or(pslot(q), z3.And(self.left(q), pslot(q - 1)), z3.And(self.right(q), pslot(q + 1)))
            own = lambda q: ite(dslot(q), hp, mhp)
            self.valU = lambda q: ite(self.isT(q), pi_, ite(self.isP(q), zero, own(q)))
            self.valV = lambda q: ite(self.isT(q), mpi, ite(self.isP(q), zero, own(q)))
            sA, sB = (self.sP, self.sT) if first == 'peak' else (self.sT, self.sP)
            sMA, sMB = (self.sD, self.sR) if first == 'peak' else (self.sR, self.sD)
            sA['slot'], sB['slot'] = (lambda w: 4 * w), (lambda w: 4 * w + 2)
            if sMA is not None:
                sMA['slot'] = lambda w: 4 * w + 1
            if sMB is not None:
                sMB['slot'] = lambda w: 4 * w + 3
            self.stores = [x for x in (self.sT, self.sP, self.sD, self.sR) if x is not None]
            self.per = 4
        self.sel = lambda x: z3.Or(*[s['hit'](x) for s in self.stores])

    def r_of(self, j):
        """a slot of a selected sample j (witness of a store that hit it)"""
        r = self.stores[-1]['slot'](self.stores[-1]['wit'](j))
        for s in reversed(self.stores[:-1]):
            r = z3.If(s['hit'](j), s['slot'](s['wit'](j)), r)
        return r

    def last_same(self, r):
        """the last slot at the position of slot r (a position is shared by at most three slots)"""
        if self.mode == 'ext':
            return r
        c, M = self.c, self.M
        return z3.If(z3.And(r + 2 < M, c(r + 2) == c(r)), r + 2, z3.If(z3.And(r + 1 < M, c(r + 1) == c(r)), r + 1, r))


def _req_inst(P, K, q):
    """instances of the quantified precondition clauses around slot q"""
    out = [K.req[0]]
    for f in K.req[1:]:
        for k in (q / K.per, (q - 1) / K.per, (q + 1) / K.per, q / K.per - 1):
            out.append(P.inst_formula(f, k))
    return out


def _req_idx(P, K, w):
    """instances of the precondition clauses that bound the entries with index w (and w - 1) of the input arrays"""
    return [K.req[0]] + [P.inst_formula(f, k) for f in K.req[1:] for k in (w, w - 1)]


def knots(P, K):
    """S0 / S1: the slot sequence and what the stores put there (proved once per path)"""
    E = K.E
    if E.st.ghost.get('eip_knots'):
        return
    q, a, b, j = z3.Int('G_q'), z3.Int('G_a'), z3.Int('G_b'), z3.Int('G_j')
    c, M, n = K.c, K.M, K.n
    P.forall('knot:inr', [q], z3.And(q >= 0, q < M), z3.And(c(q) >= 0, c(q) < n), by=_req_inst(P, K, q))
    if K.mode == 'ext':
        P.forall('knot:adj', [q], z3.And(q >= 0, q < M - 1), c(q) + 2 <= c(q + 1), by=_req_inst(P, K, q))
    else:
        P.forall('knot:adj', [q], z3.And(q >= 0, q < M - 1), c(q) <= c(q + 1), by=_req_inst(P, K, q))
        P.forall('knot:gap', [q], z3.And(q >= 0, q % 2 == 0, q + 2 < M), c(q) + 2 <= c(q + 2), by=_req_inst(P, K, q))
    P.induct_q('knot:mono', b, a, M - 1, c(a) <= c(b), lambda i: [P.inst('knot:adj', i)], params=(a,), prem=a >= 0)
    if K.mode == 'ext':
        P.ground('knot:ends-apart', c(0) < c(M - 1), by=[P.inst('knot:mono', 1, M - 1), P.inst('knot:adj', 0), K.req[0]])
    else:
        P.ground('knot:ends-apart', c(0) < c(M - 1), by=[P.inst('knot:mono', 2, M - 1), P.inst('knot:gap', 0), K.req[0]])
    sel = K.sel
    wit_by = []
    for s in K.stores:
        wit_by += [P.inst_formula(s['ax'][1], j)] + _req_idx(P, K, s['wit'](j))
    # a selected sample is a slot position (witness)
    P.forall('knot:wit', [j], z3.And(j >= 0, j < n, sel(j)), z3.And(K.r_of(j) >= 0, K.r_of(j) < M, c(K.r_of(j)) == j), by=wit_by)
    # what the stores do at slot q
    by = _req_inst(P, K, q) + [P.inst('knot:inr', q)]
    for s in K.stores:
        w = s['wit'](c(q))
        r = s['slot'](w)
        by += [P.inst_formula(s['ax'][0], q / K.per), P.inst_formula(s['ax'][0], q / K.per - 1), P.inst_formula(s['ax'][0], (q - 1) / K.per),
               P.inst_formula(s['ax'][1], c(q))]
        by += _req_idx(P, K, w)
        if K.mode == 'ext':
            # (strictness between distinct slots: adjacent slots are two apart)
            by += [P.inst('knot:mono', r, q - 1), P.inst('knot:mono', q + 1, r), P.inst('knot:adj', q - 1), P.inst('knot:adj', q)]
        else:
            by += [P.inst('knot:mono', r, q - 1), P.inst('knot:mono', q + 1, r), P.inst('knot:mono', r, q - 2),
                   P.inst('knot:mono', q + 2, r), P.inst('knot:gap', q - 2), P.inst('knot:gap', q), P.inst('knot:adj', q - 1),
                   P.inst('knot:adj', q)]
    hitP, hitT = K.sP['hit'], K.sT['hit']
    if K.mode == 'ext':
        concl = z3.And(sel(c(q)), z3.Implies(K.isT(q), z3.And(hitT(c(q)), z3.Not(hitP(c(q))))),
                       z3.Implies(z3.Not(K.isT(q)), z3.And(hitP(c(q)), z3.Not(hitT(c(q))))))
    else:
        false = lambda x: z3.BoolVal(False)
        hitD = K.sD['hit'] if K.sD is not None else false
        hitR = K.sR['hit'] if K.sR is not None else false
        inside = z3.And(q % 2 == 1, c(q - 1) < c(q), c(q) < c(q + 1))
        concl = z3.And(sel(c(q)),
                       z3.Implies(K.tslot(q), hitT(c(q))),
                       z3.Implies(K.pslot(q), z3.And(hitP(c(q)), z3.Not(hitT(c(q))))),
                       z3.Implies(inside, z3.And(z3.Not(hitT(c(q))), z3.Not(hitP(c(q))),
                                                 z3.If(K.dslot(q), z3.And(hitD(c(q)), z3.Not(hitR(c(q)))),
                                                       z3.And(hitR(c(q)), z3.Not(hitD(c(q))))))))
    P.forall('knot:hit', [q], z3.And(q >= 0, q < M), concl, by=by)
    E.st.ghost['eip_knots'] = True


def sel_at_(P, K, tag, qq):
    """what is stored at slot qq, and that the mask of selection `tag` selects it (a midpoint slot on an extremum has the
    facts of that neighbour)"""
    out = []
    for x in ((qq,) if K.mode == 'ext' else (qq, qq - 1, qq + 1)):
        out += [P.inst('knot:hit', x), P.inst('knot:inr', x), P.inst(tag + ':mask', K.c(x))]
    if K.mode != 'ext':
        out += [P.inst('knot:adj', qq - 1), P.inst('knot:adj', qq), K.req[0]]
    return out


def selection(P, K, xp):
    """S2: the counting function of the mask selection along the slots (once per selection map)"""
    E = K.E
    m, g, cnt = xp.meta['cmap']
    inst = None
    for key, d in E.st.ghost.get('cmap_inst', {}).items():
        if E.st.ghost[key][1].eq(g):
            inst = d
    if inst is None:
        raise Unsupported('phase proof: selection map without instantiable axioms')
    sels = E.st.ghost.setdefault('eip_sels', {})
    if str(g) in sels:
        return sels[str(g)], inst, (m, g, cnt)
    tag = 'sel%d' % (len(sels) + 1)
    sels[str(g)] = tag
    q, j = z3.Int('G_q'), z3.Int('G_j')
    c, M, n = K.c, K.M, K.n
    mk = inst['mask']
    # the mask of this selection is "hit by one of the stores" on [0, n)
    P.forall(tag + ':mask', [j], z3.And(j >= 0, j < n), mk(j) == K.sel(j))
    r = K.r_of(j)
    P.forall(tag + ':none-between', [q, j], z3.And(q >= 0, q < M - 1, c(q) < j, j < c(q + 1)), z3.Not(mk(j)),
             by=[P.inst('knot:wit', j), P.inst('knot:mono', r, q), P.inst('knot:mono', q + 1, r), P.inst(tag + ':mask', j),
                 P.inst('knot:inr', q), P.inst('knot:inr', q + 1)])
    P.forall(tag + ':none-before', [j], z3.And(j >= 0, j < c(0)), z3.Not(mk(j)),
             by=[P.inst('knot:wit', j), P.inst('knot:mono', 0, r), P.inst(tag + ':mask', j), P.inst('knot:inr', 0)])
    P.forall(tag + ':none-after', [j], z3.And(j > c(M - 1), j < n), z3.Not(mk(j)),
             by=[P.inst('knot:wit', j), P.inst('knot:mono', r, M - 1), P.inst(tag + ':mask', j), P.inst('knot:inr', M - 1)])
    sel_at = lambda qq: sel_at_(P, K, tag, qq)
    P.induct_q(tag + ':count-next', j, c(q), c(q + 1), z3.Implies(j > c(q), cnt(j) == cnt(c(q)) + 1),
               lambda i: [inst['rec'](i), P.inst(tag + ':none-between', q, i), P.inst('knot:adj', q), P.inst('knot:inr', q + 1)] + sel_at(q),
               params=(q,), prem=z3.And(q >= 0, q < M - 1))
    P.induct_q(tag + ':count-first', j, z3.IntVal(0), c(0), cnt(j) == 0,
               lambda i: [inst['rec'](i), P.inst(tag + ':none-before', i), P.inst('knot:inr', 0)])
    P.induct_q(tag + ':count-last', j, c(M - 1), n, z3.Implies(j > c(M - 1), cnt(j) == cnt(c(M - 1)) + 1),
               lambda i: [inst['rec'](i), P.inst(tag + ':none-after', i)] + sel_at(M - 1))
    # consecutive distinct slots are consecutive sample points; the first / last slot is the first / last sample point
    P.forall(tag + ':points', [q], z3.And(q >= 0, q < M - 1, c(q) < c(q + 1)),
             z3.And(g(cnt(c(q))) == c(q), g(cnt(c(q)) + 1) == c(q + 1), cnt(c(q)) >= 0, cnt(c(q)) + 1 < m),
             by=[inst['hit'](c(q)), inst['hit'](c(q + 1)), inst['rec'](c(q)), P.inst(tag + ':count-next', q, c(q + 1))]
             + sel_at(q) + sel_at(q + 1))
    P.ground(tag + ':ends', z3.And(g(0) == c(0), g(m - 1) == c(M - 1), m >= 2, cnt(c(M - 1)) == m - 1, cnt(c(0)) == 0),
             by=[inst['hit'](c(0)), inst['hit'](c(M - 1)), P.inst(tag + ':count-first', c(0)), P.inst(tag + ':count-last', n),
                 inst['base'], inst['rec'](c(M - 1)), K.req[0], inst['rec'](c(0)), P.inst('knot:ends-apart')]
             + sel_at(0) + sel_at(M - 1))
    return tag, inst, (m, g, cnt)


def before_interp(first, mode='ext'):
    def h(P):
        K = Ctx(P, first, mode)
        knots(P, K)
        xp = P.E.st.ghost['interp_args']['xp']
        if 'cmap' not in getattr(xp, 'meta', {}):
            raise Unsupported('phase proof: sample points are not a mask selection')
        selection(P, K, xp)
    return h


def branches(P, K):
    """S3: the two interpolated series (once per path, after the second np.interp)"""
    E = K.E
    if E.st.ghost.get('eip_branches'):
        return E.st.ghost['eip_branches']
    recs = E.st.ghost.get('interp', [])
    if len(recs) != 2:
        raise Unsupported('phase proof: expected the two np.interp calls')
    q, i, i2 = z3.Int('G_q'), z3.Int('G_i'), z3.Int('G_i2')
    c, M, n = K.c, K.M, K.n
    out = {}
    for nm, rec, val in (('U', recs[0], K.valU), ('V', recs[1], K.valV)):
        tag, inst, (m, g, cnt) = selection(P, K, rec['xp'])
        sch = rec['sch']
        W = lambda x, rec=rec: E.rd(rec['out'], x)
        lt = xops.lt
        P.forall(nm + ':fin', [i], z3.And(i >= 0, i < n), z3.And(xops.isfin(W(i)), xops.wf(W(i).t)), by=[sch['fin'](i)])
        P.forall(nm + ':knot', [q], z3.And(q >= 0, q < M), xops.same(W(c(q)), val(q)),
                 by=[sch['knot'](c(q), cnt(c(q))), inst['hit'](c(q)), inst['rec'](c(q))] + sel_at_(P, K, tag, q))
        # on a slot interval that ends on a trough the -pi branch falls and the +pi branch rises; on every other interval the
        # -pi branch rises
        if nm == 'V':
            concl = z3.And(z3.Implies(K.isT(q + 1), lt(W(i2), W(i))), z3.Implies(z3.Not(K.isT(q + 1)), lt(W(i), W(i2))))
        else:
            concl = z3.Implies(K.isT(q + 1), lt(W(i), W(i2)))
        P.forall(nm + ':seg', [q, i, i2], z3.And(q >= 0, q < M - 1, c(q) <= i, i < i2, i2 <= c(q + 1)), concl,
                 by=[sch['mono'](i, i2, cnt(c(q))), P.inst(tag + ':points', q), inst['hit'](c(q)), inst['hit'](c(q + 1)),
                     P.inst('knot:inr', q), P.inst('knot:inr', q + 1)] + sel_at_(P, K, tag, q) + sel_at_(P, K, tag, q + 1))
        P.forall(nm + ':left', [i], z3.And(i >= 0, i <= c(0)), xops.same(W(i), val(0)),
                 by=[sch['left'](i), P.inst(tag + ':ends'), inst['hit'](c(0))] + sel_at_(P, K, tag, 0))
        P.forall(nm + ':right', [i], z3.And(i >= c(M - 1), i < n), xops.same(W(i), val(M - 1)),
                 by=[sch['right'](i), P.inst(tag + ':ends'), inst['hit'](c(M - 1))] + sel_at_(P, K, tag, M - 1))
        out[nm] = (rec['out'], W)
    E.st.ghost['eip_branches'] = out
    return out


def _callee_env(P, K, br, extra=None):
    env = {'pha_tpi': br['U'][0], 'pha_tnpi': br['V'][0]}
    env.update(extra or {})
    return env


def _first_slots(K):
    return (0,) if K.mode == 'ext' else (0, 1)


def _last_slots(K):
    return (K.M - 2,) if K.mode == 'ext' else (K.M - 2, K.M - 3)


def _basics(P, K):
    M = K.M
    out = [K.req[0], P.inst('knot:ends-apart')]
    for s in (0, 1, 2, M - 1, M - 2, M - 3):
        out += [P.inst('knot:inr', s), P.inst('knot:adj', s)]
        if K.mode != 'ext':
            out.append(P.inst('knot:gap', s))
    return out


def before_merge(first, mode='ext'):
    """S4: the callee's precondition"""
    def h(P):
        E = P.E
        if len(E.st.ghost.get('interp', [])) != 2 or E.st.ghost.get('eip_merge'):
            return
        K = Ctx(P, first, mode)
        br = branches(P, K)
        c, M, n = K.c, K.M, K.n
        callee = E.contracts['bycycle.cyclepoints.phase._merge_phases']
        from .phase import STEP_UP
        c0 = c(0)
        near = [P.inst(w + ':seg', s, a, b) for w in 'UV' for s in _first_slots(K) for a, b in ((c0, c0 + 1), (c0 + 1, c0 + 2))] + \
               [P.inst(w + ':knot', s) for w in 'UV' for s in (0, 1, 2)] + \
               [P.inst(w + ':fin', x) for w in 'UV' for x in (c0, c0 + 1, c0 + 2)] + _basics(P, K)
        rise0 = E.spec_bool(STEP_UP, _callee_env(P, K, br, {'j': Z(c0, INT)}))
        P.ground('merge:rises-at-first-knot', rise0, by=near)
        P.prove_clause('merge:finite', callee['requires'][1], _callee_env(P, K, br), lambda x: [P.inst('U:fin', x), P.inst('V:fin', x)])
        P.ground('merge:first-knot-range', z3.And(c0 >= 0, c0 < n - 1, n >= 2), by=near)
        P.have('merge:rises-somewhere', E.spec_bool(callee['requires'][2], _callee_env(P, K, br)),
               using=['merge:rises-at-first-knot', 'merge:first-knot-range'])
        E.st.ghost['eip_merge'] = True
    return h


FIRST = "min(peaks[0], troughs[0])"
LAST = "max(peaks[len(peaks) - 1], troughs[len(troughs) - 1])"
ENSURES = [
    "len(result) == len(sig)",
    # anchors
    "forall(k, 0 <= k < len(peaks), result[peaks[k]] == 0)",
    "forall(k, 0 <= k < len(troughs), result[troughs[k]] == np.pi or result[troughs[k]] == -np.pi)",
    # finite and within [-pi, pi] on the whole span from the first to the last cyclepoint, NaN outside it
    "forall(i, %s <= i <= %s, isfinite(result[i]) and -np.pi <= result[i] and result[i] <= np.pi)" % (FIRST, LAST),
    "forall(i, 0 <= i < len(sig) and (i < %s or i > %s), isnan(result[i]))" % (FIRST, LAST),
    # advances monotonically; the only decreases are the wrap at a trough
    "forall(i, %s <= i < %s, result[i + 1] >= result[i] or exists(k, 0 <= k < len(troughs), troughs[k] == i + 1))" % (FIRST, LAST),
]
ENSURES_USING = {2: ['res:peaks'], 3: ['res:troughs'], 4: ['res:span'], 5: ['res:outside'], 6: ['res:monotone']}


def midpoint_clauses(first):
    """-pi/2 at a rise midpoint and +pi/2 at a decay midpoint that does not coincide with one of the two extrema of its flank"""
    if first == 'peak':
        rl, rr, dl, dr = "troughs[k]", "peaks[k + 1]", "peaks[k]", "troughs[k]"
    else:
        rl, rr, dl, dr = "troughs[k]", "peaks[k]", "peaks[k]", "troughs[k + 1]"
    return ["forall(k, 0 <= k < len(rises), rises[k] == %s or rises[k] == %s or result[rises[k]] == -np.pi / 2)" % (rl, rr),
            "forall(k, 0 <= k < len(decays), decays[k] == %s or decays[k] == %s or result[decays[k]] == np.pi / 2)" % (dl, dr)]


def ensures_mid(first, has_r=True, has_d=True):
    """(clauses, per-clause facts) for a call with the given kinds of midpoints"""
    mc = midpoint_clauses(first)
    ens, using = list(ENSURES), dict(ENSURES_USING)
    for have, clause, fact in ((has_r, mc[0], 'res:rises'), (has_d, mc[1], 'res:decays')):
        if have:
            ens.append(clause)
            using[len(ens)] = [fact]
    return ens, using


def before_return(first, mode='ext'):
    """S5: the callee's F and K are the first and the last slot; then the clauses of the property"""
    def h(P):
        E, env = P.E, P.env
        K = Ctx(P, first, mode)
        br = branches(P, K)
        c, M, n = K.c, K.M, K.n
        from .phase import STEP_AT, m as m_text
        cf = E.st.ghost['facts']['call:_merge_phases#1']
        loc = E.st.ghost['call_locals']['_merge_phases#1']
        F, Kl = loc['first_empirical_idx'].t, loc['last_empirical_idx'].t
        End = n - Kl
        res = env['__return__']
        cenv = lambda jt: _callee_env(P, K, br, {'j': Z(jt, INT), 'i': Z(jt, INT)})
        up = lambda jt: E.spec_bool(STEP_AT.format(j='j') + " > 0", cenv(jt))
        down = lambda jt: E.spec_bool(STEP_AT.format(j='j') + " < 0", cenv(jt))
        j, i = z3.Int('G_j'), z3.Int('G_i')
        c0, cl = c(0), c(M - 1)
        fins = lambda *xs: [P.inst(w + ':fin', x) for w in 'UV' for x in xs]
        basics = _basics(P, K)
        facts = E.st.ghost['facts']
        # ---- F is the first slot
        P.forall('merge:flat-before', [j], z3.And(j >= 0, j < c0), z3.Not(up(j)),
                 by=[P.inst('V:left', j), P.inst('V:left', j + 1), P.inst('V:left', j + 2), P.inst('U:left', j + 1),
                     P.inst('U:knot', 0), P.inst('V:knot', 0)] + [P.inst('V:seg', s, c0, c0 + 1) for s in _first_slots(K)]
                 + [P.inst(w + ':knot', s) for w in 'UV' for s in (1, 2)] + fins(j, j + 1, j + 2) + basics)
        P.ground('merge:F', F == c0, by=[facts['merge:rises-at-first-knot'], cf[1], cf[7], P.inst_formula(cf[2], c0),
                                        P.inst('merge:flat-before', F)] + basics)
        # ---- the last unmasked sample is the last slot
        last_by = []
        for s in _last_slots(K):
            last_by += [P.inst('V:seg', s, cl - 1, cl), P.inst('U:seg', s, cl - 1, cl), P.inst('U:seg', s, c(s), cl - 1)]
        last_by += [P.inst(w + ':knot', s) for w in 'UV' for s in (M - 1, M - 2, M - 3)]
        P.ground('merge:last-step', z3.Or(up(cl - 1), down(cl - 1)),
                 by=last_by + [P.inst('V:right', cl), P.inst('V:right', cl + 1)] + fins(cl - 1, cl, cl + 1) + basics)
        P.forall('merge:flat-after', [j], z3.And(j >= cl, j < n - 1), z3.Not(z3.Or(up(j), down(j))),
                 by=[P.inst('V:right', j), P.inst('V:right', j + 1), P.inst('V:right', j + 2)] + fins(j, j + 1, j + 2) + basics)
        P.ground('merge:End', End == cl + 1,
                 by=[cf[4], cf[8], P.inst_formula(cf[9], cl - 1), P.inst('merge:flat-after', End - 2),
                     facts['merge:last-step'], facts['merge:F']] + basics)
        ends = [facts['merge:F'], facts['merge:End'], cf[0]] + basics
        env2 = dict(E.entry_env)
        env2['result'] = res
        pk, tr = env2['peaks'], env2['troughs']
        rdi = lambda a, x: to_int(E.rd(a, x))
        # first / last cyclepoint as written in the clauses
        firstlast = [P.inst_formula(f, x) for f in K.req[1:3] for x in (0, K.nB - 1, K.nB - 2)] + [K.req[0]]
        P.ground('res:first-last', z3.And(to_int(lift(E.spec_eval(FIRST, env2))) == c0, to_int(lift(E.spec_eval(LAST, env2))) == cl),
                 by=firstlast + basics)
        FL = [facts['res:first-last']]

        # ---- anchors
        def anchor(nm, store, clause, guard=False):
            def by(kk):
                x, r = rdi(store['arr'], kk), store['slot'](kk)
                return [P.inst_formula(cf[6], x), P.inst('U:knot', r), P.inst('V:knot', r), P.inst('knot:mono', 0, r),
                        P.inst('knot:mono', r, M - 1), P.inst('knot:inr', r), P.inst('knot:hit', r), P.inst('knot:adj', r - 1),
                        P.inst('knot:adj', r)] + fins(x, x + 1) + ends + _req_idx(P, K, kk)
            P.prove_clause(nm, clause, env2, by)
        anchor('res:peaks', K.sP, ENSURES[1])
        anchor('res:troughs', K.sT, ENSURES[2])
        if K.mode != 'ext':
            mc = midpoint_clauses(first)
            if K.sR is not None:
                anchor('res:rises', K.sR, mc[0])
            if K.sD is not None:
                anchor('res:decays', K.sD, mc[1])
        # ---- range of the two branch series (independent of the slot structure: enclosing sample points of np.interp)
        recs = E.st.ghost['interp']
        pi_, mpi = _xc(PI), _xc(-PI)
        for nm, rec in (('U', recs[0]), ('V', recs[1])):
            tag, inst, (m, g, cnt) = selection(P, K, rec['xp'])
            sch, W = rec['sch'], br[nm][1]
            b = rec['seg'](i)
            inside = lambda v: z3.And(z3.Not(xops.lt(v, mpi)), z3.Not(xops.lt(pi_, v)), xops.isfin(v))
            P.forall(nm + ':range', [i], z3.And(i >= 0, i < n), inside(W(i)),
                     by=[sch['seg'](i), sch['left'](i), sch['right'](i), sch['knot'](i, b), sch['knot'](i, b + 1),
                         sch['knot'](g(b), b), sch['knot'](g(b + 1), b + 1), sch['mono'](g(b), i, b), sch['mono'](i, g(b + 1), b),
                         inst['sel'](b), inst['sel'](b + 1), inst['sel'](0), inst['sel'](m - 1), P.inst(tag + ':ends'),
                         P.inst(tag + ':mask', g(b)), P.inst(tag + ':mask', g(b + 1)), P.inst(tag + ':mask', g(0)),
                         P.inst(tag + ':mask', g(m - 1))] + fins(i, g(b), g(b + 1)))
        P.prove_clause('res:span', ENSURES[3], env2,
                       lambda x: [P.inst_formula(cf[6], x), P.inst('U:range', x), P.inst('V:range', x)] + fins(x, x + 1) + ends + FL)
        P.prove_clause('res:outside', ENSURES[4], env2, lambda x: [P.inst_formula(cf[3], x), P.inst_formula(cf[5], x)] + ends + FL)
        # ---- monotone: the slot interval that contains i and i + 1
        tagV, instV, (mV, gV, cntV) = selection(P, K, recs[1]['xp'])
        b = recs[1]['seg'](i)
        r0 = K.r_of(gV(b))
        qi = K.last_same(r0)
        enc_by = [recs[1]['sch']['seg'](i), instV['sel'](b), instV['sel'](b + 1), P.inst(tagV + ':mask', gV(b)),
                  P.inst('knot:wit', gV(b)), P.inst(tagV + ':points', qi), P.inst(tagV + ':ends')] + basics
        for s in (r0, r0 + 1, r0 + 2, r0 + 3):
            enc_by += [P.inst('knot:adj', s), P.inst('knot:inr', s)] + ([P.inst('knot:gap', s)] if K.mode != 'ext' else [])
        P.forall('knot:enclosing', [i], z3.And(i >= c0, i < cl), z3.And(qi >= 0, qi < M - 1, c(qi) <= i, i < c(qi + 1)), by=enc_by)

        def by_mono(x):
            qq = z3.substitute(qi, (i, x))
            return ([P.inst('knot:enclosing', x), P.inst_formula(cf[6], x), P.inst_formula(cf[6], x + 1)] +
                    [P.inst(w + ':seg', qq, a, b_) for w in 'UV' for a, b_ in ((x, x + 1), (x + 1, x + 2))] +
                    [P.inst('U:knot', qq + 1), P.inst('V:knot', qq + 1), P.inst('knot:hit', qq + 1), P.inst('knot:hit', qq + 2),
                     P.inst('knot:adj', qq), P.inst('knot:adj', qq + 1), P.inst('knot:inr', qq + 1), P.inst('knot:inr', qq + 2)]
                    + fins(x, x + 1, x + 2) + ends + FL)
        P.prove_clause('res:monotone', ENSURES[5], env2, by_mono)
    return h
