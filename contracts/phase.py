"""bycycle.cyclepoints.phase._merge_phases — C17 (the merge / masking half; anchors + interpolation are bounded)."""
from . import contract, arr_result
from vf.values import XR, INT

# merged value at i: the +pi branch where the -pi branch decreases towards the next sample, else the -pi branch
M = "(pha_tpi[{i}] if xsub(pha_tnpi[{i} + 1], pha_tnpi[{i}]) < 0 else pha_tnpi[{i}])"
MLAST = "pha_tnpi[len(pha_tnpi) - 1]"


def m(i):
    return "(%s if %s < len(pha_tnpi) - 1 else %s)" % (M.format(i=i), i, MLAST)


STEP_UP = "xsub(%s, %s) > 0" % (m('j + 1'), m('j'))

contract(
    'bycycle.cyclepoints.phase._merge_phases',
    params={'pha_tpi': ('arr', XR, 2), 'pha_tnpi': ('arr', XR, 2)},
    requires=["len(pha_tpi) == len(pha_tnpi) and len(pha_tnpi) >= 2",
              "forall(i, 0 <= i < len(pha_tnpi), isfinite(pha_tpi[i]) and isfinite(pha_tnpi[i]))",
              # the merged series rises somewhere (there is at least one pair of cyclepoints)
              "exists(j, 0 <= j < len(pha_tnpi) - 1, %s)" % STEP_UP],
    ensures=[
        "len(result) == len(pha_tnpi)",
        # F: the first rising step of the merged series; everything before it is masked
        "0 <= local('first_empirical_idx') and local('first_empirical_idx') < len(result) - 1",
        ("forall(j, 0 <= j < local('first_empirical_idx'), not (%s))" % STEP_UP),
        "forall(i, 0 <= i < local('first_empirical_idx'), isnan(result[i]))",
        # K: samples after the last non-zero step are masked, and nothing else: from F up to and including the
        # sample that the last non-zero step leads to, the result is the merged series
        "0 <= local('last_empirical_idx') and local('first_empirical_idx') < len(result) - local('last_empirical_idx')",
        "forall(i, len(result) - local('last_empirical_idx') <= i < len(result), isnan(result[i]))",
        ("forall(i, local('first_empirical_idx') <= i < len(result) - local('last_empirical_idx'), same(result[i], %s))" % m('i')),
    ],
    # explicit witnesses for the two next(...) searches: the rising step assumed to exist; and, after the head has been
    # masked, that same rising step seen from the reversed end
    witness={2: "len(pha) - 2 - first_empirical_idx"},
    modifies=[],
    result=arr_result(XR),
)
