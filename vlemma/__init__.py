"""Relational harnesses for lemmas over contracts (C09, C10): NOT repository code.  Each function only calls the real
analysis functions twice and returns both results; the verifier checks it against the callees' CONTRACTS (never their
bodies), so a discharged postcondition here is a lemma over those contracts."""
