#!/bin/bash
# usage: tools/try_seed.sh <patch.diff> <Cxx> [Cyy ...]   -- apply a seeded change to /repo, run the checks, undo
patch="$1"; shift
cd /verif
git -C /repo apply "$patch" || { echo "patch does not apply"; exit 2; }
for p in "$@"; do
  out=$(./check $p --no-canaries 2>&1); code=$?
  echo "== $p exit=$code"
  echo "$out" | grep -E "VIOLATION|what:|PROOF-LOST|CHECKER|UNDECIDED" | head -6
  echo "$out" | tail -1
done
git -C /repo checkout -- .
