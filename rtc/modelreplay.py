"""Replay of a solver counter-model: call the REAL function on the concretised arguments and evaluate the contract."""
import importlib

import numpy as np
import pandas as pd

from . import ceval


def decode(v):
    if isinstance(v, dict):
        if '__arr__' in v:
            dt = {'bool': bool, 'int': int, 'float': float}.get(v.get('dtype'), object)
            arr = np.array(v['__arr__'], dtype=dt)
            if v.get('kind') == 'series':
                return pd.Series(arr)
            if v.get('kind') == 'list':
                return list(arr.tolist())
            return arr
        if '__frame__' in v:
            return pd.DataFrame({c: decode(x) for c, x in v['__frame__'].items()})
        if '__tuple__' in v:
            return tuple(decode(x) for x in v['__tuple__'])
        if '__dict__' in v:
            return {k: decode(x) for k, x in v['__dict__'].items()}
        if '__nd__' in v:
            shape = v['__nd__']
            a = np.empty(shape, dtype=object)
            for idx in np.ndindex(*shape):
                a[idx] = {}
            return a if v.get('objects', True) else np.zeros(shape)
    if isinstance(v, list):
        return [decode(x) for x in v]
    return v


def resolve(qual):
    parts = qual.split('.')
    for k in range(len(parts) - 1, 0, -1):
        try:
            mod = importlib.import_module('.'.join(parts[:k]))
        except ImportError:
            continue
        obj = mod
        for p in parts[k:]:
            obj = getattr(obj, p)
        return obj
    raise ImportError(qual)


def replay(doc):
    fn = resolve(doc['unit'])
    args = {k: decode(v) for k, v in doc['args'].items()}
    if doc['unit'].endswith('check_kwargs_shape') and isinstance(args.get('sigs'), np.ndarray) and args['sigs'].dtype == object:
        args['sigs'] = np.zeros(args['sigs'].shape)
    rc = doc['contract']
    # an argument of opaque type comes out of the model as an empty dictionary (a stand-in)
    opaque = [k for k, v in args.items() if isinstance(v, dict) and not v]
    if 'ax' in opaque:
        # a drawing surface cannot come out of a solver model: a real (off-screen) one
        import matplotlib
        matplotlib.use('Agg')
        import matplotlib.pyplot as plt
        args['ax'] = plt.subplots()[1]
    r = ceval.check_call(fn, args, rc['case'], rc['base'], strict_requires=True)
    if r and opaque and 'raised' in r and ('AttributeError' in r or 'TypeError' in r):
        # the stand-in for an opaque argument (an empty dictionary) is not the kind of object the code expects: what it
        # raises says nothing about the code
        return 'SKIP a stand-in for an opaque argument (%s) made the call raise: %s' % (', '.join(opaque), r[:200])
    return r
