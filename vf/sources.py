"""Mechanical extraction: re-read the real sources under /repo on every run (DESIGN.md 2.1)."""
import ast
import hashlib
import os

REPO = os.environ.get('VF_REPO', '/repo')


class ModInfo:
    def __init__(self, name, path, src):
        self.name = name
        self.path = path
        self.sha256 = hashlib.sha256(src.encode()).hexdigest()
        self.tree = ast.parse(src)
        self.is_pkg = path.endswith('__init__.py')
        self.imports = {}
        self.funcs = {}
        self.classes = {}
        self.globals_assigned = {}
        pkg = name if self.is_pkg else name.rsplit('.', 1)[0]
        for node in self.tree.body:
            if isinstance(node, ast.Import):
                for a in node.names:
                    self.imports[a.asname or a.name.split('.')[0]] = a.name if a.asname else a.name.split('.')[0]
            elif isinstance(node, ast.ImportFrom):
                base = node.module or ''
                if node.level:
                    parts = pkg.split('.')
                    up = parts[:len(parts) - (node.level - 1)]
                    base = '.'.join(up + ([node.module] if node.module else []))
                for a in node.names:
                    self.imports[a.asname or a.name] = base + '.' + a.name
            elif isinstance(node, ast.FunctionDef):
                self.funcs[node.name] = node
            elif isinstance(node, ast.ClassDef):
                self.classes[node.name] = node
            elif isinstance(node, ast.Assign):
                for t in node.targets:
                    if isinstance(t, ast.Name):
                        self.globals_assigned[t.id] = node


class Sources:
    def __init__(self, root=None, overrides=None):
        self.root = root or REPO
        self.cache = {}
        self.overrides = overrides or {}     # module name -> source text (in-memory canaries)

    def mod_path(self, name):
        root = self.root
        if name.split('.')[0] == 'vlemma':
            # relational harnesses for lemmas over contracts live next to the verifier, not in the repository
            root = os.path.dirname(os.path.dirname(os.path.abspath(__file__)))
        base = os.path.join(root, *name.split('.'))
        if os.path.isfile(base + '.py'):
            return base + '.py'
        if os.path.isfile(os.path.join(base, '__init__.py')):
            return os.path.join(base, '__init__.py')
        return None

    def module(self, name):
        if name in self.cache:
            return self.cache[name]
        path = self.mod_path(name)
        if path is None:
            self.cache[name] = None
            return None
        src = self.overrides.get(name)
        if src is None:
            with open(path) as f:
                src = f.read()
        mi = ModInfo(name, path, src)
        self.cache[name] = mi
        return mi

    def split(self, qual):
        """qual -> (module info or None, remaining attribute path)"""
        parts = qual.split('.')
        for k in range(len(parts), 0, -1):
            mname = '.'.join(parts[:k])
            if mname.split('.')[0] not in ('bycycle', 'vlemma'):
                break
            mi = self.module(mname)
            if mi is not None:
                return mi, parts[k:]
        return None, parts

    def resolve(self, qual, depth=0):
        """Canonical qualified name: follow re-exports inside bycycle."""
        if depth > 10:
            return qual
        mi, rest = self.split(qual)
        if mi is None or not rest:
            return qual
        head = rest[0]
        if head in mi.funcs or head in mi.classes:
            return mi.name + '.' + '.'.join(rest)
        if head in mi.imports:
            return self.resolve('.'.join([mi.imports[head]] + rest[1:]), depth + 1)
        return qual

    def method_owner(self, qual):
        """for 'pkg.mod.Class.meth': the qualified name of the class (Class itself or a base class defined in the same
        module, searched in declaration order) whose body defines meth; None when no class in that chain defines it"""
        mi, rest = self.split(self.resolve(qual))
        if mi is None or len(rest) != 2 or rest[0] not in mi.classes:
            return None
        seen, todo = set(), [rest[0]]
        while todo:
            cname = todo.pop(0)
            if cname in seen or cname not in mi.classes:
                continue
            seen.add(cname)
            node = mi.classes[cname]
            if any(isinstance(n, ast.FunctionDef) and n.name == rest[1] for n in node.body):
                return '%s.%s.%s' % (mi.name, cname, rest[1])
            todo += [b.id for b in node.bases if isinstance(b, ast.Name)]
        return None

    def func(self, qual):
        qual = self.resolve(qual)
        mi, rest = self.split(qual)
        if mi is None:
            return None, None
        if len(rest) == 1 and rest[0] in mi.funcs:
            return mi, mi.funcs[rest[0]]
        if len(rest) == 2 and rest[0] in mi.classes:
            for node in mi.classes[rest[0]].body:
                if isinstance(node, ast.FunctionDef) and node.name == rest[1]:
                    return mi, node
        return mi, None
