"""Contract-language special forms (forall / exists / implies / old / ...) and registered spec functions."""
import ast

import z3

from .values import INT, REAL, BOOL, STR, XR, Z, X, Opt, Arr, Frame, SDict, PyList, fresh_name
from . import xops
from .engine import Unsupported, zbool, lift, is_sym, to_real

FORMS = {}
SPECFNS = {}


def form(name):
    def deco(f):
        FORMS[name] = f
        return f
    return deco


def specfn(name):
    """spec function taking evaluated arguments: f(E, *args)"""
    def deco(f):
        SPECFNS[name] = f

        def wrapper(E, node, f=f):
            args = [E.eval(a) for a in node.args]
            return f(E, *args)
        FORMS[name] = wrapper
        return f
    return deco


def _bind_vars(E, target):
    names = [target.id] if isinstance(target, ast.Name) else [e.id for e in target.elts]
    vs = [z3.Int(fresh_name(n)) for n in names]
    return names, vs


def _quant(E, node, is_forall):
    names, vs = _bind_vars(E, node.args[0])
    saved = dict(E.st.env)
    E.binders += 1
    try:
        for n, v in zip(names, vs):
            E.st.env[n] = Z(v, INT)
        parts = [E.eval(a) for a in node.args[1:]]
    finally:
        E.binders -= 1
        E.st.env.clear()
        E.st.env.update(saved)
    ts = [p if isinstance(p, z3.ExprRef) else zbool(p) for p in parts]
    if is_forall:
        body = ts[-1] if len(ts) == 1 else z3.Implies(z3.And(*ts[:-1]), ts[-1])
        return Z(z3.ForAll(vs, body), BOOL)
    return Z(z3.Exists(vs, z3.And(*ts)), BOOL)


@form('forall')
def f_forall(E, node):
    return _quant(E, node, True)


@form('exists')
def f_exists(E, node):
    return _quant(E, node, False)


@form('implies')
def f_implies(E, node):
    a, b = [E.eval(x) for x in node.args]
    return Z(z3.Implies(zbool(a), zbool(b)), BOOL)


@form('iff')
def f_iff(E, node):
    a, b = [E.eval(x) for x in node.args]
    return Z(zbool(a) == zbool(b), BOOL)


@form('old')
def f_old(E, node):
    saved_env = E.st.env
    env = dict(E.st.env)
    env.update(E.entry_env)
    E.st.env = env
    try:
        with E.entry_view():
            v = E.eval(node.args[0])
            v = _freeze(E, v)
    finally:
        E.st.env = saved_env
    # frozen arrays live under new identities; make them readable from the current heap as well
    for ident, clo in getattr(E, '_frozen', {}).items():
        E.st.heap.setdefault(ident, clo)
    return v


def _freeze(E, v):
    """old(x) of a mutable value: an immutable snapshot bound to the entry contents"""
    if isinstance(v, Arr):
        clo = E.st.heap[v.ident]
        key = ('frozen', v.ident, id(clo), str(v.off), v.stride, str(v.n))
        hit = E.st.ghost.get(key)
        if hit is None:
            E.st.next_ident += 1
            ident = E.st.next_ident
            hit = Arr(ident, v.shape, v.ty, v.kind, v.off, v.stride, writeable=False)
            E.st.ghost[key] = hit
            if not hasattr(E, '_frozen') or E._frozen_owner is not E.st:
                E._frozen = {}
                E._frozen_owner = E.st
            E._frozen[ident] = clo
        E.st.heap[hit.ident] = clo
        return hit
    if isinstance(v, Frame):
        f = Frame(v.ident, v.n, {c: _freeze(E, a) for c, a in v.cols.items()})
        return f
    if isinstance(v, tuple):
        return tuple(_freeze(E, x) for x in v)
    return v


@form('arrdef')
def f_arrdef(E, node):
    """arrdef(k, n, body): the array [body(k) for k in range(n)] (a pointwise definition)"""
    name = node.args[0].id
    n = E.eval(node.args[1])
    from .lib import term_int, _norm_elem, _elem_type
    nt = term_int(n)
    base_env = dict(E.st.env)
    heap = dict(E.st.heap)
    body = node.args[2]

    def at(i):
        saved_env, saved_heap = E.st.env, E.st.heap
        E.st.env = dict(base_env)
        E.st.env[name] = Z(i, INT) if not isinstance(i, int) else i
        E.st.heap = heap
        E.spec_mode += 1
        try:
            v = E.eval(body)
            if isinstance(v, z3.ExprRef):
                v = Z(v, BOOL)
            return _norm_elem(v)
        finally:
            E.spec_mode -= 1
            E.st.env, E.st.heap = saved_env, saved_heap
    probe = at(z3.Int(fresh_name('probe')))
    return E.new_arr(z3.simplify(nt), _elem_type(probe), at, 'ndarray')


@form('same')
def f_same(E, node):
    a, b = [E.eval(x) for x in node.args]
    return same(E, a, b)


def same(E, a, b):
    """value identity of two scalars (nan is the same as nan)"""
    if a is None or b is None:
        return a is None and b is None
    if isinstance(a, Opt) or isinstance(b, Opt):
        if isinstance(a, Opt) and isinstance(b, Opt):
            return Z(z3.And(a.isnone == b.isnone, z3.Or(a.isnone, zbool(same(E, a.val, b.val)))), BOOL)
        o, other = (a, b) if isinstance(a, Opt) else (b, a)
        if other is None:
            return Z(o.isnone, BOOL)
        return Z(z3.And(z3.Not(o.isnone), zbool(same(E, o.val, other))), BOOL)
    if isinstance(a, tuple) and isinstance(b, tuple):
        if len(a) != len(b):
            return False
        return Z(z3.And(*[zbool(same(E, x, y)) for x, y in zip(a, b)]), BOOL)
    if isinstance(a, str) or isinstance(b, str):
        return E.eq(a, b)
    a, b = lift(a), lift(b)
    if isinstance(a, X) or isinstance(b, X):
        return Z(xops.same(xops.to_x(a), xops.to_x(b)), BOOL)
    return E.eq(a, b)


@form('isnan')
def f_isnan(E, node):
    v = E.eval(node.args[0])
    if isinstance(v, X):
        return Z(xops.isnan(v), BOOL)
    return False


@form('isfinite')
def f_isfinite(E, node):
    v = E.eval(node.args[0])
    if isinstance(v, X):
        return Z(xops.isfin(v), BOOL)
    return True


@form('xdiv')
def f_xdiv(E, node):
    a, b = [lift(E.eval(x)) for x in node.args]
    return xops.div(xops.to_x(a), xops.to_x(b))


@form('present')
def f_present(E, node):
    """present(d, 'key'): the dict has the key"""
    d = E.eval(node.args[0])
    k = E.eval(node.args[1])
    if d is None:
        return False
    if isinstance(d, SDict):
        if k not in d.items:
            return False
        p = d.items[k][0]
        return p if isinstance(p, bool) else Z(p, BOOL)
    raise Unsupported('present(%r)' % (d,))


@form('value')
def f_value(E, node):
    """value(d, 'key'): the stored value irrespective of presence"""
    d = E.eval(node.args[0])
    k = E.eval(node.args[1])
    if k not in d.items:
        return None
    return d.items[k][1]


@form('is_none')
def f_is_none(E, node):
    v = E.eval(node.args[0])
    if isinstance(v, Opt):
        return Z(v.isnone, BOOL)
    return v is None


@form('xsub')
def f_xsub(E, node):
    a, b = [lift(E.eval(x)) for x in node.args]
    return xops.sub(xops.to_x(a), xops.to_x(b))


@form('xadd')
def f_xadd(E, node):
    a, b = [lift(E.eval(x)) for x in node.args]
    return xops.add(xops.to_x(a), xops.to_x(b))


@form('ncols')
def f_ncols(E, node):
    f = E.eval(node.args[0])
    return len(f.cols)


@form('call_arg')
def f_call_arg(E, node):
    """call_arg('qualified.name', 'param'): the argument bound to `param` in the last logged call of that function"""
    qual = E.eval(node.args[0])
    name = E.eval(node.args[1])
    for q, bound, res in reversed(E.st.calls):
        if q == qual:
            return bound[name]
    raise Unsupported('no logged call of %s' % qual)


@form('call_result')
def f_call_result(E, node):
    qual = E.eval(node.args[0])
    for q, bound, res in reversed(E.st.calls):
        if q == qual:
            return res
    raise Unsupported('no logged call of %s' % qual)


@form('local')
def f_local(E, node):
    """local('name'): the value of a local variable of the function at the point where the clause is evaluated
    (ties the clause to an implementation detail: if the local disappears the obligation is lost, not failed)"""
    name = E.eval(node.args[0])
    env = getattr(E, 'final_env', None) or {}
    if name not in env:
        raise Unsupported('no local %s at this point' % name)
    return env[name]


@form('selects')
def f_selects(E, node):
    """selects(out, src, mask[, shift_cols, shift]): table `out` consists of exactly the rows of `src` whose mask entry is
    True, in order, all values equal - except that the columns named in shift_cols are reduced by `shift`"""
    from . import lib
    out = E.eval(node.args[0])
    src = E.eval(node.args[1])
    mask = E.eval(node.args[2])
    shift_cols = E.eval(node.args[3]) if len(node.args) > 3 else ()
    shift = E.eval(node.args[4]) if len(node.args) > 4 else 0
    if isinstance(shift_cols, PyList):
        shift_cols = tuple(shift_cols.items)
    m, g, cnt = lib.compress_map(E, mask, node)
    k = z3.Int(fresh_name('sk'))
    parts = [out.n == m, z3.BoolVal(set(out.cols) == set(src.cols))]
    sh = lift(shift)
    for c, a in src.cols.items():
        if c not in out.cols:
            continue
        o = E.rd(out.cols[c], k)
        sv = E.st.heap[a.ident](a.off + g(k) * a.stride)
        if c in shift_cols:
            sv = E.binop(ast.Sub(), sv, sh)
        parts.append(z3.ForAll([k], z3.Implies(z3.And(k >= 0, k < m), zbool(same(E, o, sv)))))
    return Z(z3.And(*parts), BOOL)
