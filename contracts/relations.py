"""Lemmas over contracts, stated on relational harnesses (vlemma/relations.py): C09 mirror relation.

The harness calls compute_features twice; the verifier uses the CONTRACT of compute_features at both call sites (its 82
typed cases are proved against the code under C01 / C04 - C07).  What is assumed here, as a definitional clause where both
results exist, is the determinism of the cyclepoint search: the two analyses hand the very same array (-sig) and the same
options to compute_cyclepoints, so the six sample columns coincide up to the peak/trough renaming.  What is PROVED is that
then every other column and every burst label of the trough-centred table is the mirror image of the peak-centred one."""
from . import contract, CONTRACTS
from .features_burst import SHAPE_COLS, BK_KEYS
from .features_features import TK_CYCLES, TK_AMP
from .cyclepoints import FE_KEYS
from .burst import FEATS
from vf.values import BOOL, INT, REAL, XR
from vf.engine import Unsupported

# trough-centred sample column -> the peak-centred column holding the same cyclepoint of the negated signal
SAMPLE_MAP = {'sample_trough': 'sample_peak', 'sample_last_peak': 'sample_last_trough', 'sample_next_peak': 'sample_next_trough',
              'sample_zerox_rise': 'sample_zerox_decay', 'sample_zerox_decay': 'sample_zerox_rise',
              'sample_last_zerox_rise': 'sample_last_zerox_decay'}
SWAP = {'time_peak': 'time_trough', 'time_trough': 'time_peak', 'time_rise': 'time_decay', 'time_decay': 'time_rise',
        'volt_rise': 'volt_decay', 'volt_decay': 'volt_rise'}
NEGATE = {'volt_peak': 'volt_trough', 'volt_trough': 'volt_peak'}
ONE_MINUS = ['time_rdsym', 'time_ptsym']
SAME = ['period', 'volt_amp', 'band_amp']

T, P = "result[0]", "result[1]"
DETERMINISM = ["len(df_trough) == len(df_peak)"] + [
    "forall(i, 0 <= i < len(df_trough), df_trough['%s'][i] == df_peak['%s'][i])" % (a, b) for a, b in SAMPLE_MAP.items()]


def _mirror_clauses(method):
    rng = "0 <= i < len(%s)" % T
    out = ["len(%s) == len(%s)" % (T, P)]
    out += ["forall(i, %s, %s['%s'][i] == %s['%s'][i])" % (rng, T, a, P, b) for a, b in SAMPLE_MAP.items()]
    out += ["forall(i, %s, same(%s['%s'][i], %s['%s'][i]))" % (rng, T, a, P, b) for a, b in SWAP.items()]
    out += ["forall(i, %s, same(%s['%s'][i], xsub(0, %s['%s'][i])))" % (rng, T, a, P, b) for a, b in NEGATE.items()]
    out += ["forall(i, %s, same(%s['%s'][i], xsub(1, %s['%s'][i])))" % (rng, T, c, P, c) for c in ONE_MINUS]
    feats = list(FEATS) if method == 'cycles' else ['burst_fraction']
    out += ["forall(i, %s, same(%s['%s'][i], %s['%s'][i]))" % (rng, T, c, P, c) for c in SAME + feats]
    out += ["forall(i, %s, %s['is_burst'][i] == %s['is_burst'][i])" % (rng, T, P)]
    return out


def _mirror_proof(method):
    def h(P):
        import z3
        from vf import xops
        from vf.values import X, Z, XRS
        from vf.engine import to_int, zbool
        from vf.lib import term_int
        E, env = P.E, P.env
        Tf, Pf = env['df_trough'], env['df_peak']
        n = Tf.n
        env2 = dict(E.entry_env)
        env2['result'] = (Tf, Pf)
        clauses = _mirror_clauses(method)
        ci = lambda F, c, x: to_int(E.rd(F.cols[c], x))
        DEF = 'define:after_assign-df_peak'
        C1, C2 = 'call:compute_features#1', 'call:compute_features#2'
        DET = lambda x: [P.instq(DEF, k, x) for k in range(0, 7)]
        ORD = lambda x: [P.inst_formula(P.pick(C, 'sample_', k), x) for C in (C1, C2) for k in (0, 1)]
        r, d = z3.Int('X_r'), z3.Int('X_d')
        xa, xb = z3.Const('X_a', XRS), z3.Const('X_b', XRS)
        R, D, S_, ONE = (xops.to_x(Z(r, INT)), xops.to_x(Z(d, INT)), xops.to_x(Z(r + d, INT)), xops.to_x(Z(z3.IntVal(1), INT)))
        P.forall('xr:one-minus', [r, d], z3.And(r >= 0, d >= 0, r + d > 0),
                 xops.same(xops.div(D, S_), xops.sub(ONE, xops.div(R, S_))))
        P.forall('xr:ratio-sym', [xa, xb], z3.And(xops.wf(xa), xops.wf(xb)), xops.same(xops.ratio(X(xa), X(xb)), xops.ratio(X(xb), X(xa))))
        idx = {c: k for k, c in enumerate(clauses)}
        name_of = {}
        k0 = 1 + len(SAMPLE_MAP) + len(SWAP) + len(NEGATE)
        # time_rdsym, time_ptsym: x / (x + y) = 1 - y / (x + y)
        P.prove_clause('mirror:time_rdsym', clauses[k0], env2,
                       lambda i: DET(i) + ORD(i) + [P.inst('xr:one-minus', ci(Pf, 'time_rise', i), ci(Pf, 'time_decay', i))])
        P.prove_clause('mirror:time_ptsym', clauses[k0 + 1], env2,
                       lambda i: DET(i) + ORD(i) + [P.inst('xr:one-minus', ci(Pf, 'time_peak', i), ci(Pf, 'time_trough', i))])
        using = E.case.setdefault('ensures_using', {})
        k1 = k0 + 2                                   # period, volt_amp, band_amp, then the burst features
        P.forall('xr:add-comm', [xa, xb], z3.And(xops.wf(xa), xops.wf(xb)), xops.same(xops.add(X(xa), X(xb)), xops.add(X(xb), X(xa))))
        xr0 = lambda F, c, x: xops.to_x(E.rd(F.cols[c], x)).t
        P.prove_clause('mirror:volt_amp', clauses[k1 + 1], env2,
                       lambda i: DET(i) + ORD(i) + [P.inst('xr:add-comm', xr0(Pf, 'volt_decay', i), xr0(Pf, 'volt_rise', i))])
        using[k1 + 2] = ['mirror:volt_amp']
        xr = lambda F, c, x: xops.to_x(E.rd(F.cols[c], x)).t
        near = lambda i: DET(i - 1) + DET(i) + DET(i + 1) + ORD(i - 1) + ORD(i) + ORD(i + 1)

        def feat(name, i):
            # instances of the callee's clauses about this column, and of the well-formedness of its entries (both are
            # instances of assumptions made when the two results were introduced)
            wf = [xops.wf(E.rd(F.cols[name], i).t) for F in (Tf, Pf)]
            return wf + [P.inst_formula(f, i) for C in (C1, C2) for f in
                         [x for x in (E.st.ghost['facts'][C]) if ('cf.' + name + '!') in x.sexpr()]]
        if method == 'cycles':
            va = k1 + 1
            # amp_fraction: the rank depends on the first n entries of volt_amp only
            AT, AP = E.arr_term(Tf.cols['volt_amp']), E.arr_term(Pf.cols['volt_amp'])
            k = z3.Int('M_k')
            matax = lambda A, x: [P.inst_formula(E.st.ghost['mat_axioms'][A.get_id()], x)] if A.get_id() in E.st.ghost.get('mat_axioms', {}) else []
            P.forall('volt_amp-pointwise', [k], z3.And(0 <= k, k < n), z3.Select(AT, k) == z3.Select(AP, k),
                     by=DET(k) + ORD(k) + matax(AT, k) + matax(AP, k))
            from vf.calls import reduction
            from vf.values import XR as _XR
            rk = reduction('avgrank', _XR, z3.ArraySort(z3.IntSort(), XRS))
            nt = n if not isinstance(n, int) else z3.IntVal(n)
            P.range_ext('rank-ext', 'volt_amp-pointwise', rk(AT, nt), rk(AP, Pf.n), 'Series.rank (average rank of the first n entries)')
            P.prove_clause('mirror:amp_fraction', clauses[k1 + 3], env2,
                           lambda i: DET(i) + [E.st.ghost['facts']['rank-ext'][1], P.instq(DEF, 0)] + [E.st.ghost['facts']['rank-ext'][0]])
            P.prove_clause('mirror:amp_consistency', clauses[k1 + 4], env2,
                           lambda i: near(i) + feat('amp_consistency', i) +
                           [P.inst('xr:ratio-sym', xr(Pf, 'volt_rise', i), xr(Pf, 'volt_decay', i)),
                            P.inst('xr:ratio-sym', xr(Pf, 'volt_rise', i), xr(Pf, 'volt_decay', i - 1)),
                            P.inst('xr:ratio-sym', xr(Pf, 'volt_rise', i + 1), xr(Pf, 'volt_decay', i))])
            P.prove_clause('mirror:period_consistency', clauses[k1 + 5], env2,
                           lambda i: near(i) + feat('period_consistency', i))
            P.prove_clause('mirror:monotonicity', clauses[k1 + 6], env2,
                           lambda i: DET(i) + ORD(i) + list(E.st.ghost['facts'].get('seq-neg', [])))
            for off, nm in ((3, 'amp_fraction'), (4, 'amp_consistency'), (5, 'period_consistency'), (6, 'monotonicity')):
                using[k1 + off + 1] = ['mirror:' + nm]
        if method == 'amp':
            P.prove_clause('mirror:burst_fraction', clauses[k1 + 3], env2, lambda i: DET(i) + ORD(i))
            using[k1 + 4] = ['mirror:burst_fraction']
        k_is = k1 + (7 if method == 'cycles' else 4)
        # is_burst: both labellings are minrun of a qualifying mask that is a pointwise function of the four features
        # (equal by the clauses just proved); the masks are range-restricted lambdas, equal by array extensionality
        F_ = E.st.ghost['facts']

        def find_apps(t, name, acc):
            if z3.is_app(t) and t.decl().name() == name:
                acc.append(t)
            for ch in ([t.body()] if z3.is_quantifier(t) else t.children()):
                find_apps(ch, name, acc)
            return acc
        goal_f = E.spec_bool(clauses[k_is], env2)
        masks = []
        for a_ in find_apps(goal_f, 'minrun', []):
            if not any(a_.arg(0).eq(m_) for m_ in masks):
                masks.append(a_.arg(0))
        if len(masks) != 2:
            raise Unsupported('is_burst clause: expected two qualifying masks, found %d' % len(masks))
        LT, LP = masks
        kk = z3.Int('M_kk')
        feats_ = ('amp_fraction', 'amp_consistency', 'period_consistency', 'monotonicity') if method == 'cycles' else ('burst_fraction',)
        inst4 = lambda x: [P.inst_formula(F_['mirror:' + nm], x) for nm in feats_]
        P.forall('mask-pointwise', [kk], z3.BoolVal(True), z3.Select(LT, kk) == z3.Select(LP, kk),
                 by=[P.instq(DEF, 0)] + inst4(kk))
        P.ground('mask-equal', LT == LP, by=[F_['mask-pointwise']])
        P.prove_clause('mirror:is_burst', clauses[k_is], env2,
                       lambda i: [P.instq(DEF, 0)] + [P.inst_formula(f, i) for C in (C1, C2) for f in F_[C]
                                                      if 'cf.is_burst!' in f.sexpr()] +
                       [P.inst('mask-equal')])
        using[k_is + 1] = ['mirror:is_burst']
    return h


def _using():
    u = {k: ['define:after_assign-df_peak', 'call:compute_features#1', 'call:compute_features#2'] for k in range(1, 40)}
    u.update({16: ['mirror:time_rdsym'], 17: ['mirror:time_ptsym']})
    return u


def _cases():
    out = []
    for method in ('cycles', 'amp'):
        for bk in (False, True):
            if method == 'cycles' and bk:
                continue
            for tk in (False, True):
                for fek in (False, True):
                    if fek:
                        continue          # (a forced first_extrema raises; the boundary variant is the same argument)
                    params = {'sig': ('arr', REAL), 'fs': REAL, 'f_range': ('tuple', [REAL, REAL]),
                              'burst_method': ('const', method),
                              'burst_kwargs': ('dict', {k: v for k, v in BK_KEYS.items() if k not in ('fs', 'f_range')}) if bk else 'none',
                              'threshold_kwargs': ('dict', TK_CYCLES if method == 'cycles' else TK_AMP) if tk else 'none',
                              'find_extrema_kwargs': 'none'}
                    want = 'trough,%s,bk=%s,tk=%s,fek=None,samples=True' % (method, 'dict' if bk else 'None', 'dict' if tk else 'None')
                    cf_case = [c for c in CONTRACTS['bycycle.features.features.compute_features']['cases']
                               if c['label'].startswith(want)][0]
                    out.append(dict(
                        label='%s,bk=%s,tk=%s' % (method, bk, tk), params=params,
                        requires=["osc3(-sig, fs, f_range, 0, {'n_cycles': 3}, 'bandpass', True)"],
                        define={('after_assign', 'df_peak'): DETERMINISM},
                        raises=dict(cf_case.get('raises', {})),     # both runs reject the same settings
                        ensures=_mirror_clauses(method),
                        proof={('before_return',): _mirror_proof(method)},
                        ensures_using=_using()))
    return out


contract('vlemma.relations.mirror_pair', cases=_cases(), modifies=[])
