"""bycycle.plts.cyclepoints — C20, the argument preparation of the cyclepoint plots without x-limits.

What is verified is WHAT is handed to the external drawing routine (neurodsp's plot_time_series, about which nothing is
assumed; its calls are logged as ghost state).  The time grid np.arange(0, n / fs, 1 / fs) is taken as the exact grid i / fs
(real arithmetic): the floating-point behaviour of the grid - where defects D10, D12 - D14 lived - stays with the bounded job."""
from . import contract
from vf.values import BOOL, INT, REAL, XR, STR

PTS = "'neurodsp.plts.plot_time_series:markers'"
PCA = "'bycycle.plts.cyclepoints.plot_cyclepoints_array'"


def marker_clause(k, points, first="0", last="len(sig) - 1"):
    """C20: the markers of one kind are cyclepoints of that kind, in order, each at (sample / fs, signal value at that
    sample), and they include every cyclepoint strictly inside the view [first, last]; whether a cyclepoint exactly on the
    first or the last displayed sample is drawn is left open (four conventions)"""
    xs, ys = "call_arg(%s, 'times')[%d]" % (PTS, k), "call_arg(%s, 'sigs')[%d]" % (PTS, k)
    alts = []
    for lo in (first, "%s + 1" % first):
        for hi in (last, "%s + 1" % last):
            sel = "{p}[({p} >= {lo}) & ({p} < {hi})]".format(p=points, lo=lo, hi=hi)
            alts.append(("(len({xs}) == len({sel}) and len({ys}) == len({sel}) and "
                         "forall(j, 0 <= j < len({sel}), {xs}[j] == {sel}[j] / fs and {ys}[j] == sig[{sel}[j]]))").format(
                             xs=xs, ys=ys, sel=sel))
    return " or ".join(alts)


def _array_cases():
    out = []
    kinds = ('peaks', 'troughs', 'rises', 'decays')
    for label, given in (('all-kinds', kinds), ('extrema-only', kinds[:2]), ('zerox-only', kinds[2:]), ('peaks-only', kinds[:1]), ('no-kinds', ())):
        for plot_sig in (False, True):
            params = {'sig': ('arr', REAL), 'fs': REAL, 'plot_sig': ('const', plot_sig), 'xlim': 'none', 'ax': 'opaque',
                      'kwargs': ('dict', {})}
            for k in kinds:
                params[k] = ('arr', INT) if k in given else 'none'
            out.append(dict(
                label='xlim=None,%s,plot_sig=%s' % (label, plot_sig), params=params,
                requires=["fs > 0", "len(sig) >= 2"],
                ensures=["result is None",
                         "len(call_arg(%s, 'times')) == %d and len(call_arg(%s, 'sigs')) == %d" % (PTS, len(given), PTS, len(given))]
                + [marker_clause(k, nm) for k, nm in enumerate(given)]))
    return out


contract('bycycle.plts.cyclepoints.plot_cyclepoints_array', cases=_array_cases(), raises={'ValueError': "fs < 0"},
         modifies=['ax'])          # the drawing surface is drawn on; nothing else is touched


# ------------------------------------------------------------------------------------------------ plot_cyclepoints_df
def _unique_proof(contains, only):
    """the two membership clauses about np.unique(np.append(opening, closing)) from explicit instances of its assumed
    contract: entry i of the first half and entry len + i of the second half have a position in the result, and every
    result entry has a source"""
    def h(P):
        E = P.E
        if not E.st.ghost.get('unique'):
            return
        ax = E.st.ghost['facts']['unique#1']
        env2 = dict(E.entry_env)
        env2['result'] = None
        n = E.entry_env['df_samples'].n
        P.prove_clause('unique:contains', contains, env2, lambda i: [P.inst_formula(ax[3], i), P.inst_formula(ax[3], n + i), ax[0]])
        P.prove_clause('unique:only', only, env2, lambda j: [P.inst_formula(ax[2], j), ax[0]])
    return h


def _df_cases():
    from .features_burst import sample_cols
    out = []
    for centre in ('peak', 'trough'):
        side = 'trough' if centre == 'peak' else 'peak'
        cols = {c: INT for c in sample_cols(centre)}
        for pe, pz, ps in ((True, True, True), (True, True, False), (True, False, False), (False, True, True), (False, False, True)):
            if True:
                ens = ["result is None",
                       # the signal, the rate and the (absent) limits reach the array version unchanged
                       "call_arg(%s, 'sig') is sig and call_arg(%s, 'fs') == fs and call_arg(%s, 'xlim') is None" % (PCA, PCA, PCA)]
                if pe:
                    ctr = "call_arg(%s, 'peaks')" % PCA
                    sd = "call_arg(%s, 'troughs')" % PCA
                    last, nxt = "df_samples['sample_last_%s']" % side, "df_samples['sample_next_%s']" % side
                    ens += [
                        # C20: the first kind of marker is the centre extremum of every cycle (whatever the centring) ...
                        "len({c}) == len(df_samples) and forall(i, 0 <= i < len(df_samples), {c}[i] == df_samples['sample_{k}'][i])".format(c=ctr, k=centre),
                        # ... the second kind are the side extrema: every opening and every closing one, nothing else, once each
                        "forall(j, 0 <= j < len({s}) - 1, {s}[j] < {s}[j + 1])".format(s=sd),
                        "forall(i, 0 <= i < len(df_samples), exists(j, 0 <= j < len({s}), {s}[j] == {l}[i]) and "
                        "exists(j, 0 <= j < len({s}), {s}[j] == {n}[i]))".format(s=sd, l=last, n=nxt),
                        "forall(j, 0 <= j < len({s}), exists(i, 0 <= i < len(df_samples), {s}[j] == {l}[i] or {s}[j] == {n}[i]))".format(
                            s=sd, l=last, n=nxt)]
                else:
                    ens.append("call_arg(%s, 'peaks') is None and call_arg(%s, 'troughs') is None" % (PCA, PCA))
                if pz:
                    for kind in ('rise', 'decay'):
                        a = "call_arg(%s, '%ss')" % (PCA, kind)
                        ens.append("len({a}) == len(df_samples) and forall(i, 0 <= i < len(df_samples), "
                                   "{a}[i] == df_samples['sample_zerox_{k}'][i])".format(a=a, k=kind))
                else:
                    ens.append("call_arg(%s, 'rises') is None and call_arg(%s, 'decays') is None" % (PCA, PCA))
                extra = {}
                if pe:
                    extra = dict(proof={('before_return',): _unique_proof(ens[4], ens[5])},
                                 ensures_using={5: ['unique:contains'], 6: ['unique:only']})
                out.append(dict(
                    label='%s-centred,extrema=%s,zerox=%s,plot_sig=%s' % (centre, pe, pz, ps), **extra,
                    params={'df_samples': ('frame', cols), 'sig': ('arr', REAL), 'fs': REAL, 'plot_sig': ('const', ps),
                            'plot_extrema': ('const', pe), 'plot_zerox': ('const', pz), 'xlim': 'none', 'ax': 'opaque',
                            'kwargs': ('dict', {})},
                    requires=["fs > 0", "len(sig) >= 2"],
                    ensures=ens))
    return out


contract('bycycle.plts.cyclepoints.plot_cyclepoints_df', cases=_df_cases(), raises={'ValueError': "fs < 0"}, modifies=['ax'])
