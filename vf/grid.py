"""Group-level modelling (C11, C12, C13, C15): arrays / lists whose elements are opaque values (signals, option
dictionaries, result tables), multiprocessing.Pool.imap, functools.partial, zip, reshape / swapaxes / flatten.

Signals and tables are terms of the uninterpreted sort Val; the per-signal analysis is the uninterpreted function CF.
What is verified here is exactly what the group functions add: pairing, ordering, placement, copying."""
import ast

import z3

from .values import INT, REAL, BOOL, STR, VAL, Z, X, Opt, Arr, Frame, SDict, Obj, Opaque, Ref, PyList, fresh_name, ValSort
from .engine import Unsupported, RaiseSig, lift, to_int, to_real, zbool, _opq
from .calls import libfn, method, CallArgs, dispatch, kwargs_term, EMPTY_KW
from . import lib
from .lib import term_int, Marker

DROP_RS = z3.Function('drop_return_samples', ValSort, ValSort)
CF_FN = z3.Function('compute_features_of', ValSort, z3.RealSort(), z3.RealSort(), z3.RealSort(), z3.BoolSort(), ValSort, ValSort)
CF2N_FN = z3.Function('epoched_analysis_of', ValSort, z3.RealSort(), z3.RealSort(), z3.RealSort(), z3.BoolSort(), ValSort,
                      z3.IntSort(), ValSort)           # entry e of compute_features_2d(rows, ..., axis=None)
NONE_OPTS = z3.Const('options_none', ValSort)
FLAT = z3.Function('flatten_rows', ValSort, ValSort)


def is_grid(a):
    return isinstance(a, Arr) and getattr(a, 'lead', None) is not None


def grid(E, shape, lead, closure, kind='ndarray', owner=None, fresh=True):
    ident = E.new_ident(fresh)
    a = Arr(ident, shape, VAL, kind)
    a.lead = lead
    a.owner = owner if owner is not None else ident
    E.st.heap[ident] = closure
    return a


def owner_of(a):
    return getattr(a, 'owner', a.ident)


class Elem(Opaque):
    """an element object of a list / array of option dictionaries: knows its container, for in-place mutation"""

    def __init__(self, t, arr, idx, length=None):
        Opaque.__init__(self, t, 'element')
        self.arr = arr
        self.idx = idx
        self.length = length


def _tlen(a):
    return a.shape[-1] if len(a.shape) > a.lead else None


def grid_get(E, a, idx, node):
    """a[idx] on the first leading axis"""
    clo = E.st.heap[a.ident]
    n = a.shape[0] if not isinstance(a.shape[0], int) else z3.IntVal(a.shape[0])
    if isinstance(idx, (int, Z)):
        t = term_int(idx)
        if not E.spec_mode:
            E.oblige('lib-pre', z3.And(t >= -n, t < n), node, 'index in range')
            t = z3.If(t < 0, n + t, t) if not isinstance(idx, int) or idx < 0 else t
        t = z3.simplify(t)
        if a.lead == 1:
            al = getattr(a, 'alias_of', None)
            if al is not None:
                # a slice of a list holds the SAME element objects: the element belongs to the list the slice was taken from
                base, lo = al
                return Elem(E.st.heap[base.ident](t + lo).t, base, z3.simplify(t + lo), _tlen(a))
            v = clo(t)
            return Elem(v.t, a, t, _tlen(a))
        sub = grid(E, a.shape[1:], a.lead - 1, (lambda *rest, clo=clo, t=t: clo(t, *rest)), a.kind, owner=owner_of(a),
                   fresh=a.ident in E.st.fresh)
        sub.parent = (a, t)          # a row of a nested list: stores go to the parent
        if getattr(a, 'elem_kind', None):
            sub.elem_kind = a.elem_kind
        return sub
    if isinstance(idx, tuple) and len(idx) == 2 and isinstance(idx[0], slice) and idx[0] == slice(None, None, None) \
            and a.lead == 2:
        j = term_int(idx[1])
        n1 = a.shape[1]
        if not E.spec_mode:
            E.oblige('lib-pre', z3.And(j >= 0, j < n1), node, 'index in range')
        return grid(E, (a.shape[0],) + tuple(a.shape[2:]), 1, (lambda i, clo=clo, j=j: clo(i, j)), a.kind, owner=owner_of(a),
                    fresh=a.ident in E.st.fresh)
    if isinstance(idx, slice) and a.lead == 1 and idx.step in (None, 1) and getattr(a, 'alias_of', None) is None:
        # lst[lo:hi] of a python list (or 1-D object array): a new container of the same element objects
        lo = 0 if idx.start is None else term_int(idx.start)
        hi = n if idx.stop is None else term_int(idx.stop)
        lo = z3.If(lo < 0, z3.If(n + lo < 0, 0, n + lo), z3.If(lo > n, n, lo)) if not isinstance(lo, int) else (lo if lo >= 0 else None)
        if lo is None or not (idx.stop is None):
            raise Unsupported('grid slice %r' % (idx,))
        lo_t = lo if not isinstance(lo, int) else z3.IntVal(lo)
        m = z3.simplify(z3.If(n - lo_t > 0, n - lo_t, 0))
        g = grid(E, (m,) + tuple(a.shape[1:]), 1, (lambda i, a=a, lo_t=lo_t: E.st.heap[a.ident](i + lo_t)), 'list', owner=owner_of(a),
                 fresh=a.ident in E.st.fresh)
        g.alias_of = (a, lo_t)
        if getattr(a, 'elem_kind', None):
            g.elem_kind = a.elem_kind
        return g
    raise Unsupported('grid index %r' % (idx,))


def grid_iter(E, a):
    from .loops import Iter
    clo = E.st.heap[a.ident]
    n = a.shape[0] if not isinstance(a.shape[0], int) else z3.IntVal(a.shape[0])
    if a.lead == 1:
        tl = _tlen(a)
        # element k is read when iteration k starts (python list iteration): from the CURRENT contents, so that a loop
        # that changes the list it walks over sees its own earlier writes (through the loop invariant)
        al = getattr(a, 'alias_of', None)
        if al is not None:
            base, lo = al
            return Iter(count=n, elem=lambda k: Elem(E.st.heap[base.ident](k + lo).t, base, z3.simplify(k + lo), tl), deps=(base.ident,))
        return Iter(count=n, elem=lambda k: Elem(E.st.heap[a.ident](k).t, a, k, tl), deps=(a.ident,))
    def row(k):
        g = grid(E, a.shape[1:], a.lead - 1, (lambda *rest: E.st.heap[a.ident](k, *rest)), a.kind, owner=owner_of(a),
                 fresh=a.ident in E.st.fresh)
        g.parent = (a, k)
        if getattr(a, 'elem_kind', None):
            g.elem_kind = a.elem_kind
        return g
    return Iter(count=n, elem=row, deps=(a.ident,))


def rows_term(E, a):
    """a Val term standing for the 2-D array `a` of rows (for flattening / epoched analysis): a function of the row map"""
    f = z3.Function('rows_of', z3.ArraySort(z3.IntSort(), ValSort), z3.IntSort(), ValSort)
    clo = E.st.heap[a.ident]
    k = z3.Int(fresh_name('rk'))
    n = a.shape[0] if not isinstance(a.shape[0], int) else z3.IntVal(a.shape[0])
    A = z3.Lambda([k], clo(k).t) if E.binders > 0 else None
    if A is None:
        key = ('rows', a.ident, id(clo))
        A = E.st.ghost.get(key)
        if A is None:
            A = z3.Array(fresh_name('Rows'), z3.IntSort(), ValSort)
            E.assumptions_quant(z3.ForAll([k], z3.Select(A, k) == clo(k).t, patterns=[z3.Select(A, k)]))
            E.st.ghost[key] = A
    return f(A, n)


# ------------------------------------------------------------------------------------------------ option-set algebra
# Option dictionaries are opaque values; what the group functions do to them is pop keys and pass them on.  pop(k, d) is
# modelled by two uninterpreted functions per key: the set without the key, and the value-or-default.  The only facts
# used are the dictionary laws  get_k(drop_k2(o)) = get_k(o)  for k != k2  (stated as axioms on first use) and, at calls,
# f(k=o.get(k, d), **o-without-k) = f(**o)  when d is f's own default for k (python call semantics; the default is read
# from the callee's real signature).
_OPT_FUNS = {'drop': {}, 'get': {}, 'getstr': {}}
EPOCH_FN = z3.Function('epoch_table_of', ValSort, z3.IntSort(), z3.IntSort(), ValSort)     # (flat table, epoch length, e)
DBC_FN = z3.Function('detect_bursts_cycles_of', ValSort, ValSort, ValSort)                # (table, threshold options)
DBA_FN = z3.Function('detect_bursts_amp_of', ValSort, ValSort, ValSort)
EMPTY_DICT = EMPTY_KW


def _default_repr(d):
    if isinstance(d, SDict) and not any(p is not False for p, _ in d.items.values()):
        return 'emptydict'
    if d is None or isinstance(d, (str, int, float, bool)):
        return repr(d)
    raise Unsupported('pop default %r' % (d,))


def drop_fn(key):
    if key == 'return_samples':
        _OPT_FUNS['drop'][key] = DROP_RS
        return DROP_RS
    if key not in _OPT_FUNS['drop']:
        _OPT_FUNS['drop'][key] = z3.Function('drop_option_' + key, ValSort, ValSort)
    return _OPT_FUNS['drop'][key]


def get_fn(key, drepr):
    k = (key, drepr)
    if k not in _OPT_FUNS['get']:
        _OPT_FUNS['get'][k] = z3.Function('option_%s_or_%s' % (key, drepr), ValSort, ValSort)
    return _OPT_FUNS['get'][k]


def getstr_fn(key, drepr):
    k = (key, drepr)
    if k not in _OPT_FUNS['getstr']:
        _OPT_FUNS['getstr'][k] = z3.Function('option_str_%s_or_%s' % (key, drepr), ValSort, z3.IntSort())
    return _OPT_FUNS['getstr'][k]


def option_axioms(E):
    """dictionary laws for every (get key, drop key) pair in use, added once per path"""
    done = E.st.ghost.setdefault('opt_axioms', set())
    o = z3.Const('opt_ax_o', ValSort)
    for kind in ('get', 'getstr'):
        for (key, drepr), g in list(_OPT_FUNS[kind].items()):
            for k2, d in list(_OPT_FUNS['drop'].items()):
                if k2 == key or (kind, key, drepr, k2) in done:
                    continue
                done.add((kind, key, drepr, k2))
                E.assumptions_quant(z3.ForAll([o], g(d(o)) == g(o), patterns=[g(d(o))]))


STR_KEYS = ('burst_method',)


def option_value(E, t, key, default):
    """the value o.get(key, default) of an opaque option set with term t"""
    drepr = _default_repr(default)
    drop_fn('return_samples')
    if key in STR_KEYS:
        r = Z(getstr_fn(key, drepr)(t), STR)
    else:
        r = Opaque(get_fn(key, drepr)(t), 'option value')
        r.getd = (key, drepr, t)
        r.maybe_none = True
    option_axioms(E)
    return r


# ------------------------------------------------------------------------------------------------ model objects
BYC_NEW = z3.Function('bycycle_object_of', *([ValSort] * 5 + [z3.BoolSort(), ValSort]))      # the six constructor settings
BYC_LOADED = z3.Function('bycycle_loaded', ValSort, ValSort, ValSort, z3.RealSort(), z3.RealSort(), z3.RealSort(), ValSort)
EXPANDED = z3.Function('thresholds_expanded', ValSort, ValSort)


@libfn('bycycle.objs.fit.Bycycle')
def byc_construct(E, args, node):
    """group-level view of Bycycle(...): an opaque model object determined by its six settings.  The constructor expands
    threshold shorthands IN PLACE in the dictionary it is given (verified under C14); on an already expanded dictionary
    that is the identity: thresholds_expanded is idempotent (assumed dictionary fact)."""
    names = ['center_extrema', 'burst_method', 'burst_kwargs', 'thresholds', 'find_extrema_kwargs', 'return_samples']
    vals = []
    for k, nm in enumerate(names):
        v = args.pos[k] if k < len(args.pos) else args.kw.get(nm)
        vals.append(v)
    if not all(isinstance(v, Opaque) or v is None for v in vals[:5]):
        raise Unsupported('Bycycle(...) with non-opaque settings')
    ts = [NONE_OPTS if v is None else v.t for v in vals[:5]]
    th = vals[3]
    if th is not None:
        cell = getattr(th, 'cell', None)
        if cell is None:
            raise Unsupported('thresholds without identity')
        E.mutate(cell['ident'], node, 'Bycycle.__init__ expands the threshold names in the dictionary it is given')
        o = z3.Const('exp_o', ValSort)
        done = E.st.ghost.setdefault('expanded_axiom', [])
        if not done:
            E.assumptions_quant(z3.ForAll([o], EXPANDED(EXPANDED(o)) == EXPANDED(o), patterns=[EXPANDED(EXPANDED(o))]))
            done.append(True)
        cell['t'] = EXPANDED(cell['t'])
        th.t = cell['t']
        ts[3] = th.t
    rs = vals[5]
    rs_t = zbool(rs) if not isinstance(rs, bool) else z3.BoolVal(rs)
    obj = Opaque(BYC_NEW(*(ts + [rs_t])), 'Bycycle object')
    obj.cell = {'ident': E.new_ident(True), 't': obj.t}
    obj.is_model = True
    return obj


@method('Opaque.load')
def byc_load(E, v, args, node):
    """Bycycle.load(df_features, sig, fs, f_range): stores the four values in the object"""
    if not getattr(v, 'is_model', False):
        raise Unsupported('load on %r' % (v,))
    df, sig, fs, fr = args.get(0, 'df_features'), args.get(1, 'sig'), args.get(2, 'fs'), args.get(3, 'f_range')
    if not (isinstance(df, Opaque) and isinstance(sig, Opaque)):
        raise Unsupported('load with non-opaque table / signal')
    E.mutate(v.cell['ident'], node, 'Bycycle.load')
    v.t = BYC_LOADED(v.t, df.t, sig.t, to_real(lift(fs)), to_real(lift(fr[0])), to_real(lift(fr[1])))
    v.cell['t'] = v.t
    return None


CONCAT_ROWS = z3.Function('concat_tables', ValSort, ValSort)                       # (list of tables as a rows term)
WITH_COL = z3.Function('table_with_column', ValSort, z3.IntSort(), ValSort, ValSort)   # (table, column name code, value)


def table_setitem(E, v, key, value, node):
    """df[key] = value on a table held in a (nested) list, group level: the element is replaced in place by the table with
    that column set to the (scalar) value"""
    from .values import str_code
    if not isinstance(v, Elem) or getattr(v.arr, 'elem_kind', None) != 'table':
        raise Unsupported('item store on %r' % (v,))
    kt = z3.IntVal(str_code(key)) if isinstance(key, str) else (key.t if isinstance(key, Z) and key.ty == STR else None)
    if kt is None or not isinstance(value, Opaque):
        raise Unsupported('table column store with key %r value %r' % (key, value))
    a = v.arr
    root = getattr(a, 'parent', None)
    idx = v.idx
    vt = value.t
    if root is not None:
        pa, pt = root
        E.mutate(owner_of(pa), node, 'column store into a table of the nested list')
        old = E.st.heap[pa.ident]
        E.st.heap[pa.ident] = lambda i, j, old=old, pt=pt, idx=idx: _sel(z3.And(i == pt, j == idx), WITH_COL(old(i, j).t, kt, vt), old(i, j).t)
    else:
        E.mutate(owner_of(a), node, 'column store into a table of the list')
        old = E.st.heap[a.ident]
        E.st.heap[a.ident] = lambda i, old=old, idx=idx: _sel(i == idx, WITH_COL(old(i).t, kt, vt), old(i).t)


BYC_EDGES = z3.Function('bycycle_edges_recomputed', ValSort, z3.BoolSort(), z3.RealSort(), ValSort)     # (model, reduction given?, reduction)


@method('Opaque.recompute_edges')
def byc_recompute_edges(E, v, args, node):
    """group-level view of Bycycle.recompute_edges(reduction) on a model held in a list: the element is replaced, in place,
    by the model with its edges recomputed (verified for the object itself under C14)"""
    red = args.pos[0] if args.pos else args.kw.get('reduction')
    has = z3.BoolVal(red is not None)
    rv = to_real(lift(red)) if red is not None else z3.RealVal(0)
    if not isinstance(v, Elem):
        raise Unsupported('recompute_edges on %r' % (v,))
    a = v.arr
    root = getattr(a, 'parent', None)
    if root is not None:
        pa, pt = root
        E.mutate(owner_of(pa), node, 'recompute_edges on a model of the group')
        old = E.st.heap[pa.ident]
        idx = v.idx
        E.st.heap[pa.ident] = lambda i, j, old=old, pt=pt, idx=idx: _sel(z3.And(i == pt, j == idx), BYC_EDGES(old(i, j).t, has, rv), old(i, j).t)
    else:
        E.mutate(owner_of(a), node, 'recompute_edges on a model of the group')
        old = E.st.heap[a.ident]
        idx = v.idx
        E.st.heap[a.ident] = lambda i, old=old, idx=idx: _sel(i == idx, BYC_EDGES(old(i).t, has, rv), old(i).t)
    return None


@method('Opaque.get')
def opaque_get(E, v, args, node):
    key = args.pos[0]
    if not isinstance(key, str):
        raise Unsupported('get(%r) on an opaque option set' % (key,))
    default = args.pos[1] if len(args.pos) > 1 else None
    return option_value(E, v.t, key, default)


# ------------------------------------------------------------------------------------------------ element mutation
@method('Opaque.pop')
def opaque_pop(E, v, args, node):
    key = args.pos[0]
    if not isinstance(key, str):
        raise Unsupported('pop(%r) on an opaque option set' % (key,))
    has_default = len(args.pos) > 1
    if not has_default:
        raise Unsupported('pop without default on an opaque option set (KeyError not modelled)')
    dk = drop_fn(key)
    if isinstance(v, Elem):
        a = v.arr
        E.mutate(owner_of(a), node, 'dict.pop on an element of the option list')
        old = E.st.heap[a.ident]
        idx = v.idx
        if a.lead != 1:
            raise Unsupported('pop on an element of a 2-D option list')
        before = old(idx).t
        E.st.heap[a.ident] = lambda i, old=old, idx=idx: _sel(i == idx, dk(old(i).t), old(i).t)
        v.t = dk(before)
    else:
        cell = getattr(v, 'cell', None)
        if cell is None:
            raise Unsupported('pop on an opaque value without identity')
        E.mutate(cell['ident'], node, 'dict.pop on the option dictionary')
        before = cell['t']
        cell['t'] = dk(cell['t'])
        v.t = cell['t']
    if key == 'return_samples':
        return Opaque(z3.Const(fresh_name('popped'), ValSort), 'popped value')
    return option_value(E, before, key, args.pos[1])


def _sel(c, a, b):
    return _opq(z3.If(c, a, b))


# ------------------------------------------------------------------------------------------------ numpy on grids
def grid_flatten(E, a, node):
    clo = E.st.heap[a.ident]
    if a.lead == 2 and len(a.shape) == 2:            # 2-D object array -> 1-D, row-major
        n0, n1 = a.shape
        return grid(E, (z3.simplify(n0 * n1),), 1, (lambda r: clo(r / n1, r % n1)), a.kind, owner=owner_of(a))
    if a.lead == 1 and len(a.shape) == 1:
        return grid(E, a.shape, 1, clo, a.kind, owner=owner_of(a))
    if a.lead == 1 and len(a.shape) == 2:            # rows of samples -> one long signal
        o = _opq(FLAT(rows_term(E, a)), z3.simplify(a.shape[0] * a.shape[1]))
        return o
    raise Unsupported('flatten of this grid')


def grid_reshape(E, a, newshape, node):
    clo = E.st.heap[a.ident]
    if a.lead == 2 and len(a.shape) == 3 and len(newshape) == 2:
        n0, n1, T = a.shape
        m0, m1 = term_int(newshape[0]), term_int(newshape[1])
        if not E.spec_mode:
            E.oblige('lib-pre', z3.And(m0 == n0 * n1, m1 == T), node, 'reshape keeps the number of elements and the time axis')
        return grid(E, (z3.simplify(m0), T), 1, (lambda r: clo(r / n1, r % n1)), a.kind, owner=owner_of(a))
    raise Unsupported('reshape of this grid')


def grid_swapaxes(E, a, ax1, ax2, node):
    clo = E.st.heap[a.ident]
    if a.lead == 2 and {ax1, ax2} == {0, 1}:
        shape = (a.shape[1], a.shape[0]) + tuple(a.shape[2:])
        return grid(E, shape, 2, (lambda i, j: clo(j, i)), a.kind, owner=owner_of(a))
    raise Unsupported('swapaxes of this grid')


# ------------------------------------------------------------------------------------------------ partial / Pool / imap
class Partial:
    def __init__(self, ref, pos, kw, star):
        self.ref = ref
        self.pos = pos
        self.kw = kw
        self.star = star


@libfn('functools.partial')
def f_partial(E, args, node):
    f = args.pos[0]
    if not isinstance(f, Ref):
        raise Unsupported('partial of %r' % (f,))
    return Partial(f, list(args.pos[1:]), dict(args.kw), list(args.star_kw))


def apply_fn(E, f, x, node):
    """f(x) for f a reference or a partial, at the level of abstract per-signal analyses"""
    if isinstance(f, Partial):
        ca = CallArgs(list(f.pos) + [x], dict(f.kw), list(f.star))
        return abstract_call(E, f.ref, ca, node)
    if isinstance(f, Ref):
        return abstract_call(E, f, CallArgs([x], {}), node)
    raise Unsupported('apply %r' % (f,))


def abstract_call(E, ref, ca, node):
    c = E.contracts.get(ref.qual)
    if c is None or 'abstract' not in c:
        raise Unsupported('no abstract (group-level) contract for %s' % ref.qual)
    return c['abstract'](E, ca, node)


class Lazy:
    """a lazily mapped iterable: element k = fn(k)"""

    def __init__(self, count, elem, ordered=True):
        self.count = count
        self.elem = elem
        self.ordered = ordered


@libfn('multiprocessing.Pool')
def mp_pool(E, args, node):
    o = Opaque(z3.Const(fresh_name('pool'), ValSort), 'pool')
    o.is_pool = True
    return o


@libfn('multiprocessing.cpu_count')
def mp_cpu_count(E, args, node):
    z = E.fresh_z('cpus', INT)
    E.assume(z.t >= 1)
    return z


def _iter_of(E, it, node):
    from .loops import make_iter
    if isinstance(it, Lazy):
        return it.count, it.elem
    if isinstance(it, tuple) and it and it[0] == 'zip':
        parts = [_iter_of(E, x, node) for x in it[1:]]
        cnt = parts[0][0]
        for c, _ in parts[1:]:
            cnt = z3.If(c < cnt, c, cnt)
        return z3.simplify(cnt), (lambda k: tuple(e(k) for _, e in parts))
    if is_grid(it):
        I = grid_iter(E, it)
        return I.count, I.elem
    if isinstance(it, PyList):
        items = list(it.items)
        return z3.IntVal(len(items)), (lambda k: _pick(E, items, k))
    raise Unsupported('iterable %r' % (it,))


def _pick(E, items, k):
    if isinstance(k, int):
        return items[k]
    k = z3.simplify(k)
    if z3.is_int_value(k):
        return items[k.as_long()]
    r = items[-1]
    for j in range(len(items) - 2, -1, -1):
        r = _opq(z3.If(k == j, items[j].t, r.t))
    return r


@method('Opaque.imap')
def pool_imap(E, pool, args, node):
    """assumed contract of multiprocessing.Pool.imap: yields f(x_k) IN INPUT ORDER, whatever the number of worker
    processes and their completion order"""
    f, it = args.pos[0], args.pos[1]
    cnt, elem = _iter_of(E, it, node)
    return Lazy(cnt, lambda k: apply_fn(E, f, elem(k), node), ordered=True)


@method('Opaque.imap_unordered')
def pool_imap_unordered(E, pool, args, node):
    """imap_unordered promises only a permutation of the results"""
    f, it = args.pos[0], args.pos[1]
    cnt, elem = _iter_of(E, it, node)
    perm = z3.Function(fresh_name('perm'), z3.IntSort(), z3.IntSort())
    k = z3.Int(fresh_name('pk'))
    k2 = z3.Int(fresh_name('pk'))
    E.assumptions_quant(z3.ForAll([k], z3.Implies(z3.And(0 <= k, k < cnt), z3.And(0 <= perm(k), perm(k) < cnt))))
    E.assumptions_quant(z3.ForAll([k, k2], z3.Implies(z3.And(0 <= k, k < k2, k2 < cnt), perm(k) != perm(k2))))
    return Lazy(cnt, lambda kk: apply_fn(E, f, elem(perm(kk)), node), ordered=False)


def lazy_to_list(E, lz, kind='list'):
    probe = lz.elem(z3.Int(fresh_name('lzprobe')))
    if is_grid(probe) and probe.lead == 1:
        # every mapped element is itself a list of opaque values (one table per epoch): a list of lists
        def cell(i, j):
            g = lz.elem(i)
            return E.st.heap[g.ident](j)
        return grid(E, (z3.simplify(lz.count), probe.shape[0]), 2, cell, kind)
    return grid(E, (z3.simplify(lz.count),), 1, (lambda k: _as_opq(lz.elem(k))), kind)


def _as_opq(v):
    if isinstance(v, Opaque):
        return v
    if is_grid(v):
        raise Unsupported('nested lazy element')
    raise Unsupported('non-opaque mapped element %r' % (v,))


def grid_store(E, a, idx, v, node):
    """a[idx] = v for lists / nested lists of opaque values"""
    if not isinstance(v, Opaque):
        raise Unsupported('store of %r into a list of opaque values' % (v,))
    t = term_int(idx)
    n = a.shape[0] if not isinstance(a.shape[0], int) else z3.IntVal(a.shape[0])
    if a.lead != 1:
        raise Unsupported('store of a whole row')
    E.oblige('lib-pre', z3.And(t >= -n, t < n), node, 'store index in range')
    t = z3.simplify(z3.If(t < 0, n + t, t))
    parent = getattr(a, 'parent', None)
    if parent is not None:
        pa, pt = parent
        E.mutate(pa.ident, node, 'nested list item store')
        old = E.st.heap[pa.ident]
        vt = v.t
        E.st.heap[pa.ident] = lambda i, j, old=old, pt=pt, t=t, vt=vt: _opq(z3.If(z3.And(i == pt, j == t), vt, old(i, j).t))
        return
    E.mutate(a.ident, node, 'list item store')
    old = E.st.heap[a.ident]
    vt = v.t
    E.st.heap[a.ident] = lambda i, old=old, t=t, vt=vt: _opq(z3.If(i == t, vt, old(i).t))


ZERO_VAL = z3.Const('float_zero_placeholder', ValSort)


def zeros_grid(E, shape):
    """np.zeros((a, b)).tolist(): a nested list with DISTINCT row lists, filled with placeholders"""
    return grid(E, tuple(shape), len(shape), (lambda *idx: _opq(ZERO_VAL)), 'list')
