"""bycycle.burst.{utils,cycle,amp} — C06, C07, C08, C16, C19."""
import z3

from . import contract
from . import specs
from vf.values import Arr, Frame, Z, BOOL, INT, fresh_name


def _same_array_havoc(param):
    """result maker for in-place functions: the very same array object, contents havoc'd (then constrained by
    the ensures clauses)"""
    def make(E, env):
        a = env[param]
        E.st.heap[a.ident] = E.base_closure(param + '@post', a.ty)
        return a
    return make


contract(
    'bycycle.burst.utils.check_min_burst_cycles',
    params={'is_burst': ('arr', BOOL), 'min_n_cycles': INT},
    requires=[],
    raises={'ValueError': "len(is_burst) > 0 and min_n_cycles < 0"},
    ensures=[
        "result is is_burst",
        "len(result) == len(old(is_burst))",
        "forall(i, 0 <= i < len(result), result[i] == minrun(old(is_burst), min_n_cycles, i))",
    ],
    modifies=['is_burst'],
    result=_same_array_havoc('is_burst'),
)

FEATS = ('amp_fraction', 'amp_consistency', 'period_consistency', 'monotonicity')
THRS = tuple(f + '_threshold' for f in FEATS)

Q_CYCLES = ("arrdef(j, len(df_features), 0 < j < len(df_features) - 1 and " +
            " and ".join("old(df_features['%s'])[j] > %s" % (f, t) for f, t in zip(FEATS, THRS)) + ")")


def _frame_plus_is_burst(E, env):
    """result maker for detect_bursts_*: the same table object with an is_burst column of unknown content"""
    f = env['df_features']
    f.cols = dict(f.cols)
    f.cols['is_burst'] = E.new_arr(f.n, BOOL, kind='series', base='is_burst@post')
    return f


contract(
    'bycycle.burst.cycle.detect_bursts_cycles',
    params={'df_features': ('frame', {f: 'xr' for f in FEATS}),
            **{t: 'real' for t in THRS}, 'min_n_cycles': INT},
    requires=[],
    raises={'ValueError': " or ".join("%s < 0 or %s > 1" % (t, t) for t in THRS) +
                          " or (len(df_features) > 0 and min_n_cycles < 0)"},
    ensures=[
        "result is df_features",
        "len(result) == len(old(df_features))",
        # C06: exactly the cycles in a run of >= min_n_cycles qualifying cycles (strict >, ends never qualify)
        "forall(i, 0 <= i < len(result), result['is_burst'][i] == minrun(%s, min_n_cycles, i))" % Q_CYCLES,
    ] + ["forall(i, 0 <= i < len(result), same(result['%s'][i], old(df_features['%s'])[i]))" % (f, f) for f in FEATS],
    modifies=['df_features'],
    result=_frame_plus_is_burst,
)

Q_AMP = "arrdef(j, len(df_features), old(df_features['burst_fraction'])[j] >= burst_fraction_threshold)"

contract(
    'bycycle.burst.amp.detect_bursts_amp',
    params={'df_features': ('frame', {'burst_fraction': 'xr'}), 'burst_fraction_threshold': 'real',
            'min_n_cycles': INT},
    raises={'ValueError': "burst_fraction_threshold < 0 or burst_fraction_threshold > 1 or "
                          "(len(df_features) > 0 and min_n_cycles < 0)"},
    ensures=[
        "result is df_features",
        "len(result) == len(old(df_features))",
        "forall(i, 0 <= i < len(result), result['is_burst'][i] == minrun(%s, min_n_cycles, i))" % Q_AMP,
        "forall(i, 0 <= i < len(result), same(result['burst_fraction'][i], old(df_features['burst_fraction'])[i]))",
    ],
    modifies=['df_features'],
    result=_frame_plus_is_burst,
)


# ------------------------------------------------------------------------------------------------
# check_min_burst_cycles: proof script (C08).  Every `have` / `induct` below is an obligation discharged by the solver;
# the only statement taken on trust is the definition of the spec function minrun (unfold_minrun).
# ------------------------------------------------------------------------------------------------
from vf.engine import zbool as _zb, to_int as _ti   # noqa: E402


def _facts(P):
    E, env = P.E, P.env
    b, d, tr = env['is_burst'], env['diff'], env['transitions']
    n = b.n
    g, cnt = tr.meta['g'], tr.meta['cnt']
    t = tr.n
    bz = lambda j: _zb(E.rd(b, j))
    bp = lambda j: z3.And(0 <= j, j < n, bz(j))
    return E, env, b, d, tr, n, g, cnt, t, bz, bp


def _cmap(E, ident):
    key = [kk for kk in E.st.ghost.get('cmap_inst', {}) if kk[1] == ident][0]
    return E.st.ghost['cmap_inst'][key], E.st.ghost[key]


def _after_transitions(P):
    """facts about the transition indices (all steps are quantifier-free obligations with explicit instances)"""
    E, env, b, d, tr, n, g, cnt, t, bz, bp = _facts(P)
    AX, _ = _cmap(E, tr.meta['nonzero_of'].ident)
    x, i0, j, k, i = z3.Ints('px pi0 pj pk pi')
    # parity: the number of transitions before position x is even exactly when the (padded) array is False at x-1
    P.induct_q('parity', x, 0, n + 1, (cnt(x) % 2 == 0) == z3.Not(bp(x - 1)), lambda it: [AX['rec'](it)])
    P.ground('t-even', t % 2 == 0, by=[P.inst('parity', n + 1)])
    # cnt is monotone
    P.induct_q('mono', j, i0, n + 1, cnt(i0) <= cnt(j), lambda it: [AX['rec'](it)], params=[i0], prem=(0 <= i0))
    P.forall('cnt-after-g', [k], z3.And(0 <= k, k < t),
             z3.And(cnt(g(k) + 1) == k + 1, cnt(g(k)) == k, 0 <= g(k), g(k) <= n),
             by=[AX['sel'](k), AX['rec'](g(k))], patterns=[g(k)])
    P.forall('cnt-le-t', [i], z3.And(0 <= i, i <= n + 1), z3.And(0 <= cnt(i), cnt(i) <= t),
             by=[P.inst('mono', 0, i), P.inst('mono', i, n + 1)], patterns=[cnt(i)])
    # position of the k-th transition relative to i
    P.forall('g-vs-cnt-1', [k, i], z3.And(0 <= k, k < t, 0 <= i, i <= n + 1, g(k) < i), k < cnt(i),
             by=[P.inst('cnt-after-g', k), P.inst('mono', g(k) + 1, i)])
    P.forall('g-vs-cnt-2', [k, i], z3.And(0 <= k, k < t, 0 <= i, i <= n + 1, k < cnt(i)), g(k) < i,
             by=[P.inst('cnt-after-g', k), P.inst('mono', i, g(k))])
    # a True position lies in the run between transitions cnt(j+1)-1 (on) and cnt(j+1) (off)
    P.forall('true-odd', [j], z3.And(0 <= j, j < n, bz(j)),
             z3.And(cnt(j + 1) % 2 == 1, 1 <= cnt(j + 1), cnt(j + 1) < t),
             by=[P.inst('parity', j + 1), P.inst('cnt-le-t', j + 1), P.inst('t-even')])
    P.forall('true-in-run', [j], z3.And(0 <= j, j < n, bz(j)),
             z3.And(g(cnt(j + 1) - 1) <= j, j < g(cnt(j + 1))),
             by=[P.inst('true-odd', j), P.inst('g-vs-cnt-2', cnt(j + 1) - 1, j + 1), P.inst('g-vs-cnt-1', cnt(j + 1), j + 1)])
    # between two consecutive transitions the transition count is constant ...
    P.forall('run-interior-cnt', [k, j], z3.And(0 <= k, k + 1 < t, g(k) <= j, j < g(k + 1)),
             z3.And(0 <= j, j <= n, cnt(j + 1) == k + 1),
             by=[P.inst('cnt-after-g', k), P.inst('cnt-after-g', k + 1), P.inst('g-vs-cnt-1', k, j + 1),
                 P.inst('g-vs-cnt-2', k + 1, j + 1), P.inst('cnt-le-t', j + 1)])
    # ... so after an even transition everything up to the next transition is True
    P.forall('run-interior-true', [k, j], z3.And(0 <= k, k + 1 < t, k % 2 == 0, g(k) <= j, j < g(k + 1)),
             z3.And(j < n, bz(j)),
             by=[P.inst('run-interior-cnt', k, j), P.inst('parity', j + 1)])
    # runs are maximal
    P.forall('run-left-end', [k], z3.And(0 <= k, k < t, k % 2 == 0), z3.Not(bp(g(k) - 1)),
             by=[P.inst('cnt-after-g', k), P.inst('parity', g(k))])
    P.forall('run-right-end', [k], z3.And(0 <= k, k < t, k % 2 == 1), z3.And(g(k) <= n, z3.Not(bp(g(k)))),
             by=[P.inst('cnt-after-g', k), P.inst('parity', g(k) + 1)])


def _loop_entry(P):
    E, env, b, d, tr, n, g, cnt, t, bz, bp = _facts(P)
    too_short = env['too_short']
    son, soff = env['_zip0'], env['_zip1']
    Q = son.n
    AXG, (mQ, G, cntG) = _cmap(E, too_short.ident)
    AX, _ = _cmap(E, tr.meta['nonzero_of'].ident)
    p = z3.Int('lp')
    SON = lambda v: _ti(E.rd(son, v))
    SOFF = lambda v: _ti(E.rd(soff, v))
    P.forall('selected-bounds', [p], z3.And(0 <= p, p < Q), z3.And(0 <= SON(p), SON(p) <= SOFF(p), SOFF(p) <= n),
             by=[AXG['sel'](p), P.inst('cnt-after-g', 2 * G(p)), P.inst('cnt-after-g', 2 * G(p) + 1),
                 AX['inc'](2 * G(p), 2 * G(p) + 1), P.inst('t-even')], patterns=[G(p)])


def _before_return(P):
    E, env = P.E, P.env
    if 'transitions' not in env:
        return                          # the early return for an empty array
    E, env, b, d, tr, n, g, cnt, t, bz, bp = _facts(P)
    from .specs import MR, minrun_def
    m = _ti(env['min_n_cycles']) if not isinstance(env['min_n_cycles'], int) else z3.IntVal(env['min_n_cycles'])
    too_short = env['too_short']
    son, soff = env['_zip0'], env['_zip1']
    Q = son.n
    AXG, (mQ, G, cntG) = _cmap(E, too_short.ident)
    j, k, p, r, a, c = z3.Ints('qj qk qp qr qa qc')
    b0 = lambda v: _zb(E.st.entry_heap[b.ident](v))
    cur = lambda v: _zb(E.rd(b, v))
    ON = lambda v: g(2 * v)
    OFF = lambda v: g(2 * v + 1)
    SON = lambda v: _ti(E.rd(son, v))
    SOFF = lambda v: _ti(E.rd(soff, v))
    SHORT = lambda v: _zb(E.rd(too_short, v))
    H = t / 2
    RUN = lambda v: (cnt(v + 1) - 1) / 2
    TE = P.inst('t-even')
    P.forall('short-def', [r], z3.And(0 <= r, r < H), SHORT(r) == (OFF(r) - ON(r) < m), by=[TE])
    P.forall('selected-are-short', [p], z3.And(0 <= p, p < Q),
             z3.And(0 <= G(p), G(p) < H, SHORT(G(p)), SON(p) == ON(G(p)), SOFF(p) == OFF(G(p))),
             by=[AXG['sel'](p), TE], patterns=[G(p)])
    P.forall('short-are-selected', [r], z3.And(0 <= r, r < H, SHORT(r)),
             z3.And(0 <= cntG(r), cntG(r) < Q, G(cntG(r)) == r),
             by=[AXG['hit'](r), AXG['rec'](r), TE], patterns=[cntG(r)])
    # the run of a True position j is r(j) = (cnt(j+1) - 1) / 2
    P.forall('run-of-true', [j], z3.And(0 <= j, j < n, b0(j)),
             z3.And(0 <= RUN(j), RUN(j) < H, 2 * RUN(j) + 1 == cnt(j + 1), ON(RUN(j)) <= j, j < OFF(RUN(j))),
             by=[P.inst('true-odd', j), P.inst('true-in-run', j), TE], patterns=[cnt(j + 1)])
    P.forall('covering-run-is-own-run', [r, j], z3.And(0 <= r, r < H, ON(r) <= j, j < OFF(r)),
             z3.And(0 <= j, j < n, b0(j), RUN(j) == r),
             by=[P.inst('run-interior-cnt', 2 * r, j), P.inst('run-interior-true', 2 * r, j), TE])
    # cleared exactly when the own run is too short
    P.forall('covered-implies-short', [j, p], z3.And(0 <= j, j < n, b0(j), 0 <= p, p < Q, SON(p) <= j, j < SOFF(p)),
             SHORT(RUN(j)),
             by=[P.inst('selected-are-short', p), P.inst('covering-run-is-own-run', G(p), j)])
    P.forall('short-implies-covered', [j], z3.And(0 <= j, j < n, b0(j), SHORT(RUN(j))),
             z3.And(0 <= cntG(RUN(j)), cntG(RUN(j)) < Q, SON(cntG(RUN(j))) <= j, j < SOFF(cntG(RUN(j)))),
             by=[P.inst('run-of-true', j), P.inst('short-are-selected', RUN(j)), P.inst('selected-are-short', cntG(RUN(j)))])
    facts = E.st.ghost.setdefault('facts', {})
    P.register('INV', facts['loop1-exit'])
    P.have('cleared-iff-short', z3.ForAll([j], z3.Implies(z3.And(0 <= j, j < n, b0(j)), cur(j) == z3.Not(SHORT(RUN(j))))),
           using=['INV', 'covered-implies-short', 'short-implies-covered'])
    P.have('false-stays-false', z3.ForAll([j], z3.Implies(z3.And(0 <= j, j < n, z3.Not(b0(j))), z3.Not(cur(j)))),
           using=['INV'])
    # the definition of the spec function (skolemised form), at this array / length / count
    from .specs import minrun_skolem
    B0 = E.mat(_frozen_entry(E, b))
    lo, hi, window, D1, D2 = minrun_skolem(B0, n, m)
    i = z3.Int('qi')
    E.assumptions_quant(z3.ForAll([i], D1(i), patterns=[MR(B0, n, m, i)]))
    E.assumptions_quant(z3.ForAll([i, a, c], D2(i, a, c)))
    MAT = lambda v: z3.Select(B0, v) == z3.If(z3.And(v >= 0, v < n), b0(v), False)      # instances of the mat axiom
    P.register('MATAX', [E.st.ghost['mat_axioms'][B0.get_id()]])
    P.have('mat-inst', z3.ForAll([k], MAT(k), patterns=[z3.Select(B0, k)]), using=['MATAX'])
    P.schema('mat-inst', lambda v: MAT(v))
    # the own run is a window of True
    P.forall('run-is-true-window', [j, k], z3.And(0 <= j, j < n, b0(j), ON(RUN(j)) <= k, k < OFF(RUN(j))), z3.Select(B0, k),
             by=[P.inst('run-of-true', j), P.inst('covering-run-is-own-run', RUN(j), k), P.inst('mat-inst', k)])
    kk = z3.Int('mr_k')
    P.forall('run-window', [j], z3.And(0 <= j, j < n, b0(j)), window(ON(RUN(j)), OFF(RUN(j))),
             by=[z3.ForAll([kk], P.inst('run-is-true-window', j, kk))])
    # long run => its own interval is the witness window
    P.forall('long-run-kept', [j], z3.And(0 <= j, j < n, b0(j), z3.Not(SHORT(RUN(j)))), MR(B0, n, m, j),
             by=[D2(j, ON(RUN(j)), OFF(RUN(j))), P.inst('run-window', j), P.inst('run-of-true', j), P.inst('short-def', RUN(j)),
                 P.inst('cnt-after-g', 2 * RUN(j) + 1), P.inst('cnt-after-g', 2 * RUN(j)), TE, P.inst('mat-inst', j)])
    # any True window around j lies inside j's run, so a window of length >= m makes the run long
    win = lambda v: z3.Implies(z3.And(a <= v, v < c), z3.Select(B0, v))
    prem = z3.And(0 <= a, a <= j, j < c, c <= n, 0 <= j, j < n, b0(j), window(a, c))
    P.forall('window-inside-run', [j, a, c], prem, z3.And(ON(RUN(j)) <= a, c <= OFF(RUN(j))),
             by=[P.inst('run-of-true', j), P.inst('run-left-end', 2 * RUN(j)), P.inst('run-right-end', 2 * RUN(j) + 1),
                 P.inst('mat-inst', ON(RUN(j)) - 1), P.inst('mat-inst', OFF(RUN(j))),
                 win(ON(RUN(j)) - 1), win(OFF(RUN(j))), TE])
    prem2 = z3.And(prem, c - a >= m)
    P.forall('window-makes-long', [j, a, c], prem2, z3.Not(SHORT(RUN(j))),
             by=[P.inst('window-inside-run', j, a, c), P.inst('run-of-true', j), P.inst('short-def', RUN(j))])
    P.forall('kept-only-if-long', [j], z3.And(0 <= j, j < n, MR(B0, n, m, j)), z3.And(b0(j), z3.Not(SHORT(RUN(j)))),
             by=[D1(j), P.inst('window-makes-long', j, lo(j), hi(j)), P.inst('mat-inst', j)])
    P.schema('cleared-iff-short', lambda v: z3.Implies(z3.And(0 <= v, v < n, b0(v)), cur(v) == z3.Not(SHORT(RUN(v)))))
    P.schema('false-stays-false', lambda v: z3.Implies(z3.And(0 <= v, v < n, z3.Not(b0(v))), z3.Not(cur(v))))
    P.forall('post', [j], z3.And(0 <= j, j < n), cur(j) == MR(B0, n, m, j),
             by=[P.inst('cleared-iff-short', j), P.inst('false-stays-false', j), P.inst('long-run-kept', j),
                 P.inst('kept-only-if-long', j)])


from vf.values import fresh_name  # noqa: E402


def _mentions(a, name):
    return name in a.sexpr()


def _mentions_term(a, t):
    return str(t) in a.sexpr() or t.sexpr() in a.sexpr()


def _frozen_entry(E, b):
    from vf.spec import _freeze
    with E.entry_view():
        f = _freeze(E, b)
    E.st.heap.setdefault(f.ident, E.st.entry_heap[b.ident])
    return f


contract(
    'bycycle.burst.utils.check_min_burst_cycles',
    params={'is_burst': ('arr', BOOL), 'min_n_cycles': INT},
    requires=[],
    raises={'ValueError': "len(is_burst) > 0 and min_n_cycles < 0"},
    ensures=[
        "result is is_burst",
        "len(result) == len(old(is_burst))",
        "forall(i, 0 <= i < len(result), result[i] == minrun(old(is_burst), min_n_cycles, i))",
    ],
    modifies=['is_burst'],
    result=_same_array_havoc('is_burst'),
    proof={('after_assign', 'transitions'): _after_transitions, ('loop_entry', 1): _loop_entry,
           ('before_return',): _before_return},
    ensures_using=['post'],
    loops={1: dict(index='q', using=['selected-bounds'], invariant=[
        "len(is_burst) == len(old(is_burst))",
        # cleared so far: exactly the positions inside one of the first q too-short runs
        "forall(j, 0 <= j < len(is_burst), is_burst[j] == (old(is_burst)[j] and "
        "not exists(p, 0 <= p and p < q and _zip0[p] <= j and j < _zip1[p])))",
    ])},
)


# ------------------------------------------------------------------------------------------------ recompute_edge(s) (C16)
from vf.values import XR, REAL  # noqa: E402
EDGE_COLS = {'volt_rise': XR, 'volt_decay': XR, 'period': INT, 'amp_fraction': XR, 'amp_consistency': XR,
             'period_consistency': XR, 'monotonicity': XR, 'is_burst': BOOL}


def _edge_result(E, env):
    f = env['df_features']
    f.cols = dict(f.cols)
    for c in ('amp_consistency', 'period_consistency'):
        f.cols[c] = E.new_arr(f.n, XR, kind='series', base='edge.' + c)
    return f


def _re_cases():
    out = []
    for centre, marker in (('peak', 'sample_peak'), ('trough', 'sample_trough')):
        pk = 'True' if centre == 'peak' else 'False'
        for d in ('both', 'next', 'last'):
            cols = dict(EDGE_COLS)
            cols[marker] = INT
            interior = "1 <= cyc_idx and cyc_idx < len(df_features) - 1"
            ens = ["result is df_features", "len(result) == len(old(df_features))",
                   # C16: the row gets the one-sided consistency values computed on its three-row window ...
                   "implies(%s, same(result['amp_consistency'][cyc_idx], amp_consistency_spec(old(df_features)['volt_rise'], "
                   "old(df_features)['volt_decay'], %s, '%s', cyc_idx)))" % (interior, pk, d),
                   "implies(%s, same(result['period_consistency'][cyc_idx], period_consistency_spec("
                   "old(df_features)['period'], '%s', cyc_idx)))" % (interior, d),
                   "implies(not (%s), isnan(result['amp_consistency'][cyc_idx]) and isnan(result['period_consistency'][cyc_idx]))" % interior,
                   # ... and nothing else changes
                   "forall(i, 0 <= i < len(result), i != cyc_idx, same(result['amp_consistency'][i], old(df_features)['amp_consistency'][i]) "
                   "and same(result['period_consistency'][i], old(df_features)['period_consistency'][i]))"]
            for c in cols:
                if c not in ('amp_consistency', 'period_consistency'):
                    ens.append("forall(i, 0 <= i < len(result), same(result['%s'][i], old(df_features)['%s'][i]))" % (c, c))
            ens.append("ncols(result) == %d" % len(cols))
            out.append(dict(label='%s-centred,%s' % (centre, d),
                            params={'df_features': ('frame', cols, 2), 'cyc_idx': INT, 'direction': ('const', d)},
                            ensures=ens))
    cols = dict(EDGE_COLS)
    cols['sample_peak'] = INT
    out.append(dict(label='other-direction', params={'df_features': ('frame', cols, 2), 'cyc_idx': INT, 'direction': 'str'},
                    requires=["direction != 'both' and direction != 'next' and direction != 'last'"],
                    raises={'ValueError': 'True'}))
    return out


contract(
    'bycycle.burst.utils.recompute_edge',
    cases=_re_cases(),
    requires=["len(df_features) >= 2", "0 <= cyc_idx and cyc_idx < len(df_features)",
              "forall(j, 0 <= j < len(df_features), df_features['period'][j] > 0)"],
    modifies=['df_features'],
    result=_edge_result,
)


def _edge_rows_proof(P):
    """which rows recompute_edges edits: the change points of is_burst alternate rising / falling (parity of the number of
    changes before a position, by induction over the positions, given that the first cycle is never a burst), the
    comprehension with `idx % 2 == 0` picks change points 0, 2, 4, ... and the one with `idx % 2 == 1` picks 1, 3, 5, ..."""
    import z3
    from .extrema import cmap_lemmas, _cmap_of
    from vf.engine import zbool, to_int
    E, env = P.E, P.env
    ib_arr, edges = env['is_burst'], env['burst_edges']
    n = ib_arr.n
    ib = lambda x: zbool(E.rd(ib_arr, x))
    AE = _cmap_of(E, edges)
    gE, cE, tE = edges.meta['g'], edges.meta['cnt'], edges.n
    cmap_lemmas(P, AE, gE, cE, tE, 'E')
    mE = AE['n']
    x, m, k, i = z3.Int('R_x'), z3.Int('R_m'), z3.Int('R_k'), z3.Int('R_i')
    P.ground('first-not-burst', z3.And(z3.Not(ib(0)), mE == n - 1), by=[AE['base']])
    P.induct_q('par', x, 0, mE, ib(x) == (cE(x) % 2 == 1), lambda it: [AE['rec'](it), P.inst('first-not-burst')])
    P.forall('edge-par', [m], z3.And(0 <= m, m < tE),
             z3.And(gE(m) >= 0, gE(m) + 1 < n, ib(gE(m)) == (m % 2 == 1), ib(gE(m) + 1) == (m % 2 == 0)),
             by=[P.inst('E:cag', m), P.inst('par', gE(m)), P.inst('par', gE(m) + 1), P.inst('first-not-burst')])
    # the two parity selections (the last two selection maps created: even positions, then odd positions)
    maps = list(E.st.ghost['cmap_inst'].items())[-2:]
    for tag, (key, A), par_ in (('even', maps[0], 0), ('odd', maps[1], 1)):
        t_, g_, c_ = E.st.ghost[key]
        cnt_formula = (lambda z_: (z_ + 1) / 2) if par_ == 0 else (lambda z_: z_ / 2)
        P.ground(tag + ':len', A['n'] == tE, by=[])
        P.induct_q(tag + ':cnt', i, 0, tE, c_(i) == cnt_formula(i), lambda it: [A['rec'](it), A['base'], P.inst(tag + ':len')])
        P.forall(tag + ':g', [k], z3.And(0 <= k, k < t_), z3.And(g_(k) == 2 * k + par_, g_(k) < tE),
                 by=[A['sel'](k), P.inst(tag + ':cnt', g_(k)), P.inst(tag + ':len'), A['base']])
    st, en = env['burst_starts'], env['burst_ends']
    P.forall('starts', [k], z3.And(0 <= k, k < st.n), z3.And(to_int(E.rd(st, k)) == gE(2 * k), 2 * k < tE), by=[P.inst('even:g', k)])
    P.forall('ends', [k], z3.And(0 <= k, k < en.n), z3.And(to_int(E.rd(en, k)) == gE(2 * k + 1) + 1, 2 * k + 1 < tE), by=[P.inst('odd:g', k)])
    P.forall('edge-rows', [k], z3.And(0 <= k, k < st.n, k < en.n),
             z3.And(z3.Not(ib(to_int(E.rd(st, k)))), ib(to_int(E.rd(st, k)) + 1), ib(to_int(E.rd(en, k)) - 1), z3.Not(ib(to_int(E.rd(en, k)))),
                    to_int(E.rd(st, k)) >= 0, to_int(E.rd(en, k)) < n, to_int(E.rd(st, k)) + 2 <= to_int(E.rd(en, k))),
             by=[P.inst('starts', k), P.inst('ends', k), P.inst('edge-par', 2 * k), P.inst('edge-par', 2 * k + 1),
                 AE['inc'](2 * k, 2 * k + 1)])


def _res_frame_like(E, env):
    from vf.values import Frame
    f = env['df_features']
    cols = {c: E.new_arr(f.n, a.ty, kind='series', base='rce.' + c) for c, a in f.cols.items()}
    return Frame(E.new_ident(), f.n, cols)


def _edited(centre):
    """... and after the iteration both rows carry the one-sided values (NaN for a row at the very end of the table)"""
    pk = 'True' if centre == 'peak' else 'False'
    out = []
    for row, d in (('start_idx', 'next'), ('end_idx', 'last')):
        interior = "1 <= %s and %s < len(df_features) - 1" % (row, row)
        out += [
            "implies(%s, same(df_features_edges['amp_consistency'][%s], amp_consistency_spec(df_features['volt_rise'], "
            "df_features['volt_decay'], %s, '%s', %s)))" % (interior, row, pk, d, row),
            "implies(%s, same(df_features_edges['period_consistency'][%s], period_consistency_spec(df_features['period'], '%s', %s)))"
            % (interior, row, d, row),
            "implies(not (%s), isnan(df_features_edges['amp_consistency'][%s]) and isnan(df_features_edges['period_consistency'][%s]))"
            % (interior, row, row)]
    return out


def _rces_cases():
    out = []
    TK = dict({t: 'real' for t in THRS}, min_n_cycles=INT)
    for centre, marker in (('peak', 'sample_peak'), ('trough', 'sample_trough')):
        cols = dict(EDGE_COLS)
        cols[marker] = INT
        thr = {t: "(value(threshold_kwargs, '%s') if present(threshold_kwargs, '%s') else %s)" % (t, t, dflt)
               for t, dflt in zip(THRS, ('0.', '.5', '.5', '.8'))}
        M = "(value(threshold_kwargs, 'min_n_cycles') if present(threshold_kwargs, 'min_n_cycles') else 3)"
        q = ("arrdef(j, len(result), 0 < j < len(result) - 1 and " +
             " and ".join("result['%s'][j] > %s" % (f, thr[t]) for f, t in zip(FEATS, THRS)) + ")")
        keep = [c for c in cols if c not in ('amp_consistency', 'period_consistency', 'is_burst')]
        inv = ["len(df_features_edges) == len(df_features)"] + \
              ["forall(i, 0 <= i < len(df_features), same(df_features_edges['%s'][i], df_features['%s'][i]))" % (c, c) for c in keep]
        out.append(dict(
            label='%s-centred' % centre,
            params={'df_features': ('frame', cols, 3), 'threshold_kwargs': ('dict', TK), 'burst_method': ('const', 'cycles'),
                    'burst_kwargs': 'none'},
            raises={'ValueError': " or ".join("%s < 0 or %s > 1" % (thr[t], thr[t]) for t in THRS) + " or %s < 0" % M},
            ensures=["result is not df_features", "len(result) == len(df_features)", "ncols(result) == %d" % len(cols)] +
                    # every column other than the two consistencies and the labels is the input's
                    ["forall(i, 0 <= i < len(result), same(result['%s'][i], df_features['%s'][i]))" % (c, c) for c in keep] +
                    # the new labels are the threshold-and-run rule applied to the edited table
                    ["forall(i, 0 <= i < len(result), result['is_burst'][i] == minrun(%s, %s, i))" % (q, M)],
            requires=["not df_features['is_burst'][0]"],
            proof={('after_assign', 'burst_ends'): _edge_rows_proof},
            # (the relabelling clause needs only what the detector's contract and the loop's exit invariant say)
            ensures_using={10: ['call:detect_bursts_cycles#1', 'loop1-exit']},
            loops={1: dict(index='k', invariant=inv, body_using=['edge-rows', 'loop1-inv', 'call:recompute_edge#1', 'call:recompute_edge#2'], body_ensures=[
                # C16, for an ARBITRARY burst (per-iteration postcondition): the two rows handed to recompute_edge are the
                # cycle immediately before the burst (not bursting, its successor bursting), recomputed looking forward,
                # and the cycle immediately after it (its predecessor bursting), recomputed looking backward
                "not is_burst[start_idx] and is_burst[start_idx + 1] and is_burst[end_idx - 1] and not is_burst[end_idx]",
                "0 <= start_idx and end_idx < len(df_features)"] + _edited(centre))}))
    return out


contract(
    'bycycle.burst.utils.recompute_edges',
    cases=_rces_cases(),
    requires=["len(df_features) >= 3", "forall(j, 0 <= j < len(df_features), df_features['period'][j] > 0)"],
    # C16 / C15: the input table and the thresholds dictionary are untouched
    modifies=[],
    result=_res_frame_like,
)
