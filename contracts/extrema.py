"""bycycle.cyclepoints.extrema.find_extrema — C02 (and the alternation contract its callers rely on, C01).

The contract that contracts/cyclepoints.py states for the callers (strict alternation, equal counts, inside the boundary)
is PROVED here from the code, relative to
  * the assumed contracts of the external filter (a real array of the input's length) and of numpy (pad, argmax, ...),
  * the meaning of the hypothesis predicate osc3 ("the band-passed signal contains at least three full oscillations
    inside the boundary"), given as a definitional clause over the zero-crossings of the filter output.
"""
import z3

from . import contract, CONTRACTS
from .cyclepoints import ALTERNATE_PEAK_FIRST, _two_int_arrays
from vf.values import BOOL, INT, REAL, STR, Z, Arr, fresh_name
from vf.spec import form
from vf.engine import Unsupported, zbool, lift, to_real, to_int
from vf.lib import term_int

Q = 'bycycle.cyclepoints.extrema.find_extrema'
FILT = "call_result('neurodsp.filt.filter_signal')"


def _crossings(E, F, rise):
    """the zero-crossing index array of find_flank_zerox, written independently: i with F[i] <= 0 < F[i+1] (rise) or
    F[i] > 0 >= F[i+1] (decay), in increasing order"""
    from vf.calls import nonzero_indices
    n = F.n if not isinstance(F.n, int) else z3.IntVal(F.n)
    src = E.st.heap[F.ident]
    off, st = F.off, F.stride
    at = lambda i: to_real(src(off + i * st))
    if rise:
        clo = lambda i: Z(z3.And(at(i) <= 0, at(i + 1) > 0), BOOL)
    else:
        clo = lambda i: Z(z3.And(at(i) > 0, at(i + 1) <= 0), BOOL)
    m = z3.simplify(z3.If(n >= 1, n - 1, z3.IntVal(0)))
    key = ('crossmask', F.ident, id(src), rise)
    mask = E.st.ghost.get(key)
    if mask is None:
        mask = E.new_arr(m, BOOL, clo)
        E.st.ghost[key] = mask
    return nonzero_indices(E, mask, None)


@form('rises')
def f_rises(E, node):
    return _crossings(E, E.eval(node.args[0]), True)


@form('decays')
def f_decays(E, node):
    return _crossings(E, E.eval(node.args[0]), False)


def first_gt_fn(E, a):
    """for an integer array a: fg(v) = the least index whose entry exceeds v (len(a) if none); a definitional extension:
    0 <= fg(v) <= n, entries before fg(v) are <= v, the entry at fg(v) (if any) is > v"""
    key = ('first_gt', a.ident, id(E.st.heap[a.ident]), str(a.off), str(a.n))
    hit = E.st.ghost.get(key)
    if hit is not None:
        return hit
    fg = z3.Function(fresh_name('first_gt'), z3.IntSort(), z3.IntSort())
    n = a.n if not isinstance(a.n, int) else z3.IntVal(a.n)
    v = z3.Int(fresh_name('v'))
    i = z3.Int(fresh_name('i'))
    at = lambda t: to_int(E.rd(a, t))
    ax = [z3.ForAll([v], z3.And(fg(v) >= 0, fg(v) <= n, z3.Implies(fg(v) < n, at(fg(v)) > v)), patterns=[fg(v)]),
          z3.ForAll([v, i], z3.Implies(z3.And(i >= 0, i < fg(v)), at(i) <= v), patterns=[z3.MultiPattern(fg(v), at(i))])]
    for t in ax:
        E.assumptions_quant(t)
    inst = dict(fn=fg, n=n, at=at,
                rng=lambda x: z3.And(fg(x) >= 0, fg(x) <= n, z3.Implies(fg(x) < n, at(fg(x)) > x)),
                below=lambda x, j: z3.Implies(z3.And(j >= 0, j < fg(x)), at(j) <= x))
    E.st.ghost[key] = inst
    return inst


@form('first_gt')
def f_first_gt(E, node):
    a = E.eval(node.args[0])
    v = term_int(E.eval(node.args[1]))
    return Z(first_gt_fn(E, a)['fn'](v), INT)


@form('pad_amount')
def f_pad_amount(E, node):
    """the number of zeros find_extrema puts in front of the signal: ceil(filter length / 2) when it pads (the filter
    length being what neurodsp's compute_filter_length returned), else 0"""
    for q, bound, res in reversed(E.st.calls):
        if q == 'neurodsp.filt.fir.compute_filter_length':
            fl = to_real(res)
            return Z(-z3.ToInt(-(fl / 2)), INT)
    return Z(z3.IntVal(0), INT)


@form('padded')
def f_padded(E, node):
    """padded(sig, h, j): entry j of the signal with h zeros in front and behind"""
    sig = E.eval(node.args[0])
    h = term_int(E.eval(node.args[1]))
    j = term_int(E.eval(node.args[2]))
    n = sig.n if not isinstance(sig.n, int) else z3.IntVal(sig.n)
    return Z(z3.If(z3.And(j >= h, j < h + n), to_real(E.rd(sig, j - h)), z3.RealVal(0)), REAL)


@form('witness')
def f_witness(E, node):
    """witness('name'): a constant whose existence the surrounding (assumed, definitional) clause asserts"""
    name = E.eval(node.args[0])
    return Z(z3.Int('witness.' + name), INT)


@form('count_before')
def f_count_before(E, node):
    """count_before(xs, v): for an index array xs obtained from a boolean mask (nonzero): the number of its entries below v
    (the counting function of the selection map; equivalently the position of the first entry >= v)"""
    a = E.eval(node.args[0])
    v = term_int(E.eval(node.args[1]))
    meta = getattr(a, 'meta', None) or {}
    if 'cnt' not in meta:
        raise Unsupported('count_before of an array that is not a nonzero() result')
    return Z(meta['cnt'](v), INT)


# ---------------------------------------------------------------------------------------------------------------------
# proof library: facts about a selection map (g, cnt) of a boolean mask of length m with t selected positions
def _cmap_of(E, arr):
    mask = arr.meta['nonzero_of']
    key = [kk for kk in E.st.ghost.get('cmap_inst', {}) if E.st.ghost[kk][1].eq(arr.meta['g'])][0]
    return E.st.ghost['cmap_inst'][key]


def cmap_lemmas(P, AX, g, cnt, t, tag):
    m = AX['n']
    x, i0, j, k, i = [z3.Int('%s_%s' % (tag, nm)) for nm in ('x', 'i0', 'j', 'k', 'i')]
    P.induct_q(tag + ':mono', j, i0, m, cnt(i0) <= cnt(j), lambda it: [AX['rec'](it)], params=[i0], prem=(0 <= i0))
    P.forall(tag + ':cag', [k], z3.And(0 <= k, k < t),
             z3.And(g(k) >= 0, g(k) < m, AX['mask'](g(k)), cnt(g(k)) == k, cnt(g(k) + 1) == k + 1),
             by=[AX['sel'](k), AX['rec'](g(k))])
    P.forall(tag + ':cle', [i], z3.And(0 <= i, i <= m), z3.And(0 <= cnt(i), cnt(i) <= t),
             by=[P.inst(tag + ':mono', 0, i), P.inst(tag + ':mono', i, m), AX['base']])
    P.forall(tag + ':lt', [k, i], z3.And(0 <= k, k < t, 0 <= i, i <= m, g(k) < i), k < cnt(i),
             by=[P.inst(tag + ':cag', k), P.inst(tag + ':mono', g(k) + 1, i)])
    P.forall(tag + ':below', [k, i], z3.And(0 <= k, k < t, 0 <= i, i <= m, k < cnt(i)), g(k) < i,
             by=[P.inst(tag + ':cag', k), P.inst(tag + ':mono', i, g(k))])
    P.forall(tag + ':hit', [i], z3.And(0 <= i, i < m, AX['mask'](i)),
             z3.And(g(cnt(i)) == i, cnt(i) < t, cnt(i) >= 0, cnt(i + 1) == cnt(i) + 1),
             by=[AX['hit'](i), AX['rec'](i)])


def _after_crossings(P):
    E = P.E
    env = P.env
    R, D, F = env['rise_xs'], env['decay_xs'], env['sig_filt']
    if not (isinstance(R, Arr) and isinstance(D, Arr)):
        raise Unsupported('zero-crossing arrays are not index arrays on this path')
    AR, AD = _cmap_of(E, R), _cmap_of(E, D)
    gR, cR, gD, cD = R.meta['g'], R.meta['cnt'], D.meta['g'], D.meta['cnt']
    tR, tD = R.n, D.n
    m = AR['n']
    P.ground('same-mask-length', AR['n'] == AD['n'], by=[])
    cmap_lemmas(P, AR, gR, cR, tR, 'R')
    cmap_lemmas(P, AD, gD, cD, tD, 'D')
    Fat = lambda i: to_real(E.rd(F, i))
    q, mm = z3.Int('L_q'), z3.Int('L_m')
    # L1: between two consecutive rise crossings the signal comes back down: a decay crossing lies strictly between them
    c0 = cD(gR(q) + 1)
    prem1 = z3.And(0 <= q, q + 1 < tR, P.inst('R:cag', q), P.inst('R:cag', q + 1), AR['inc'](q, q + 1))
    P.induct_q('L1:ind', mm, gR(q) + 1, gR(q + 1), z3.And(cD(mm) >= c0, z3.Or(Fat(mm) > 0, cD(mm) > c0)),
               lambda it: [AD['rec'](it)], params=[q], prem=prem1)
    P.forall('L1', [q], z3.And(0 <= q, q + 1 < tR),
             z3.And(c0 >= 0, c0 < tD, gR(q) < gD(c0), gD(c0) < gR(q + 1), cD(gR(q + 1)) > c0, cD(gR(q + 1) + 1) == cD(gR(q + 1))),
             by=[P.inst('R:cag', q), P.inst('R:cag', q + 1), AR['inc'](q, q + 1), P.inst('L1:ind', q, gR(q + 1)),
                 P.inst('D:cle', gR(q) + 1), P.inst('D:cle', gR(q + 1)), AD['rec'](gR(q + 1)),
                 P.inst('D:cag', c0), P.inst('D:lt', c0, gR(q) + 1), P.inst('D:below', c0, gR(q + 1)),
                 P.inst('D:mono', gR(q) + 1, gR(q + 1))])
    # L2: and between two consecutive decay crossings a rise crossing
    d0 = cR(gD(q) + 1)
    prem2 = z3.And(0 <= q, q + 1 < tD, P.inst('D:cag', q), P.inst('D:cag', q + 1), AD['inc'](q, q + 1))
    P.induct_q('L2:ind', mm, gD(q) + 1, gD(q + 1), z3.And(cR(mm) >= d0, z3.Or(Fat(mm) <= 0, cR(mm) > d0)),
               lambda it: [AR['rec'](it)], params=[q], prem=prem2)
    P.forall('L2', [q], z3.And(0 <= q, q + 1 < tD),
             z3.And(d0 >= 0, d0 < tR, gD(q) < gR(d0), gR(d0) < gD(q + 1), cR(gD(q + 1)) > d0, cR(gD(q + 1) + 1) == cR(gD(q + 1))),
             by=[P.inst('D:cag', q), P.inst('D:cag', q + 1), AD['inc'](q, q + 1), P.inst('L2:ind', q, gD(q + 1)),
                 P.inst('R:cle', gD(q) + 1), P.inst('R:cle', gD(q + 1)), AR['rec'](gD(q + 1)),
                 P.inst('R:cag', d0), P.inst('R:lt', d0, gD(q) + 1), P.inst('R:below', d0, gD(q + 1)),
                 P.inst('R:mono', gD(q) + 1, gD(q + 1))])


def _maps(P):
    E, env = P.E, P.env
    R, D, F = env['rise_xs'], env['decay_xs'], env['sig_filt']
    return dict(E=E, env=env, R=R, D=D, F=F, AR=_cmap_of(E, R), AD=_cmap_of(E, D), gR=R.meta['g'], cR=R.meta['cnt'],
                gD=D.meta['g'], cD=D.meta['cnt'], tR=R.n, tD=D.n)


def _after_counts(P):
    """every rise that gets a peak has a later decay crossing, every decay that gets a trough a later rise crossing"""
    M = _maps(P)
    gR, cR, gD, cD, tR, tD, AR, AD = M['gR'], M['cR'], M['gD'], M['cD'], M['tR'], M['tD'], M['AR'], M['AD']
    nP, nT = term_int(M['env']['n_peaks']), term_int(M['env']['n_troughs'])
    q = z3.Int('LD_q')
    P.forall('LD', [q], z3.And(0 <= q, q < nP), z3.And(cD(gR(q) + 1) < tD, cD(gR(q) + 1) >= 0),
             by=[P.inst('L1', q), P.inst('R:cag', q), P.inst('R:cag', tR - 1), P.inst('D:cag', tD - 1), AR['inc'](q, tR - 1),
                 P.inst('D:below', tD - 1, gR(q) + 1), P.inst('D:cle', gR(q) + 1)])
    _structure(P)
    P.forall('LR', [q], z3.And(0 <= q, q < nT), z3.And(cR(gD(q) + 1) < tR, cR(gD(q) + 1) >= 0),
             by=[P.inst('L2', q), P.inst('D:cag', q), P.inst('D:cag', tD - 1), P.inst('R:cag', tR - 1), AD['inc'](q, tD - 1),
                 P.inst('R:below', tR - 1, gD(q) + 1), P.inst('R:cle', gD(q) + 1)])


def _structure(P):
    """the two crossing sequences strictly alternate: exactly one decay between consecutive rises and vice versa, so the
    first decay after rise q is decay number q + c with c in {0, 1} fixed by which kind of crossing comes first"""
    M = _maps(P)
    gR, cR, gD, cD, tR, tD, AR, AD = M['gR'], M['cR'], M['gD'], M['cD'], M['tR'], M['tD'], M['AR'], M['AD']
    q = z3.Int('S_q')
    c0 = cD(gR(q) + 1)
    d0 = cR(gD(c0) + 1)
    P.forall('E1', [q], z3.And(0 <= q, q + 1 < tR), cD(gR(q + 1) + 1) == c0 + 1,
             by=[P.inst('L1', q), P.inst('D:cle', gR(q + 1)), P.inst('D:below', c0 + 1, gR(q + 1)), P.inst('L2', c0),
                 AR['inc'](d0, q), AR['inc'](q + 1, d0), P.inst('R:cag', q), P.inst('R:cag', q + 1), P.inst('D:cag', c0 + 1),
                 P.inst('R:cag', d0)])
    e0 = cR(gD(q) + 1)
    f0 = cD(gR(e0) + 1)
    P.forall('E2', [q], z3.And(0 <= q, q + 1 < tD), cR(gD(q + 1) + 1) == e0 + 1,
             by=[P.inst('L2', q), P.inst('R:cle', gD(q + 1)), P.inst('R:below', e0 + 1, gD(q + 1)), P.inst('L1', e0),
                 AD['inc'](f0, q), AD['inc'](q + 1, f0), P.inst('D:cag', q), P.inst('D:cag', q + 1), P.inst('R:cag', e0 + 1),
                 P.inst('D:cag', f0)])
    c = cD(gR(0) + 1)
    cp = cR(gD(0) + 1)
    P.induct_q('S1', q, 0, tR - 1, cD(gR(q) + 1) == c + q, lambda it: [P.inst('E1', it)])
    P.induct_q('S2', q, 0, tD - 1, cR(gD(q) + 1) == cp + q, lambda it: [P.inst('E2', it)])
    P.ground('first-kind', z3.And(c >= 0, cp >= 0, c + cp == 1),
             by=[P.inst('R:cag', 0), P.inst('D:cag', 0), P.inst('D:cle', gR(0) + 1), P.inst('R:cle', gD(0) + 1),
                 P.inst('D:below', 0, gR(0) + 1), P.inst('R:lt', 0, gD(0) + 1), P.inst('R:below', 1, gD(0) + 1),
                 P.inst('R:cag', 1), P.inst('L1', 0),
                 P.inst('R:below', 0, gD(0) + 1), P.inst('D:lt', 0, gR(0) + 1), P.inst('D:below', 1, gR(0) + 1),
                 P.inst('D:cag', 1), P.inst('L2', 0)])


def _after_store(kind):
    """after  peaks[p_idx] = np.argmax(sig[last_rise:next_decay]) + last_rise : the stored position is the FIRST maximum of
    the (padded) raw signal over the half-wave window [last_rise, next_decay) - re-indexed from the slice to the signal"""
    def h(P):
        node = P.node
        if not (isinstance(node, _ast.Assign) and isinstance(node.targets[0], _ast.Subscript)):
            return
        E, env = P.E, P.env
        ax = E.st.ghost['argext'][-1]
        lo = term_int(env['last_rise' if kind == 'peak' else 'last_decay'])
        hi = term_int(env['next_decay' if kind == 'peak' else 'next_rise'])
        S = env['sig']
        at = lambda x: to_real(E.rd(S, x))
        r, n = ax['r'], ax['n']
        pos = lo + r
        j = z3.Int('A_j')
        inst_all = z3.Implies(z3.And(j - lo >= 0, j - lo < n), ax['ge'](ax['at'](r), ax['at'](j - lo)))
        inst_first = z3.Implies(z3.And(j - lo >= 0, j - lo < r), ax['gt'](ax['at'](r), ax['at'](j - lo)))
        ge, gt = ax['ge'], ax['gt']
        P.forall('window-extreme:' + kind, [j], z3.And(lo <= j, j < hi), ge(at(pos), at(j)), by=[inst_all, P.inst('scan-result:' + kind)])
        P.forall('window-first:' + kind, [j], z3.And(lo <= j, j < pos), gt(at(pos), at(j)), by=[inst_first, P.inst('scan-result:' + kind)])
    return h


def _stash_start(name):
    def h(P):
        a = P.env[name]
        P.E.st.ghost['scan_start'] = a.off if not isinstance(a.off, int) else z3.IntVal(a.off)
    return h


def _after_scan(kind):
    """after the inner scan for the next crossing of the other kind: the scanned view now starts exactly at the first such
    crossing after the current one (position = count_before), which exists and lies beyond it"""
    def h(P):
        M = _maps(P)
        env = M['env']
        if kind == 'peak':
            g1, c1, t1, A1, g2, c2, t2, A2, pre1, pre2, later, view, idx = (M['gR'], M['cR'], M['tR'], M['AR'], M['gD'], M['cD'],
                                                                          M['tD'], M['AD'], 'R', 'D', 'LD', '_decay_xs', 'p_idx')
        else:
            g1, c1, t1, A1, g2, c2, t2, A2, pre1, pre2, later, view, idx = (M['gD'], M['cD'], M['tD'], M['AD'], M['gR'], M['cR'],
                                                                          M['tR'], M['AR'], 'D', 'R', 'LR', '_rise_xs', 't_idx')
        p = term_int(env[idx])
        v = g1(p)
        c = c2(v + 1)
        s = P.E.st.ghost['scan_start']
        a = env[view]
        new_start = a.off if not isinstance(a.off, int) else z3.IntVal(a.off)
        inner = 2 if kind == 'peak' else 4
        by = [P.inst(later, p), P.inst(pre2 + ':cle', v + 1), P.inst(pre1 + ':cag', p), P.inst(pre1 + ':cag', p - 1),
              A1['inc'](p - 1, p), P.inst(pre2 + ':mono', g1(p - 1) + 1, v + 1), P.inst(pre2 + ':lt', c, v + 1),
              P.instq('loop%d-inv' % inner, 0, c - s), P.inst(pre2 + ':below', new_start, v + 1), P.inst(pre2 + ':cag', c)]
        P.ground('scan-result:' + kind, z3.And(new_start == c, c >= 0, c < t2, g2(c) > v, g2(c) < A2['n'], v >= 0), by=by)
    return h


import ast as _ast


def _is_shift(node):
    return isinstance(node, _ast.Assign) and isinstance(node.value, _ast.BinOp) and isinstance(node.value.op, _ast.Sub)


def _is_filter(node):
    return isinstance(node, _ast.Assign) and isinstance(node.value, _ast.Subscript) and isinstance(node.value.slice, _ast.Call)


def _is_trim(node):
    return isinstance(node, _ast.Assign) and isinstance(node.value, _ast.IfExp)


def _before_peaks(P):
    if _is_shift(P.node):
        P.E.st.ghost['raw_extrema'] = (P.env['peaks'], P.env['troughs'])
    elif _is_trim(P.node):
        _before_trim_peaks(P)


def _chains(P):
    """after the two scanning loops: the located extrema strictly alternate in time, peak q is followed by trough q + c"""
    M = _maps(P)
    E, env = M['E'], M['env']
    gR, cR, gD, cD, tR, tD, AR, AD = M['gR'], M['cR'], M['gD'], M['cD'], M['tR'], M['tD'], M['AR'], M['AD']
    rawP, rawT = E.st.ghost['raw_extrema']
    Pa = lambda i: to_int(E.rd(rawP, i))
    Ta = lambda i: to_int(E.rd(rawT, i))
    nP, nT = term_int(env['n_peaks']), term_int(env['n_troughs'])
    c = cD(gR(0) + 1)
    cp = cR(gD(0) + 1)
    q, i0, j = z3.Int('C_q'), z3.Int('C_i'), z3.Int('C_j')
    FK = P.inst('first-kind')
    P.forall('Pwin', [q], z3.And(0 <= q, q < nP), z3.And(gR(q) <= Pa(q), Pa(q) < gD(c + q), q < tR),
             by=[P.instq('loop1-exit', 3, q), P.inst('S1', q)])
    P.forall('Twin', [q], z3.And(0 <= q, q < nT), z3.And(gD(q) <= Ta(q), Ta(q) < gR(cp + q), q < tD),
             by=[P.instq('loop3-exit', 3, q), P.inst('S2', q)])
    # how many of each: the trough after peak q is trough q + c, and there are nP or nP - 1 of those
    P.ground('counts', z3.And(nT - c >= nP - 1, nT - c <= nP, nP <= tR, nT <= tD, nP >= 1, nT >= 0),
             by=[FK, P.inst('S1', tR - 1), P.inst('S2', tD - 1), P.inst('R:cag', tR - 1), P.inst('D:cag', tD - 1),
                 P.inst('D:lt', tD - 1, gR(tR - 1) + 1), P.inst('R:lt', tR - 1, gD(tD - 1) + 1),
                 P.inst('D:cle', gR(tR - 1) + 1), P.inst('R:cle', gD(tD - 1) + 1)])
    CN = P.inst('counts')
    P.forall('chainA', [q], z3.And(0 <= q, q < nP, q + c < nT), Pa(q) < Ta(q + c),
             by=[P.inst('Pwin', q), P.inst('Twin', q + c), FK, CN])
    P.forall('chainB', [q], z3.And(0 <= q, q < nT, q - c + 1 < nP), Ta(q) < Pa(q - c + 1),
             by=[P.inst('Twin', q), P.inst('Pwin', q - c + 1), FK, CN])
    P.forall('Pstep', [q], z3.And(0 <= q, q + 1 < nP), Pa(q) < Pa(q + 1),
             by=[P.inst('Pwin', q), P.inst('Pwin', q + 1), P.inst('L1', q), P.inst('S1', q), FK, CN])
    P.forall('Tstep', [q], z3.And(0 <= q, q + 1 < nT), Ta(q) < Ta(q + 1),
             by=[P.inst('Twin', q), P.inst('Twin', q + 1), P.inst('L2', q), P.inst('S2', q), FK, CN])
    P.induct_q('Pmono', j, i0, nP - 1, Pa(i0) <= Pa(j), lambda it: [P.inst('Pstep', it)], params=[i0], prem=(0 <= i0))
    P.induct_q('Tmono', j, i0, nT - 1, Ta(i0) <= Ta(j), lambda it: [P.inst('Tstep', it)], params=[i0], prem=(0 <= i0))
    E.st.ghost['chain_ctx'] = dict(Pa=Pa, Ta=Ta, nP=nP, nT=nT, c=c, cp=cp)


def _after_troughs(P):
    if _is_shift(P.node):
        _chains(P)
    elif _is_filter(P.node):
        _after_filter(P)


def _after_troughs2(P):
    _after_store('trough')(P)
    _after_troughs(P)


def _after_filter(P):
    """the boundary filter keeps a contiguous block of each (sorted) sequence; the two blocks are aligned up to one
    element at either end; the three half-waves that osc3 places inside the boundary make the blocks long enough"""
    M = _maps(P)
    E, env = M['E'], M['env']
    gR, cD, tR, tD = M['gR'], M['cD'], M['tR'], M['tD']
    gD = M['gD']
    X = E.st.ghost['chain_ctx']
    Pa, Ta, nP, nT, c = X['Pa'], X['Ta'], X['nP'], X['nT'], X['c']
    pk3, tr3 = env['peaks'], env['troughs']
    AP, AT = _cmap_of_compress(E, pk3), _cmap_of_compress(E, tr3)
    gP, cP, gT, cT = pk3.meta['compress_of'][2], pk3.meta['compress_of'][3], tr3.meta['compress_of'][2], tr3.meta['compress_of'][3]
    kP, kT = pk3.n, tr3.n
    cmap_lemmas(P, AP, gP, cP, kP, 'FP')
    cmap_lemmas(P, AT, gT, cT, kT, 'FT')
    P.ground('filter-lengths', z3.And(AP['n'] == nP, AT['n'] == nT), by=[])
    k, i = z3.Int('F_k'), z3.Int('F_i')
    FK, CN = P.inst('first-kind'), P.inst('counts')
    h = term_int(E.spec_eval(H, dict(env)))
    b = term_int(env['boundary'])
    L = term_int(env['sig_len'])
    a = z3.Int('witness.a')
    inb = lambda x: z3.And(x - h > b, x - h < L - b)
    P.forall('maskP', [i], z3.And(0 <= i, i < nP), AP['mask'](i) == inb(Pa(i)), by=[])
    P.forall('maskT', [i], z3.And(0 <= i, i < nT), AT['mask'](i) == inb(Ta(i)), by=[])
    # contiguity
    P.forall('FP:step', [k], z3.And(0 <= k, k + 1 < kP), gP(k + 1) == gP(k) + 1,
             by=[P.inst('FP:cag', k), P.inst('FP:cag', k + 1), AP['inc'](k, k + 1), P.inst('Pstep', gP(k)),
                 P.inst('Pmono', gP(k) + 1, gP(k + 1)), P.inst('maskP', gP(k)), P.inst('maskP', gP(k) + 1),
                 P.inst('maskP', gP(k + 1)), P.inst('FP:hit', gP(k) + 1)])
    P.forall('FT:step', [k], z3.And(0 <= k, k + 1 < kT), gT(k + 1) == gT(k) + 1,
             by=[P.inst('FT:cag', k), P.inst('FT:cag', k + 1), AT['inc'](k, k + 1), P.inst('Tstep', gT(k)),
                 P.inst('Tmono', gT(k) + 1, gT(k + 1)), P.inst('maskT', gT(k)), P.inst('maskT', gT(k) + 1),
                 P.inst('maskT', gT(k + 1)), P.inst('FT:hit', gT(k) + 1)])
    P.induct_q('FP:lin', k, 0, kP - 1, gP(k) == gP(0) + k, lambda it: [P.inst('FP:step', it)])
    P.induct_q('FT:lin', k, 0, kT - 1, gT(k) == gT(0) + k, lambda it: [P.inst('FT:step', it)])
    uP, uT = gP(0), gT(0)
    P.forall('FP:out', [i], z3.And(0 <= i, i < nP, AP['mask'](i)), z3.And(uP <= i, i < uP + kP, kP >= 1),
             by=[P.inst('FP:hit', i), P.inst('FP:lin', cP(i))])
    P.forall('FT:out', [i], z3.And(0 <= i, i < nT, AT['mask'](i)), z3.And(uT <= i, i < uT + kT, kT >= 1),
             by=[P.inst('FT:hit', i), P.inst('FT:lin', cT(i))])
    # the three half-waves of osc3
    W3 = [P.inst('R:cag', a), P.inst('R:cag', a + 1), P.inst('R:cag', a + 2), M['AR']['inc'](a, a + 1), M['AR']['inc'](a + 1, a + 2),
          M['AR']['inc'](a, a + 2), P.inst('D:lt', tD - 1, gR(tR - 1) + 1), P.inst('D:cag', tD - 1), P.inst('R:cag', tR - 1),
          P.inst('D:cle', gR(tR - 1) + 1), P.inst('S1', a + 2)]
    P.ground('W-peaks', z3.And(a >= 0, a + 2 < nP, AP['mask'](a), AP['mask'](a + 1), AP['mask'](a + 2)),
             by=W3 + [CN, FK, P.inst('Pwin', a), P.inst('Pwin', a + 1), P.inst('Pwin', a + 2), P.inst('Pstep', a), P.inst('Pstep', a + 1),
                      P.inst('maskP', a), P.inst('maskP', a + 1), P.inst('maskP', a + 2)])
    P.ground('W-troughs', z3.And(a + 1 + c < nT, AT['mask'](a + c), AT['mask'](a + 1 + c)),
             by=[P.inst('W-peaks'), CN, FK, P.inst('chainA', a), P.inst('chainB', a + c), P.inst('chainA', a + 1),
                 P.inst('chainB', a + 1 + c), P.inst('maskP', a), P.inst('maskP', a + 1), P.inst('maskP', a + 2),
                 P.inst('maskT', a + c), P.inst('maskT', a + 1 + c)])
    P.ground('enough', z3.And(kP >= 3, kT >= 2),
             by=[P.inst('W-peaks'), P.inst('W-troughs'), FK, P.inst('FP:hit', a), P.inst('FP:hit', a + 1), P.inst('FP:hit', a + 2),
                 P.inst('FT:hit', a + c), P.inst('FT:hit', a + 1 + c)])
    EN = P.inst('enough')
    vP, vT = uP + kP, uT + kT
    lin = [P.inst('FP:lin', 1), P.inst('FP:lin', kP - 1), P.inst('FP:lin', kP - 2), P.inst('FT:lin', kT - 1),
           P.inst('FP:cag', 0), P.inst('FP:cag', 1), P.inst('FP:cag', kP - 1), P.inst('FP:cag', kP - 2), P.inst('FT:cag', 0),
           P.inst('FT:cag', kT - 1)]
    # start of the trough block: trough uP - 1 + c or uP + c
    P.ground('align-start', z3.And(uT - c >= uP - 1, uT - c <= uP),
             by=lin + [EN, FK, CN, P.inst('chainA', uP), P.inst('chainB', uP + c), P.inst('maskP', uP), P.inst('maskP', uP + 1),
                       P.inst('maskT', uP + c), P.inst('FT:out', uP + c),
                       P.inst('chainB', uT), P.inst('Pmono', uT - c + 1, uP - 1), P.inst('FP:out', uP - 1), P.inst('maskP', uP - 1),
                       P.inst('Pstep', uP - 1), P.inst('maskT', uT)])
    P.ground('align-end', z3.And(vT - c >= vP - 1, vT - c <= vP),
             by=lin + [EN, FK, CN, P.inst('chainA', vP - 2), P.inst('chainB', vP - 2 + c), P.inst('maskP', vP - 2), P.inst('maskP', vP - 1),
                       P.inst('maskT', vP - 2 + c), P.inst('FT:out', vP - 2 + c),
                       P.inst('chainA', vT - 1 - c), P.inst('Pmono', vP, vT - 1 - c), P.inst('FP:out', vP), P.inst('maskP', vP),
                       P.inst('Pstep', vP - 1), P.inst('maskT', vT - 1)])
    E.st.ghost['filter_ctx'] = dict(pk3=pk3, tr3=tr3, gP=gP, gT=gT, kP=kP, kT=kT, uP=uP, uT=uT, inb=inb, h=h, b=b, L=L)


def _cmap_of_compress(E, arr):
    g = arr.meta['compress_of'][2]
    key = [kk for kk in E.st.ghost.get('cmap_inst', {}) if E.st.ghost[kk][1].eq(g)][0]
    return E.st.ghost['cmap_inst'][key]


def _before_trim_peaks(P):
    pass


def _before_return(P):
    """the trimming for first_extrema='peak' drops the leading trough / the trailing peak exactly when the block starts
    with a trough / ends with a peak: what remains starts with a peak, alternates strictly and has equal counts"""
    if 'filter_ctx' not in P.E.st.ghost or 'rise_xs' not in P.env:
        return                                      # (a return inside an inlined helper)
    M = _maps(P)
    E, env = M['E'], M['env']
    X, Y = E.st.ghost['chain_ctx'], E.st.ghost['filter_ctx']
    Pa, Ta, nP, nT, c = X['Pa'], X['Ta'], X['nP'], X['nT'], X['c']
    pk3, tr3, gP, gT, kP, kT, uP, uT, inb, h = (Y[k] for k in ('pk3', 'tr3', 'gP', 'gT', 'kP', 'kT', 'uP', 'uT', 'inb', 'h'))
    res0, res1 = env['peaks'], env['troughs']
    if not (res0.ident == pk3.ident and res1.ident == tr3.ident):
        raise Unsupported('the returned arrays are not views of the boundary-filtered ones')
    t = lambda x: x if not isinstance(x, int) else z3.IntVal(x)
    first = env['first_extrema']
    dP = z3.simplify(t(res0.off) - t(pk3.off))            # elements dropped in front by the trimming
    dT = z3.simplify(t(res1.off) - t(tr3.off))
    delta = dT
    n0, n1 = t(res0.n), t(res1.n)
    vP, vT = uP + kP, uT + kT
    FK, CN, EN = P.inst('first-kind'), P.inst('counts'), P.inst('enough')
    lin = [P.inst('FP:lin', 1), P.inst('FP:lin', kP - 1), P.inst('FP:lin', kP - 2), P.inst('FT:lin', kT - 1), P.inst('FT:lin', 1),
           P.inst('FP:cag', 0), P.inst('FP:cag', 1), P.inst('FP:cag', kP - 1), P.inst('FP:cag', kP - 2), P.inst('FT:cag', 0),
           P.inst('FT:cag', kT - 1), P.inst('FT:cag', 1)]
    i = z3.Int('Z_i')
    r0 = lambda x: to_int(E.rd(res0, x))
    r1 = lambda x: to_int(E.rd(res1, x))
    b, L = Y['b'], Y['L']
    if first == 'peak':
        P.ground('trim-start', z3.And(uT + dT == uP + c, dT >= 0, dT <= 1, dP == 0),
                 by=lin + [EN, FK, CN, P.inst('align-start'), P.inst('chainA', uP), P.inst('chainB', uP - 1 + c)])
        P.ground('trim-end', z3.And(n0 == n1, n0 >= 2, n1 == kT - dT, n0 <= kP, n0 >= kP - 1),
                 by=lin + [EN, FK, CN, P.inst('trim-start'), P.inst('align-end'), P.inst('chainA', vP - 1), P.inst('chainB', vP - 2 + c)])
    elif first == 'trough':
        P.ground('trim-start', z3.And(uP + dP == uT - c + 1, dP >= 0, dP <= 1, dT == 0),
                 by=lin + [EN, FK, CN, P.inst('align-start'), P.inst('chainA', uP), P.inst('chainB', uP - 1 + c)])
        P.ground('trim-end', z3.And(n0 == n1, n0 >= 2, n0 == kP - dP, n1 <= kT, n1 >= kT - 1),
                 by=lin + [EN, FK, CN, P.inst('trim-start'), P.inst('align-end'), P.inst('chainA', vP - 1), P.inst('chainB', vP - 2 + c)])
    else:
        P.ground('trim-start', z3.And(dP == 0, dT == 0), by=[])
        P.ground('trim-end', z3.And(n0 == kP, n1 == kT, n0 >= 3, n1 >= 2), by=[EN])
    TS, TE = P.inst('trim-start'), P.inst('trim-end')
    common = lambda x: [TS, TE, EN, FK, CN, P.inst('FP:lin', x + dP), P.inst('FT:lin', x + dT), P.inst('FP:cag', x + dP),
                        P.inst('FT:cag', x + dT), P.inst('FP:lin', x + 1 + dP), P.inst('FP:cag', x + 1 + dP),
                        P.inst('FT:lin', x + 1 + dT), P.inst('FT:cag', x + 1 + dT)]
    if first == 'peak':
        P.forall('final:peak-before-trough', [i], z3.And(0 <= i, i < n0), r0(i) < r1(i),
                 by=common(i) + [P.inst('chainA', uP + i)])
        P.forall('final:trough-before-next-peak', [i], z3.And(0 <= i, i < n0 - 1), r1(i) < r0(i + 1),
                 by=common(i) + [P.inst('chainB', uP + i + c)])
    elif first == 'trough':
        P.forall('final:trough-before-peak', [i], z3.And(0 <= i, i < n0), r1(i) < r0(i),
                 by=common(i) + [P.inst('chainB', uT + i)])
        P.forall('final:peak-before-next-trough', [i], z3.And(0 <= i, i < n0 - 1), r0(i) < r1(i + 1),
                 by=common(i) + [P.inst('chainA', uT + i - c + 1)])
    P.forall('final:inside', [i], z3.And(0 <= i, i < n0), z3.And(b < r0(i), r0(i) < L - b),
             by=common(i) + [P.inst('maskP', gP(i + dP))])
    P.forall('final:inside-troughs', [i], z3.And(0 <= i, i < n1), z3.And(b < r1(i), r1(i) < L - b),
             by=common(i) + [P.inst('maskT', gT(i + dT))])
    pa = term_int(E.spec_eval("pad_amount()", dict(env)))
    P.ground('pad-amount', pa == h, by=[])
    # ---- C02: which half-wave each reported extremum belongs to, and that it is the first extreme value of its window
    gR, cR, gD, cD, tR, tD, AR, AD = M['gR'], M['cR'], M['gD'], M['cD'], M['tR'], M['tD'], M['AR'], M['AD']
    cp = X['cp']
    S = env['sig']                                   # the padded raw signal (a local of the function)
    at = lambda x: to_real(E.rd(S, x))
    j = z3.Int('Z_j')
    for kind in ('peak', 'trough'):
        if kind == 'peak':
            g1, c1, t1, pre1, g2, c2, t2, pre2, Xa, nX, off, win, step, S12, loop, other_first, res, nres, gF, shift, later = (
                gR, cR, tR, 'R', gD, cD, tD, 'D', Pa, nP, c, 'Pwin', 'L1', 'S1', 1, c, r0, n0, gP, dP, 'LD')
        else:
            g1, c1, t1, pre1, g2, c2, t2, pre2, Xa, nX, off, win, step, S12, loop, other_first, res, nres, gF, shift, later = (
                gD, cD, tD, 'D', gR, cR, tR, 'R', Ta, nT, cp, 'Twin', 'L2', 'S2', 3, cp, r1, n1, gT, dT, 'LR')
        q = gF(i + shift)                            # the half-wave number of reported extremum i
        pos = Xa(q)
        idx = [TS, TE, EN, FK, CN, P.inst(('FP' if kind == 'peak' else 'FT') + ':lin', i + shift),
               P.inst(('FP' if kind == 'peak' else 'FT') + ':cag', i + shift)]
        whichq = idx + [P.inst(win, q), P.inst(later, q), P.inst(S12, q), P.inst(step, q), P.inst(pre1 + ':cag', q),
                        P.inst(pre1 + ':cag', q + 1), P.inst(pre2 + ':cag', off + q), P.inst(pre1 + ':lt', q, pos + 1),
                        P.inst(pre1 + ':below', q + 1, pos + 1), P.inst(pre1 + ':cle', pos + 1)]
        P.forall('c02:%s:which' % kind, [i], z3.And(0 <= i, i < nres), z3.And(res(i) + h == pos, c1(pos + 1) - 1 == q, 0 <= q, q < nX),
                 by=whichq)
        WQ = lambda x: z3.substitute(P.inst('c02:%s:which' % kind, i), (i, x))
        P.forall('c02:%s:window' % kind, [i], z3.And(0 <= i, i < nres),
                 z3.And(0 <= c1(res(i) + h + 1) - 1, c1(res(i) + h + 1) - 1 < t1, g1(c1(res(i) + h + 1) - 1) <= res(i) + h,
                        c2(g1(c1(res(i) + h + 1) - 1) + 1) < t2, res(i) + h < g2(c2(g1(c1(res(i) + h + 1) - 1) + 1))),
                 by=[P.inst('c02:%s:which' % kind, i), P.inst(win, q), P.inst(later, q), P.inst(S12, q), CN, FK])
        cmp_all = (lambda a_, b_: a_ <= b_) if kind == 'peak' else (lambda a_, b_: a_ >= b_)
        cmp_first = (lambda a_, b_: a_ < b_) if kind == 'peak' else (lambda a_, b_: a_ > b_)
        qq = c1(res(i) + h + 1) - 1
        P.forall('c02:%s:extreme' % kind, [i, j], z3.And(0 <= i, i < nres, g1(qq) <= j, j < g2(c2(g1(qq) + 1))),
                 cmp_all(at(j), at(res(i) + h)),
                 by=[P.inst('c02:%s:which' % kind, i), P.instq('loop%d-exit' % loop, 4, q, j), P.inst(S12, q), CN, FK])
        P.forall('c02:%s:first' % kind, [i, j], z3.And(0 <= i, i < nres, g1(qq) <= j, j < res(i) + h),
                 cmp_first(at(j), at(res(i) + h)),
                 by=[P.inst('c02:%s:which' % kind, i), P.instq('loop%d-exit' % loop, 5, q, j), CN, FK])
        P.forall('c02:%s:consecutive' % kind, [i], z3.And(0 <= i, i < nres - 1), c1(res(i + 1) + h + 1) == c1(res(i) + h + 1) + 1,
                 by=[P.inst('c02:%s:which' % kind, i), WQ(i + 1), TS, TE, EN,
                     P.inst(('FP' if kind == 'peak' else 'FT') + ':lin', i + shift),
                     P.inst(('FP' if kind == 'peak' else 'FT') + ':lin', i + 1 + shift)])
        # the contract's own clauses, proved for arbitrary bound variables from instances of the lemmas above
        env2 = dict(E.entry_env)
        env2['result'] = (res0, res1)
        clauses = _c02_clauses(0 if kind == 'peak' else 1, kind)
        glue = [P.inst('pad-amount')]
        sub = lambda fact, *ts: z3.substitute(P.inst(fact, *([i, j][:len(ts)])), *list(zip([i, j][:len(ts)], ts)))
        P.prove_clause('ens:%s:1' % kind, clauses[0], env2, lambda a_: glue + [sub('c02:%s:window' % kind, a_)])
        rng = lambda a_: [z3.substitute(t_, (i, a_)) for t_ in
                          [P.inst('c02:%s:which' % kind, i), P.inst('c02:%s:window' % kind, i), P.inst(pre1 + ':cag', q),
                           P.inst(pre2 + ':cag', off + q), P.inst(S12, q), CN, FK]]
        P.prove_clause('ens:%s:2' % kind, clauses[1], env2, lambda a_, b_: glue + rng(a_) + [sub('c02:%s:extreme' % kind, a_, b_)])
        P.prove_clause('ens:%s:3' % kind, clauses[2], env2, lambda a_, b_: glue + rng(a_) + [sub('c02:%s:first' % kind, a_, b_)])
        P.prove_clause('ens:%s:4' % kind, clauses[3], env2, lambda a_: glue + [sub('c02:%s:consecutive' % kind, a_)])
        # completeness: a half-wave inside the boundary has its extremum in the boundary-filtered block, and the block minus
        # at most one trimmed element at the prescribed end is what is returned
        FX = 'FP' if kind == 'peak' else 'FT'
        kX = kP if kind == 'peak' else kT
        maskX = 'maskP' if kind == 'peak' else 'maskT'
        first_i, last_i = z3.IntVal(0), nres - 1
        P.prove_clause('ens:%s:complete' % kind, _complete_clause(0 if kind == 'peak' else 1, kind, first), env2,
                       lambda q_: glue + [TS, TE, EN, FK, CN,
                                          z3.substitute(P.inst('c02:%s:which' % kind, i), (i, first_i)),
                                          z3.substitute(P.inst('c02:%s:which' % kind, i), (i, last_i)),
                                          P.inst(FX + ':lin', shift), P.inst(FX + ':lin', nres - 1 + shift),
                                          P.inst(FX + ':cag', shift), P.inst(FX + ':cag', nres - 1 + shift),
                                          P.inst(win, q_), P.inst(S12, q_), P.inst(later, q_), P.inst(maskX, q_),
                                          P.inst(FX + ':out', q_), P.inst(pre1 + ':cag', q_), P.inst(pre2 + ':cag', off + q_),
                                          # (a crossing that has a later crossing of the other kind is one of the counted ones)
                                          P.inst(pre2 + ':lt', t2 - 1, g1(t1 - 1) + 1), P.inst(pre2 + ':cle', g1(t1 - 1) + 1),
                                          P.inst(pre1 + ':cag', t1 - 1), P.inst(pre2 + ':cag', t2 - 1),
                                          (AR if kind == 'peak' else AD)['inc'](q_, t1 - 1)])


# ---------------------------------------------------------------------------------------------------------------------
H = "int(np.ceil(filt_len / 2))"          # zeros added in front of the signal (locals of the function)
ND = "count_before(decay_xs, rise_xs[%s] + 1)"             # position in decay_xs of the first decay crossing after rise %s
NR = "count_before(rise_xs, decay_xs[%s] + 1)"

# osc3 := three consecutive rise crossings of the band-passed (padded) signal, each followed by a decay crossing, such
# that all of these half-waves lie strictly inside the boundary of the unpadded signal
W = ("implies(osc3(param('sig'), fs, f_range, boundary, param('filter_kwargs'), pass_type, pad), "
     "0 <= witness('a') and witness('a') + 2 < len(rises(sig_filt)) and len(decays(sig_filt)) >= 1 and "
     "rises(sig_filt)[witness('a')] - {H} > boundary and "
     "count_before(decays(sig_filt), rises(sig_filt)[witness('a') + 2] + 1) < len(decays(sig_filt)) and "
     "decays(sig_filt)[count_before(decays(sig_filt), rises(sig_filt)[witness('a') + 2] + 1)] - {H} <= sig_len - boundary)").format(H=H)


RS, DS = "rises(%s)" % FILT, "decays(%s)" % FILT


def _c02_clauses(k, kind):
    """C02 for the reported extrema of one kind (k = 0 peaks / 1 troughs): each is the FIRST maximum (minimum) of the raw
    signal over the sample window of one half-wave of the band-passed signal that is closed by zero-crossings on both
    sides, and consecutive reported extrema belong to consecutive half-waves (none is skipped)"""
    A, B = (RS, DS) if kind == 'peak' else (DS, RS)
    res = "result[%d]" % k
    pos = "(%s[i] + pad_amount())" % res
    q = "(count_before(%s, %s + 1) - 1)" % (A, pos)
    close = "count_before(%s, %s[%s] + 1)" % (B, A, q)
    le, lt = ("<=", "<") if kind == 'peak' else (">=", ">")
    rng = "0 <= i and i < len(%s)" % res
    return [
        "forall(i, {rng}, 0 <= {q} and {q} < len({A}) and {A}[{q}] <= {pos} and {close} < len({B}) and {pos} < {B}[{close}])"
        .format(rng=rng, q=q, A=A, B=B, pos=pos, close=close),
        "forall((i, j), {rng} and {A}[{q}] <= j and j < {B}[{close}], padded(sig, pad_amount(), j) {le} padded(sig, pad_amount(), {pos}))"
        .format(rng=rng, q=q, A=A, B=B, pos=pos, close=close, le=le),
        "forall((i, j), {rng} and {A}[{q}] <= j and j < {pos}, padded(sig, pad_amount(), j) {lt} padded(sig, pad_amount(), {pos}))"
        .format(rng=rng, q=q, A=A, pos=pos, lt=lt),
        "forall(i, 0 <= i and i < len({res}) - 1, count_before({A}, {res}[i + 1] + pad_amount() + 1) == count_before({A}, {pos} + 1) + 1)"
        .format(res=res, A=A, pos=pos),
    ]


def _complete_clause(k, kind, first):
    """C02, 'one extremum for every half-wave ... nothing skipped': a half-wave of this kind whose sample window lies inside
    the boundary (opening crossing more than `boundary` samples in, closing crossing at most len - boundary) is among the
    reported ones - except the single one the first_extrema rule may remove at the front (when the other kind has to come
    first) or at the back (equal counts)"""
    A, B = (RS, DS) if kind == 'peak' else (DS, RS)
    res = "result[%d]" % k
    half = lambda pos: "(count_before(%s, %s + pad_amount() + 1) - 1)" % (A, pos)
    q0, qL = half(res + "[0]"), half(res + "[len(%s) - 1]" % res)
    front = 1 if (first is not None and first != kind) else 0          # the leading extremum of this kind may be dropped
    back = 1 if first == kind else 0                                   # the trailing one may be dropped
    close = "count_before(%s, %s[q] + 1)" % (B, A)
    return ("forall(q, 0 <= q and q < len({A}) and {close} < len({B}) and {A}[q] - pad_amount() > boundary and "
            "{B}[{close}] - pad_amount() <= len(sig) - boundary, {q0} - {front} <= q and q <= {qL} + {back})"
            ).format(A=A, B=B, close=close, q0=q0, qL=qL, front=front, back=back)


C02 = _c02_clauses(0, 'peak') + _c02_clauses(1, 'trough')


INSIDE = ["forall(i, 0 <= i < len(result[0]), boundary < result[0][i] and result[0][i] < len(sig) - boundary)",
          "forall(i, 0 <= i < len(result[1]), boundary < result[1][i] and result[1][i] < len(sig) - boundary)"]
ALTERNATE_TROUGH_FIRST = [
    # equally many peaks and troughs, starting with a trough, strictly alternating
    "len(result[0]) == len(result[1]) and len(result[0]) >= 2",
    "forall(i, 0 <= i < len(result[0]), result[1][i] < result[0][i])",
    "forall(i, 0 <= i < len(result[0]) - 1, result[0][i] < result[1][i + 1])"]
BY_MODE = {
    'peak': (ALTERNATE_PEAK_FIRST, {1: ['trim-end'], 2: ['final:peak-before-trough'], 3: ['final:trough-before-next-peak'],
                                    4: ['trim-end', 'final:inside', 'final:inside-troughs']}),
    'trough': (ALTERNATE_TROUGH_FIRST + INSIDE, {1: ['trim-end'], 2: ['final:trough-before-peak'], 3: ['final:peak-before-next-trough'],
                                                 4: ['final:inside'], 5: ['final:inside-troughs']}),
    None: (["len(result[0]) >= 3 and len(result[1]) >= 2"] + INSIDE, {1: ['trim-end'], 2: ['final:inside'], 3: ['final:inside-troughs']}),
}


def _cases():
    out = []
    for first in ('peak', 'trough', None):
      for fl, ft in (('None', 'none'), ('given', 'opaque')):
        shape, using = BY_MODE[first]
        using = dict(using)
        k0 = len(shape)
        for n_, nm in enumerate(['ens:peak:1', 'ens:peak:2', 'ens:peak:3', 'ens:peak:4', 'ens:trough:1', 'ens:trough:2',
                                 'ens:trough:3', 'ens:trough:4', 'ens:peak:complete', 'ens:trough:complete']):
            using[k0 + 1 + n_] = [nm]
        out.append(dict(
            label='first=%s,fk=%s' % (first, fl),
            params={'sig': ('arr', REAL), 'fs': REAL, 'f_range': ('tuple', [REAL, REAL]), 'boundary': INT,
                    'first_extrema': ('const', first), 'filter_kwargs': ft, 'pass_type': STR, 'pad': BOOL},
            requires=["boundary >= 0", "osc3(sig, fs, f_range, boundary, filter_kwargs, pass_type, pad)"],
            define={('after_assign', 'sig_filt'): [W]},
            proof={('after_assign', 'decay_xs'): _after_crossings, ('after_assign', 'n_troughs'): _after_counts,
                   ('loop_entry', 2): _stash_start('_decay_xs'), ('loop_entry', 4): _stash_start('_rise_xs'),
                   ('before_assign', 'next_decay'): _after_scan('peak'), ('before_assign', 'next_rise'): _after_scan('trough'),
                   ('before_assign', 'peaks'): _before_peaks, ('after_assign', 'troughs'): _after_troughs2,
                   ('after_assign', 'peaks'): _after_store('peak'),
                   ('before_return',): _before_return},
            ensures=shape + C02 + [_complete_clause(0, 'peak', first), _complete_clause(1, 'trough', first)],
            ensures_using=using,
            loops={
                1: dict(index='p', mutates=['peaks'], using=['window-extreme:peak', 'window-first:peak'], invariant=[
                    "len(peaks) == n_peaks",
                    "view_start(_decay_xs) == (0 if p == 0 else %s)" % (ND % 'p - 1'),
                    "len(_decay_xs) == len(decay_xs) - view_start(_decay_xs)",
                    "forall(q, 0 <= q < p, rise_xs[q] <= peaks[q] and peaks[q] < decay_xs[%s])" % (ND % 'q'),
                    "forall((q, j), 0 <= q < p and rise_xs[q] <= j and j < decay_xs[%s], sig[j] <= sig[peaks[q]])" % (ND % 'q'),
                    "forall((q, j), 0 <= q < p and rise_xs[q] <= j and j < peaks[q], sig[j] < sig[peaks[q]])",
                ]),
                2: dict(index='j', preserved=['_decay_xs'], using=[], invariant=[
                    "forall(i, 0 <= i < j, _decay_xs[i] <= last_rise)"]),
                3: dict(index='t', mutates=['troughs'], using=['window-extreme:trough', 'window-first:trough'], invariant=[
                    "len(troughs) == n_troughs",
                    "view_start(_rise_xs) == (0 if t == 0 else %s)" % (NR % 't - 1'),
                    "len(_rise_xs) == len(rise_xs) - view_start(_rise_xs)",
                    "forall(q, 0 <= q < t, decay_xs[q] <= troughs[q] and troughs[q] < rise_xs[%s])" % (NR % 'q'),
                    "forall((q, j), 0 <= q < t and decay_xs[q] <= j and j < rise_xs[%s], sig[j] >= sig[troughs[q]])" % (NR % 'q'),
                    "forall((q, j), 0 <= q < t and decay_xs[q] <= j and j < troughs[q], sig[j] > sig[troughs[q]])",
                ]),
                4: dict(index='j', preserved=['_rise_xs'], using=[], invariant=[
                    "forall(i, 0 <= i < j, _rise_xs[i] <= last_decay)"]),
            }))
    # C19: any other first_extrema value is rejected (after the search itself went through, as the code is written)
    base = dict(out[0])
    out.append(dict(base, label='first=other,fk=None',
                    params=dict(base['params'], first_extrema=STR),
                    requires=list(base['requires']) + ["first_extrema != 'peak' and first_extrema != 'trough'"],
                    raises={'ValueError': 'True'}, ensures=[], ensures_using={}))
    return out


_old = CONTRACTS[Q]
contract(Q, cases=_cases(), raises={'ValueError': "fs < 0"}, modifies=[], result=_two_int_arrays)
