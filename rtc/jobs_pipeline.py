"""Armed-corpus jobs: the whole pipeline on a seeded signal corpus x option grid, one oracle set per property.
These are bounded cross-checks of the assumed-contract chain (DESIGN.md 2.6); never counted as proved."""
import copy
import itertools
import random

import numpy as np
import pandas as pd

from .core import job, JOBS
from . import oracles as O
from .signals import FAMILIES, make_signal

TH_PRESETS = {
    'none': None,
    'loose': dict(amp_fraction_threshold=0., amp_consistency_threshold=.3, period_consistency_threshold=.3,
                  monotonicity_threshold=.5, min_n_cycles=2),
    'default-like': dict(amp_fraction_threshold=0.2, amp_consistency_threshold=.5, period_consistency_threshold=.5,
                         monotonicity_threshold=.8, min_n_cycles=3),
    'partial': dict(monotonicity_threshold=.6),
}
AMP_TH = {'none': None, 'half': dict(burst_fraction_threshold=.5), 'one-m2': dict(burst_fraction_threshold=1, min_n_cycles=2),
          'half-m8': dict(burst_fraction_threshold=.5, min_n_cycles=8)}
AMP_BK = {'none': None, 'empty': {}, 'm4': dict(min_n_cycles=4), 'thr': dict(amp_threshes=(0.5, 1.5)),
          'dur': dict(min_burst_duration=0.25), 'm2': dict(min_n_cycles=2)}
FEK = {'none': None, 'b5': dict(boundary=5), 'ncyc5': dict(filter_kwargs=dict(n_cycles=5)),
       'nsec': dict(filter_kwargs=dict(n_seconds=0.4), boundary=3), 'nopad': dict(pad=False)}


def gen_cases(tier, seed):
    rng = random.Random(seed)
    fams = FAMILIES
    nseeds = 1 if tier == 'quick' else 4
    for fam in fams:
        for s in range(nseeds):
            sd = seed * 1000 + s
            for centre in ('peak', 'trough'):
                # cycles
                ths = list(TH_PRESETS) if tier != 'quick' else [rng.choice(list(TH_PRESETS)), 'loose']
                feks = list(FEK) if tier != 'quick' else [rng.choice(list(FEK))]
                for th in dict.fromkeys(ths):
                    for fek in feks:
                        for rs in ((True, False) if tier != 'quick' else (rng.choice([True, False]),)):
                            yield dict(family=fam, seed=sd, centre=centre, method='cycles', th=th, bk='none', fek=fek, rs=rs)
                aths = list(AMP_TH) if tier != 'quick' else [rng.choice(list(AMP_TH))]
                bks = list(AMP_BK) if tier != 'quick' else [rng.choice(list(AMP_BK)), 'm4']
                for th in aths:
                    for bk in dict.fromkeys(bks):
                        yield dict(family=fam, seed=sd, centre=centre, method='amp', th=th, bk=bk,
                                   fek=rng.choice(list(FEK)), rs=True)
                # min_n_cycles supplied by BOTH dictionaries with different values (the reconciliation case)
                if tier == 'quick':
                    yield dict(family=fam, seed=sd, centre=centre, method='amp', th='half-m8', bk='m2', fek='none', rs=True)
                    yield dict(family=fam, seed=sd, centre=centre, method='amp', th='one-m2', bk='m4', fek='none', rs=True)


def run_pipeline(c):
    from bycycle.features import compute_features
    sig = make_signal(c['family'], c['seed'])
    fs, f_range = 500.0, (7.0, 13.0)
    th = copy.deepcopy((TH_PRESETS if c['method'] == 'cycles' else AMP_TH)[c['th']])
    bk = copy.deepcopy(AMP_BK[c['bk']])
    fek = copy.deepcopy(FEK[c['fek']])
    kw = dict(center_extrema=c['centre'], burst_method=c['method'], burst_kwargs=bk, threshold_kwargs=th,
              find_extrema_kwargs=fek, return_samples=c['rs'])
    kw0 = copy.deepcopy(kw)
    sig0 = sig.copy()
    df = compute_features(sig, fs, f_range, **kw)
    return sig, sig0, fs, f_range, kw, kw0, df


def effective_thresholds(th):
    d = dict(amp_fraction_threshold=0., amp_consistency_threshold=.5, period_consistency_threshold=.5,
             monotonicity_threshold=.8, min_n_cycles=3)
    d.update(th or {})
    return d


class Pipeline:
    chunk = 4
    exhaustive = False
    checks = ()

    def bound(self, tier):
        return ('signal corpus %s (n=1500, fs=500, band 7-13 Hz), %d seed(s) per family, both centrings, both burst '
                'methods, option presets for thresholds / burst options / find_extrema options%s'
                % (FAMILIES, 1 if tier == 'quick' else 4, ' (sampled)' if tier == 'quick' else ' (full grid)'))

    def gen(self, tier, seed):
        return gen_cases(tier, seed)

    def nontrivial(self, c):
        return True

    def run(self, c):
        try:
            sig, sig0, fs, f_range, kw, kw0, df = run_pipeline(c)
        except Exception as e:
            if 'C01' in self.checks:
                return 'compute_features raised %r' % (e,)
            return None
        for chk in self.checks:
            r = getattr(self, 'chk_' + chk)(c, sig, sig0, fs, f_range, kw, kw0, df)
            if r:
                return r
        return None

    # ---- per-property oracles
    def chk_C01(self, c, sig, sig0, fs, f_range, kw, kw0, df):
        if not c['rs']:
            if any(col.startswith('sample_') for col in df.columns):
                return 'sample columns present with return_samples=False'
            return None
        b = (kw0['find_extrema_kwargs'] or {}).get('boundary', 0)
        return O.check_rows(df, len(sig), b)

    def chk_C04(self, c, sig, sig0, fs, f_range, kw, kw0, df):
        if not c['rs']:
            return None
        from neurodsp.timefrequency import amp_by_time
        amp = amp_by_time(sig0, fs, f_range, remove_edges=False, n_cycles=3)
        return O.check_shape(df, sig0, amp)

    def chk_C05(self, c, sig, sig0, fs, f_range, kw, kw0, df):
        if c['method'] != 'cycles' or not c['rs']:
            return None
        return O.check_burst_features(df, sig0)

    def chk_C06(self, c, sig, sig0, fs, f_range, kw, kw0, df):
        if c['method'] != 'cycles':
            return None
        th = effective_thresholds(kw0['threshold_kwargs'])
        m = th.pop('min_n_cycles')
        exp = O.cycles_labels_ref(df, th, m)
        got = [bool(x) for x in df['is_burst'].values]
        if got != exp:
            return 'is_burst differs from the threshold-and-run rule at rows %s' % [i for i, (a, b) in enumerate(zip(got, exp)) if a != b][:6]
        return None

    def chk_C07(self, c, sig, sig0, fs, f_range, kw, kw0, df):
        if c['method'] != 'amp':
            return None
        from neurodsp.burst import detect_bursts_dual_threshold
        bk = dict(kw0['burst_kwargs'] or {})
        th = dict(kw0['threshold_kwargs'] or {})
        m = bk.get('min_n_cycles', th.get('min_n_cycles', 3))
        dur = bk.get('min_burst_duration')
        det = detect_bursts_dual_threshold(sig0, fs, bk.get('amp_threshes', (1, 2)), f_range,
                                           min_n_cycles=None if dur is not None else m, min_burst_duration=dur)
        r = O.roles(df)
        L, N = df[r['L']].values.astype(int), df[r['N']].values.astype(int)
        exp_bf = np.array([np.mean(det[a:b + 1]) for a, b in zip(L, N)])
        if not O.same_array(df['burst_fraction'].values, exp_bf, 1e-12):
            return 'burst_fraction is not the detector fraction over [last, next] with min_n_cycles=%s' % m
        thr = th.get('burst_fraction_threshold', 1)
        exp = O.minrun([O.ge(float(v), thr) for v in exp_bf], m)
        got = [bool(x) for x in df['is_burst'].values]
        if got != exp:
            return 'is_burst differs from the >= threshold + run rule (m=%s) at rows %s' % (m, [i for i, (a, b) in enumerate(zip(got, exp)) if a != b][:6])
        return None

    def chk_C15(self, c, sig, sig0, fs, f_range, kw, kw0, df):
        if not np.array_equal(sig, sig0):
            return 'the caller\'s signal array was modified'
        for k in ('burst_kwargs', 'threshold_kwargs', 'find_extrema_kwargs'):
            if kw[k] != kw0[k]:
                return 'the caller\'s %s was modified: %r -> %r' % (k, kw0[k], kw[k])
        from bycycle.features import compute_features
        df2 = compute_features(sig, fs, f_range, **kw)
        d = O.frames_identical(df, df2)
        if d:
            return 'second call with the same argument objects differs: ' + d
        return None


def _register(pid):
    cls = type('Pipeline_' + pid, (Pipeline,), {'checks': (pid,)})
    job('pipeline:' + pid, props=[pid], function='bycycle.features.features.compute_features')(cls)


for _p in ('C01', 'C04', 'C05', 'C06', 'C07', 'C15'):
    _register(_p)
