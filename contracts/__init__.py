"""Sidecar contracts for the real functions under /repo/bycycle (no edit of /repo)."""
CONTRACTS = {}


def contract(qual, **kw):
    CONTRACTS[qual] = kw
    return kw
