"""A verification unit = one function under contract (all typing cases) or one lemma group.
Runs in a worker process; returns plain records."""
import os
import subprocess
import tempfile
import time
import traceback

import z3

from .sources import Sources
from .engine import Engine, Unsupported
from . import calls
from . import grid  # noqa: F401  (registers the group-level library contracts)


def load_contracts():
    import contracts
    import importlib
    import pkgutil
    for m in pkgutil.iter_modules(contracts.__path__):
        importlib.import_module('contracts.' + m.name)
    return contracts.CONTRACTS


def smt2_of(ob):
    s = z3.Solver()
    for a in ob.assumptions:
        s.add(a)
    s.add(z3.Not(ob.goal))
    return s.to_smt2()


def cvc5_check(smt2, timeout_s=20):
    """second back end: /usr/bin/cvc5 on the SMT-LIB dump; returns 'unsat' | 'sat' | 'unknown'"""
    with tempfile.NamedTemporaryFile('w', suffix='.smt2', delete=False, dir=os.environ.get('VF_TMP', None)) as f:
        f.write('(set-logic ALL)\n' + smt2)
        path = f.name
    try:
        r = subprocess.run(['/usr/bin/cvc5', '--tlimit=%d' % (timeout_s * 1000), '--full-saturate-quant', path],
                           capture_output=True, text=True, timeout=timeout_s + 5)
        out = r.stdout.strip().split('\n')[0] if r.stdout.strip() else 'unknown'
        return out if out in ('sat', 'unsat') else 'unknown'
    except Exception:
        return 'unknown'
    finally:
        os.unlink(path)


def run_function_case(task):
    """task: dict(qual, case_index, overrides, timeout_ms, both)"""
    qual = task['qual']
    t0 = time.time()
    rec = {'unit': qual, 'case': None, 'status': 'ok', 'obligations': [], 'paths': 0, 'why': '',
           'module_sha256': None, 'file': None}
    try:
        contracts = load_contracts()
        c = contracts[qual]
        cases = c.get('cases') or [{}]
        case = dict(cases[task['case_index']])
        rec['case'] = case.get('label', '')
        # per-label extra requires
        for key, reqs in (c.get('case_requires') or {}).items():
            if key in (case.get('label') or ''):
                case['requires'] = list(case.get('requires', [])) + list(reqs)
        src = Sources(overrides=task.get('overrides') or {})
        mi, fdef = src.func(qual)
        if fdef is None:
            rec['status'] = 'missing'
            rec['why'] = 'function not found in the working tree'
            return rec
        rec['module_sha256'] = mi.sha256
        rec['file'] = mi.path
        E = Engine(src, contracts, calls.LIB, timeout_ms=task.get('timeout_ms', 10000))
        E.stop_on_fail = bool(task.get('stop_on_fail'))
        try:
            outcomes = E.run(qual, c, case)
        except Unsupported as e:
            rec['status'] = 'unsupported'
            rec['why'] = str(e)
            outcomes = []
        rec['paths'] = E.paths
        rec['outcomes'] = sorted(set('%s:%s' % o for o in outcomes))
        if rec['status'] == 'ok' and not outcomes:
            rec['status'] = 'vacuous'
            rec['why'] = 'no live path reaches a return or a raise: the requires / assumed contracts are contradictory'
        for ob in E.obligations:
            r = {'name': ob.name, 'kind': ob.kind, 'status': ob.status, 'backend': ob.backend,
                 'time': round(ob.time, 4), 'line': ob.line, 'note': ob.note, 'model': None}
            if ob.status != 'unsat':
                if ob.model is not None:
                    r['model'] = str(ob.model)[:1500]
                    from .replay import model_args
                    try:
                        ma = model_args(E, ob.model)
                    except Exception:
                        ma = None              # a counter-model that cannot be turned into concrete arguments: no replay, still a failure
                    if ma is not None:
                        r['replay_args'] = ma
                        r['replay_case'] = exportable(c, case)
                # second back end on anything z3 did not discharge
                if task.get('no_cvc5'):
                    rec['obligations'].append(r)
                    continue
                try:
                    smt2 = smt2_of(ob)
                    res = cvc5_check(smt2)
                    r['cvc5'] = res
                    if res == 'unsat':
                        r['status'] = 'unsat'
                        r['backend'] = 'cvc5'
                except Exception as e:
                    r['cvc5'] = 'error: %s' % e
            elif task.get('both') and ob.backend == 'z3':
                try:
                    res = cvc5_check(smt2_of(ob), timeout_s=10)
                    r['cvc5'] = res
                except Exception as e:
                    r['cvc5'] = 'error: %s' % e
            rec['obligations'].append(r)
        rec['stats'] = E.stats
    except Exception as e:
        rec['status'] = 'crash'
        rec['why'] = ''.join(traceback.format_exception(type(e), e, e.__traceback__))[-1500:]
    rec['wall_s'] = round(time.time() - t0, 3)
    return rec


def model_values(E, ob):
    """evaluate the scalar inputs of the function in the counter-model (for replay on the real code)"""
    out = {}
    m = ob.model
    try:
        for d in m.decls():
            name = d.name()
            if d.arity() == 0:
                v = m[d]
                out[name] = str(v)
    except Exception:
        pass
    return out


def exportable(c, case):
    """the string clauses of a contract case (what the concrete evaluator on the rtc side can read)"""
    def strs(xs):
        return [x for x in xs if isinstance(x, str)]
    return {'base': {'requires': strs(c.get('requires', [])), 'ensures': strs(c.get('ensures', [])),
                     'modifies': c.get('modifies') if c.get('modifies') == [] else None,
                     'raises': {k: v for k, v in (c.get('raises') or {}).items() if isinstance(v, str)}},
            'case': {'label': case.get('label', ''), 'requires': strs(case.get('requires', [])),
                     'ensures': strs(case.get('ensures', [])),
                     'raises': {k: v for k, v in (case.get('raises') or {}).items() if isinstance(v, str)}}}


def export_all(path):
    """dump the string clauses and parameter types of every contract (read by the armed-contract job on the rtc side)"""
    import json
    C = load_contracts()

    def strs(xs):
        return [x for x in xs if isinstance(x, str)]

    def js(t):
        if isinstance(t, tuple):
            return [js(x) for x in t]
        if isinstance(t, dict):
            return {k: js(v) for k, v in t.items()}
        if isinstance(t, list):
            return [js(x) for x in t]
        if callable(t):
            return 'derived'                 # a parameter maker (python function): not for the concrete side
        return t
    out = {}
    for q, c in C.items():
        cases = []
        for case in (c.get('cases') or [{}]):
            reqs = list(case.get('requires', []))
            for key, rq in (c.get('case_requires') or {}).items():
                if key in (case.get('label') or ''):
                    reqs += list(rq)
            cases.append({'label': case.get('label', ''), 'params': js(case.get('params', {})), 'requires': strs(reqs),
                          'ensures': strs(case.get('ensures', [])),
                          'raises': {k: v for k, v in (case.get('raises') or {}).items() if isinstance(v, str)}})
        out[q] = {'params': js(c.get('params', {})), 'cases': cases,
                  'base': {'requires': strs(c.get('requires', [])), 'ensures': strs(c.get('ensures', [])),
                           'modifies': c.get('modifies') if c.get('modifies') == [] else None,
                           'raises': {k: v for k, v in (c.get('raises') or {}).items() if isinstance(v, str)}}}
    with open(path, 'w') as f:
        json.dump(out, f)
    return len(out)
