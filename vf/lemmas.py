"""Pure-logic lemmas over the spec functions, proved by the same solvers (DESIGN.md 2.3, 2.4).
A lemma is a python function returning a list of steps (name, assumptions, goal); every step is its own
obligation. Steps may assume earlier steps' goals explicitly (that is visible in the lemma's text)."""
import time
import traceback

import z3

LEMMAS = {}


def lemma(name):
    def deco(f):
        LEMMAS[name] = f
        return f
    return deco


def load_lemmas():
    import contracts
    import importlib
    import pkgutil
    for m in pkgutil.iter_modules(contracts.__path__):
        importlib.import_module('contracts.' + m.name)


def run_lemma(task):
    from .unit import cvc5_check
    name = task['name']
    rec = {'unit': 'lemma:' + name, 'case': '', 'status': 'ok', 'obligations': [], 'paths': 0, 'why': '',
           'file': None, 'module_sha256': None}
    t00 = time.time()
    try:
        load_lemmas()
        steps = LEMMAS[name]()
        for sname, assumptions, goal in steps:
            t0 = time.time()
            s = z3.Solver()
            s.set('timeout', task.get('timeout_ms', 20000))
            for a in assumptions:
                s.add(a)
            s.add(z3.Not(goal))
            r = str(s.check())
            o = {'name': 'lemma:%s/%s' % (name, sname), 'kind': 'lemma', 'status': r, 'backend': 'z3',
                 'time': round(time.time() - t0, 4), 'line': None, 'note': '', 'model': None}
            if r != 'unsat' or task.get('both'):
                res = cvc5_check(s.to_smt2(), timeout_s=20)
                o['cvc5'] = res
                if r != 'unsat' and res == 'unsat':
                    o['status'], o['backend'] = 'unsat', 'cvc5'
            if o['status'] == 'sat':
                try:
                    o['model'] = str(s.model())[:3000]
                except Exception:
                    pass
            rec['obligations'].append(o)
    except Exception as e:
        rec['status'] = 'crash'
        rec['why'] = ''.join(traceback.format_exception(type(e), e, e.__traceback__))[-1500:]
    rec['wall_s'] = round(time.time() - t00, 3)
    return rec
