"""bycycle.cyclepoints.{extrema,zerox} (callee-side contracts) and bycycle.features.cyclepoints — C01, C02, C03."""
import z3

from . import contract
from vf.values import BOOL, INT, REAL, XR, STR, Z, Arr, SDict, Opaque, ValSort, SeqSort, fresh_name
from vf.spec import form, specfn
from vf.engine import lift, to_real, Unsupported
from vf.lib import term_int

# OSC(sig, fs, f_lo, f_hi, boundary, filter options, pass type, pad): "the band-passed signal contains at least three
# full oscillations inside the boundary" — a property of the external filter's output, assumed at the top
# (C01/C02 are proved for every signal for which it holds) and passed down the call chain unchanged.
_OSC = z3.Function('osc3', SeqSort, z3.RealSort(), z3.RealSort(), z3.RealSort(), z3.IntSort(), ValSort, z3.IntSort(),
                   z3.BoolSort(), z3.BoolSort())

EMPTY = z3.Const('empty_kwargs', ValSort)
NONE_VAL = z3.Const('none_value', ValSort)


def _val_term(v):
    if v is None:
        return NONE_VAL
    if isinstance(v, Opaque):
        return v.t
    if isinstance(v, SDict):
        items = sorted((k, x) for k, (p, x) in v.items.items() if p is True)
        if any(p is not True and p is not False for p, _ in v.items.values()):
            raise Unsupported('option dict with symbolic presence as an opaque value')
        if not items:
            return EMPTY
        terms = [lift(x).t for _, x in items]
        f = z3.Function('optdict_' + '_'.join(k for k, _ in items), *[t.sort() for t in terms], ValSort)
        return f(*terms)
    from vf.values import Opt
    if isinstance(v, Opt):
        return z3.If(v.isnone, NONE_VAL, _val_term(v.val))
    raise Unsupported('opaque option value expected, got %r' % (v,))


@specfn('osc3')
def osc3(E, sig, fs, f_range, boundary, filter_kwargs, pass_type, pad):
    pt = lift(pass_type)
    pd = lift(pad)
    return Z(_OSC(E.seq(sig), to_real(lift(fs)), to_real(lift(f_range[0])), to_real(lift(f_range[1])),
                  term_int(boundary), _val_term(filter_kwargs), pt.t, pd.t), BOOL)


def _two_int_arrays(E, env):
    out = []
    for k in range(2):
        n = z3.Int(fresh_name('ext.len'))
        E.assume(n >= 0)
        out.append(E.new_arr(n, INT, base='ext%d' % k))
    return tuple(out)


ALTERNATE_PEAK_FIRST = [
    # equally many peaks and troughs, starting with a peak, strictly alternating, strictly inside the boundary
    "len(result[0]) == len(result[1]) and len(result[0]) >= 2",
    "forall(i, 0 <= i < len(result[0]), result[0][i] < result[1][i])",
    "forall(i, 0 <= i < len(result[0]) - 1, result[1][i] < result[0][i + 1])",
    "forall(i, 0 <= i < len(result[0]), boundary < result[0][i] and result[0][i] < len(sig) - boundary and "
    "boundary < result[1][i] and result[1][i] < len(sig) - boundary)",
]

contract(
    'bycycle.cyclepoints.extrema.find_extrema',
    cases=[dict(label='first=peak,fk=%s' % fl,
                params={'sig': ('arr', REAL), 'fs': REAL, 'f_range': ('tuple', [REAL, REAL]), 'boundary': INT,
                        'first_extrema': ('const', 'peak'), 'filter_kwargs': ft, 'pass_type': STR, 'pad': BOOL},
                requires=["boundary >= 0", "osc3(sig, fs, f_range, boundary, filter_kwargs, pass_type, pad)"],
                ensures=ALTERNATE_PEAK_FIRST)
           for fl, ft in (('None', 'none'), ('given', 'opaque'))],
    raises={'ValueError': "fs < 0"},
    modifies=[],
    result=_two_int_arrays,
)


def _zerox_result(E, env):
    return _two_int_arrays(E, env)


def _fz_cases():
    out = []
    # (label, first kind, relation of counts, alternation requirement, rises spec, decays spec)
    inr = "0 <= peaks[i] and peaks[i] < len(sig) and 0 <= troughs[i] and troughs[i] < len(sig)"
    cases = [
        ('peak-first,equal-counts', "len(peaks) == len(troughs) and len(peaks) >= 1",
         ["forall(i, 0 <= i < len(peaks), 0 <= peaks[i] and peaks[i] < troughs[i] and troughs[i] < len(sig))",
          "forall(i, 0 <= i < len(peaks) - 1, troughs[i] < peaks[i + 1])"],
         ("len(peaks) - 1", "troughs[i] <= result[0][i] and result[0][i] <= peaks[i + 1]"),
         ("len(troughs)", "peaks[i] <= result[1][i] and result[1][i] <= troughs[i]")),
        ('peak-first,one-more-peak', "len(peaks) == len(troughs) + 1 and len(troughs) >= 1",
         ["forall(i, 0 <= i < len(troughs), 0 <= peaks[i] and peaks[i] < troughs[i] and troughs[i] < peaks[i + 1] "
          "and peaks[i + 1] < len(sig))"],
         ("len(troughs)", "troughs[i] <= result[0][i] and result[0][i] <= peaks[i + 1]"),
         ("len(troughs)", "peaks[i] <= result[1][i] and result[1][i] <= troughs[i]")),
        ('trough-first,equal-counts', "len(peaks) == len(troughs) and len(peaks) >= 1",
         ["forall(i, 0 <= i < len(peaks), 0 <= troughs[i] and troughs[i] < peaks[i] and peaks[i] < len(sig))",
          "forall(i, 0 <= i < len(peaks) - 1, peaks[i] < troughs[i + 1])"],
         ("len(peaks)", "troughs[i] <= result[0][i] and result[0][i] <= peaks[i]"),
         ("len(troughs) - 1", "peaks[i] <= result[1][i] and result[1][i] <= troughs[i + 1]")),
        ('trough-first,one-more-trough', "len(troughs) == len(peaks) + 1 and len(peaks) >= 1",
         ["forall(i, 0 <= i < len(peaks), 0 <= troughs[i] and troughs[i] < peaks[i] and peaks[i] < troughs[i + 1] "
          "and troughs[i + 1] < len(sig))"],
         ("len(peaks)", "troughs[i] <= result[0][i] and result[0][i] <= peaks[i]"),
         ("len(peaks)", "peaks[i] <= result[1][i] and result[1][i] <= troughs[i + 1]")),
    ]
    for label, counts, alt, (nr, rspec), (nd, dspec) in cases:
        out.append(dict(
            label=label,
            params={'sig': ('arr', REAL), 'peaks': ('arr', INT), 'troughs': ('arr', INT)},
            requires=[counts] + alt,
            ensures=[
                # C03 / C01: one rise per trough->peak flank, one decay per peak->trough flank, in temporal order, each
                # inside its flank (the exact half-height / median position is covered by the bounded job)
                "len(result[0]) == %s and len(result[1]) == %s" % (nr, nd),
                "forall(i, 0 <= i < len(result[0]), %s)" % rspec,
                "forall(i, 0 <= i < len(result[1]), %s)" % dspec,
            ]))
    return out


contract('bycycle.cyclepoints.zerox.find_zerox', cases=_fz_cases(), modifies=[], result=_zerox_result)

FE_KEYS = {'boundary': INT, 'filter_kwargs': 'opaque', 'pass_type': STR, 'pad': BOOL, 'first_extrema': STR}


def fe_args(d):
    """the effective find_extrema arguments given the option dict expression d"""
    return ("(value({d}, 'boundary') if present({d}, 'boundary') else 0), "
            "(value({d}, 'filter_kwargs') if present({d}, 'filter_kwargs') else None), "
            "(value({d}, 'pass_type') if present({d}, 'pass_type') else 'bandpass'), "
            "(value({d}, 'pad') if present({d}, 'pad') else True)").format(d=d)


def _samples_frame(E, env):
    from vf.values import Frame
    n = z3.Int(fresh_name('samples.nrows'))
    E.assume(n >= 0)
    from .features_shape import PEAK_SAMPLES
    cols = {c: E.new_arr(n, INT, kind='series', base='samples.' + c) for c in PEAK_SAMPLES}
    return Frame(E.new_ident(), n, cols)


def _cp_contract():
    from .features_shape import full_row_invariant
    bnd = "(value(find_extrema_kwargs, 'boundary') if present(find_extrema_kwargs, 'boundary') else 0)"
    contract(
        'bycycle.features.cyclepoints.compute_cyclepoints',
        params={'sig': ('arr', REAL), 'fs': REAL, 'f_range': ('tuple', [REAL, REAL]),
                'find_extrema_kwargs': ('dict', FE_KEYS)},
        requires=["not present(find_extrema_kwargs, 'first_extrema')",
                  bnd + " >= 0",
                  "osc3(sig, fs, f_range, " + fe_args('find_extrema_kwargs') + ")"],
        raises={'ValueError': "fs < 0"},
        # C01: one row per cycle; rows ordered, inside the signal and the boundary, midpoints between the extrema they
        # separate, consecutive rows share their side extremum
        ensures=["len(result) >= 1", "ncols(result) == 6"] + full_row_invariant('result', 'len(sig)', bnd),
        modifies=[],
        result=_samples_frame,
    )


_cp_contract()


# ------------------------------------------------------------------------------------------------ find_zerox (C03 / C01)
contract('bycycle.cyclepoints.zerox.find_flank_zerox', inline=True)


def _flanks_result(E, env):
    n = z3.Int(fresh_name('flanks.len'))
    E.assume(n >= 0)
    return E.new_arr(n, INT, base='flanks')


def _half_height_clause(flank, eff):
    W = "sig[extrema_start[idx] : extrema_end[idx + %d] + 1]" % eff
    h = "((%s[0] + %s[-1]) / 2.)" % (W, W)
    if flank == 'rise':
        inverted = "%s[0] > %s[-1]" % (W, W)
        below = "(%s <= %s)" % (W, h)
    else:
        inverted = "%s[0] < %s[-1]" % (W, W)
        below = "(%s > %s)" % (W, h)
    cross = "(%s[:-1] & ~%s[1:]).nonzero()[0]" % (below, below)
    centre = "int(len(%s) / 2.)" % W
    med = "(int(len(%s) / 2) if len(%s) == 0 else int(np.median(%s)))" % (W, cross, cross)
    return ("flanks[idx] == extrema_start[idx] + (%s if (np.sum(np.abs(%s)) == 0 or %s) else %s)" % (centre, W, inverted, med))


def _ffm_cases():
    out = []
    for flank in ('rise', 'decay'):
        for bias in (0, 1):
            eff = (1 - bias) if flank == 'rise' else bias       # which end extremum closes flank idx
            out.append(dict(
                label='%s,idx_bias=%d' % (flank, bias),
                params={'sig': ('arr', REAL), 'flank': ('const', flank), 'n_flanks': INT, 'extrema_start': ('arr', INT),
                        'extrema_end': ('arr', INT), 'idx_bias': ('const', bias)},
                requires=["n_flanks >= 0", "n_flanks <= len(extrema_start)", "n_flanks + %d <= len(extrema_end)" % eff,
                          # every flank runs from its start extremum to a later end extremum inside the signal
                          "forall(i, 0 <= i < n_flanks, 0 <= extrema_start[i] and extrema_start[i] < extrema_end[i + %d] "
                          "and extrema_end[i + %d] < len(sig))" % (eff, eff)],
                ensures=["len(result) == n_flanks",
                         # C03 (containment part, used by C01): the midpoint of flank i lies between the two extrema of flank i
                         "forall(i, 0 <= i < n_flanks, extrema_start[i] <= result[i] and result[i] <= extrema_end[i + %d])" % eff],
                loops={1: dict(index='k', invariant=[
                    "len(flanks) == n_flanks",
                    "forall(i, 0 <= i < k, extrema_start[i] <= flanks[i] and flanks[i] <= extrema_end[i + %d])" % eff],
                    # C03, exact position, for an ARBITRARY flank (per-iteration postcondition): with W the raw samples from
                    # the start to the end extremum and h the voltage halfway between them, the midpoint is the start plus
                    # the temporal median (rounded down) of the samples just before W crosses h in the flank's direction;
                    # the temporal centre of W when W is identically zero, when the flank is inverted, or when h is never
                    # crossed that way
                    body_ensures=[_half_height_clause(flank, eff)])}))
    return out


contract('bycycle.cyclepoints.zerox._find_flank_midpoints', cases=_ffm_cases(), modifies=[], result=_flanks_result)
