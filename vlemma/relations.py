"""Two-run relations stated as functions (see vlemma/__init__.py)."""
from bycycle.features import compute_features


def mirror_pair(sig, fs, f_range, burst_method, burst_kwargs, threshold_kwargs, find_extrema_kwargs):
    """C09: the trough-centred analysis of a signal next to the peak-centred analysis of its negation."""
    neg = -sig
    df_trough = compute_features(sig, fs, f_range, center_extrema='trough', burst_method=burst_method,
                                 burst_kwargs=burst_kwargs, threshold_kwargs=threshold_kwargs,
                                 find_extrema_kwargs=find_extrema_kwargs)
    df_peak = compute_features(neg, fs, f_range, center_extrema='peak', burst_method=burst_method,
                               burst_kwargs=burst_kwargs, threshold_kwargs=threshold_kwargs,
                               find_extrema_kwargs=find_extrema_kwargs)
    return df_trough, df_peak
