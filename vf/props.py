"""Per-property obligation sets: which functions under contract, which lemmas, which bounded jobs."""

TRUSTED_BASE = [
    'pyvc engine (/verif/vf): python-AST symbolic executor and its numpy/pandas/neurodsp library contracts '
    '(vf/lib.py, vf/calls.py), conformance-tested by the bounded jobs but not verified',
    'z3 5.1 (python3-vt) and cvc5 1.0.3 (/usr/bin/cvc5)',
    'CPython semantics as encoded in vf/engine.py (unbounded ints, slice normalisation, argument binding)',
]

ASSUMPTIONS = [
    'floats are exact reals plus nan/+inf/-inf tags: no rounding, no int64 overflow',
    'dropped by extraction: docstrings, warnings.warn, print, exception message text, np.errstate, savefig decorator, tqdm',
    'callees are used through their contracts only; numpy / pandas / neurodsp behave as their assumed contracts say',
]

EXTERNAL = {
    'filter': 'neurodsp.filt.filter_signal / the band-passed signal: a real array of the input\'s length, otherwise unconstrained; '
              'the hypothesis "at least three full oscillations inside the boundary" is the predicate osc3, assumed at the top of the '
              'call chain and given its meaning over the zero-crossings of the filter output inside find_extrema (C02)',
    'amp': 'neurodsp.timefrequency.amp_by_time: uninterpreted function of (signal, fs, band, n_cycles), assumed even in the sign of the signal',
    'dual': 'neurodsp.burst.detect_bursts_dual_threshold: uninterpreted function of all its arguments, result has len(sig)',
    'rank': 'pandas Series.rank(): uninterpreted (average rank, nan stays nan); cross-checked against an independent reference by the bounded jobs',
    'interp': 'numpy.interp(x, xp, fp) for non-empty strictly increasing xp and finite fp (both obligations at the call): result finite, of '
              'x\'s length, fp[0] / fp[-1] at and beyond the end points, fp[k] where x equals xp[k], and on each interval [xp[s], xp[s+1]] '
              'strictly increasing / decreasing / constant in x as fp[s] <, >, == fp[s+1] (a consequence of the linear formula in real '
              'arithmetic; the formula itself is not assumed); boolean-mask selection keeps the selected entries in order',
    'mean': 'numpy mean / diff / slicing / comparison of arrays inside reductions: opaque sequence algebra (same expression => same value)',
}

PROPS = {}


def prop(pid, **kw):
    PROPS[pid] = kw


F = 'bycycle.features.'
CF = F + 'features.compute_features'

prop('C01',
     level='other',
     units=[CF, F + 'shape.compute_shape_features', F + 'cyclepoints.compute_cyclepoints',
            'bycycle.burst.cycle.detect_bursts_cycles', 'bycycle.utils.dataframes.drop_samples_df',
            'bycycle.cyclepoints.zerox.find_zerox', 'bycycle.cyclepoints.zerox._find_flank_midpoints',
            'bycycle.burst.utils.check_min_burst_cycles'],
     jobs=['pipeline:C01', 'find_extrema', 'find_zerox', 'armed'],
     unit_jobs={},
     trusted=[EXTERNAL['filter']],
     explanation='Proved (unbounded, for every signal satisfying osc3, every option combination in the typed cases): '
                 'compute_features / compute_shape_features / compute_cyclepoints return a table of >= 1 rows whose sample '
                 'columns satisfy the row, boundary, midpoint and tiling invariant, for both centrings, with and without '
                 'sample columns; no exception other than the documented ValueErrors (incl. the read-only-view and '
                 'n_seconds paths); find_zerox (one midpoint per flank, inside its flank) and check_min_burst_cycles are proved too. '
                 'The contract of find_extrema used here (strict alternation inside the boundary, equal counts, given osc3) is no '
                 'longer assumed: it is proved under C02 from the code, relative to the stated meaning of osc3 over the filter output. '
                 'Bounded: armed corpus (pipeline:C01, armed), find_extrema / find_zerox stand-ins.')

prop('C04',
     level='other',
     units=[F + 'shape.compute_durations', F + 'shape.compute_extrema_voltage', F + 'shape.compute_symmetry',
            F + 'shape.compute_band_amp', 'bycycle.utils.dataframes.rename_extrema_df',
            F + 'shape.compute_shape_features', CF],
     jobs=['pipeline:C04', 'armed'],
     trusted=[EXTERNAL['amp'], EXTERNAL['mean']],
     explanation='Proved: every shape feature column of compute_shape_features and of compute_features equals its documented '
                 'function of the row\'s cyclepoints and the ORIGINAL signal, for peak- and trough-centred tables (the '
                 'trough case through the negate-then-rename implementation, including 1 - x symmetries as real-arithmetic '
                 'identities), band_amp relative to the external amplitude function (assumed even in sign). '
                 'Range facts (0 < time_rdsym < 1) are checked by the bounded corpus job.')

prop('C05',
     level='other',
     units=[F + 'burst.compute_amp_fraction', F + 'burst.compute_amp_consistency', F + 'burst.compute_period_consistency',
            F + 'burst.compute_monotonicity', F + 'burst.compute_burst_features', CF],
     jobs=['burst_features_small', 'pipeline:C05', 'armed'],
     unit_jobs={F + 'burst.compute_amp_consistency': ['burst_features_small'],
                F + 'burst.compute_period_consistency': ['burst_features_small'],
                F + 'burst.compute_amp_fraction': ['burst_features_small']},
     trusted=[EXTERNAL['rank'], EXTERNAL['mean']],
     explanation='Proved over extended reals (nan / inf tags, exact arithmetic): amp_consistency and period_consistency equal '
                 'the spec (three / two adjacent min-max ratios, nanmin, clamp at 0, nan at both ends) for both centrings and '
                 'all directions, by loop invariants; amp_fraction = rank / n; monotonicity = mean of the two strict-step '
                 'fractions over the inclusive flank windows (as terms of the sequence algebra). The [0,1] range clause and '
                 'the meaning of rank / mean are covered by the bounded jobs.')

prop('C06',
     level='other',
     units=['bycycle.burst.cycle.detect_bursts_cycles', CF, 'bycycle.burst.utils.check_min_burst_cycles'],
     lemmas=['minrun_monotone'],
     jobs=['detect_bursts_cycles', 'pipeline:C06', 'armed'],
     unit_jobs={'bycycle.burst.cycle.detect_bursts_cycles': ['detect_bursts_cycles']},
     explanation='Proved: detect_bursts_cycles labels exactly minrun(q, min_n_cycles) with q = strict > on all four '
                 'thresholds, first and last cycle excluded (IEEE: nan never qualifies); compute_features routes the '
                 'thresholds (with their defaults) unchanged; raising a threshold or min_n_cycles only removes labels '
                 '(lemma minrun_monotone over the definition of minrun). Relative to the contract of '
                 'check_min_burst_cycles (C08).')

prop('C07',
     level='other',
     units=[F + 'burst.compute_burst_fraction', F + 'burst.compute_burst_features', 'bycycle.burst.amp.detect_bursts_amp', CF,
            'bycycle.burst.utils.check_min_burst_cycles'],
     lemmas=['minrun_monotone'],
     jobs=['detect_bursts_amp', 'pipeline:C07', 'armed'],
     unit_jobs={'bycycle.burst.amp.detect_bursts_amp': ['detect_bursts_amp']},
     trusted=[EXTERNAL['dual'], EXTERNAL['mean']],
     explanation='Proved relative to the external detector: burst_fraction[i] = mean of the detector mask over [last, next] '
                 'inclusive with the side column chosen by centring; the detector receives min_n_cycles unless a minimum '
                 'duration is given; is_burst = minrun(burst_fraction >= threshold, M); one and the same M (burst options, '
                 'else thresholds, else 3) reaches the detector and the run filter, for every subset of supplied keys.')

prop('C19',
     level='other',
     units=['bycycle.group.utils.check_kwargs_shape', 'bycycle.burst.cycle.detect_bursts_cycles',
            'bycycle.burst.amp.detect_bursts_amp', F + 'burst.compute_burst_fraction', F + 'burst.compute_amp_consistency',
            F + 'burst.compute_period_consistency', F + 'shape.compute_shape_features', CF,
            'bycycle.objs.fit.Bycycle.fit', 'bycycle.objs.fit.Bycycle.plot', 'bycycle.burst.utils.check_min_burst_cycles',
            'bycycle.objs.fit.BycycleGroup.fit', 'bycycle.group.utils.progress_bar'],
     jobs=['kwargs_shape', 'detect_bursts_cycles', 'detect_bursts_amp', 'objects'],
     unit_jobs={'bycycle.group.utils.check_kwargs_shape': ['kwargs_shape'],
                'bycycle.burst.cycle.detect_bursts_cycles': ['detect_bursts_cycles'],
                'bycycle.burst.amp.detect_bursts_amp': ['detect_bursts_amp']},
     explanation='Proved ("ValueError iff"): the shape/axis/option-list decision table of check_kwargs_shape for all extents; '
                 'threshold range checks, negative min_n_cycles, reversed / negative amplitude thresholds, negative fs, unknown '
                 'centre / burst method / direction, first_extrema override, a 2-D / 3-D signal given to Bycycle.fit, plot before fit. '
                 'Not yet under contract: the BycycleGroup dimensionality guard, axis / progress values of the group functions, '
                 'first_extrema of find_extrema; '
                 'fs == 0 is rejected only by the external filter.')

BU = 'bycycle.burst.utils.'
DF = 'bycycle.utils.dataframes.'

FE = 'bycycle.cyclepoints.extrema.find_extrema'
OSC3_DEF = ('definition of the hypothesis predicate osc3 ("the band-passed signal contains at least three full oscillations inside '
            'the boundary"), assumed at the point where the filter output exists: three consecutive rise crossings of the (padded) '
            'filter output, the first more than boundary samples into the unpadded signal, the last followed by a decay crossing at '
            'most len(sig) - boundary into it')
prop('C02', level='other', units=[FE], jobs=['find_extrema'],
     unit_jobs={FE: ['find_extrema']},
     trusted=[EXTERNAL['filter'], 'neurodsp compute_filter_length returns a positive integer; np.pad / np.argmax / np.argmin / '
              'np.ceil / nonzero as documented (first extreme position, ValueError on an empty window)'],
     assumptions=[OSC3_DEF],
     explanation='Proved from the code (all three first_extrema modes, filter options None or given, pad True or False, every signal length '
                 'and every filter output satisfying osc3): with R / D the rise / decay zero-crossings of the band-passed padded '
                 'signal, (1) the two crossing sequences strictly alternate (induction over the samples between two crossings), so '
                 'the inner scan of find_extrema stops at decay number q + c for rise q (c in {0,1}); (2) each located peak is the '
                 'FIRST maximum of the raw padded signal over [R[q], next decay) and each trough the first minimum over [D[t], next '
                 'rise) - loop invariants over both nested loops, incl. the re-sliced scan window; (3) after un-padding, the '
                 'boundary filter keeps a contiguous block of each sequence, aligned up to one element, and the first_extrema '
                 'trimming removes exactly the leading trough / trailing peak, so the result starts with a peak, alternates strictly, '
                 'has equally many (>= 2) peaks and troughs, all strictly inside the boundary; (4) every reported extremum is the '
                 'first extreme value of one half-wave closed by crossings on both sides, and consecutive reported extrema come from '
                 'consecutive half-waves (none skipped); (5) completeness at the ends: every half-wave whose sample window lies inside the '
                 'boundary has its extremum among the reported ones, except the single one the first_extrema rule removes at the front '
                 '(other kind first) or at the back (equal counts). All of this for first_extrema = "peak", "trough" and None (for None: '
                 'at least 3 peaks and 2 troughs, no trimming); any other first_extrema value raises ValueError (C19). No IndexError / empty-argmax on any path. NOT proved: half-waves that '
                 'only partly overlap the boundary region are decided by the position of their extremum (covered by the block argument, '
                 'not stated as a clause), the filter itself. Bounded: find_extrema with the filter replaced by every enumerated sign pattern '
                 'x raw signals with ties, all boundary / pad / first_extrema values, plus the real filter on the corpus.')

ZX = 'bycycle.cyclepoints.zerox.'
prop('C03', level='other', units=[ZX + 'find_zerox', ZX + '_find_flank_midpoints'], jobs=['find_zerox'],
     unit_jobs={ZX + 'find_zerox': ['find_zerox'], ZX + '_find_flank_midpoints': ['find_zerox']},
     explanation='Proved (all four orders of first extremum / count relation, unbounded): find_zerox returns one rise per '
                 'trough->peak flank and one decay per peak->trough flank, in temporal order, paired with the right extrema '
                 '(index bias), each midpoint inside its flank; the flank window is [start extremum, end extremum] inclusive; no index '
                 'error / empty-median for alternating extrema. find_flank_zerox is verified inline. The exact position is proved for an '
                 'ARBITRARY flank (per-iteration postcondition of the loop in _find_flank_midpoints, all four flank / index-bias '
                 'cases): with W the raw samples from the start to the end extremum and h the voltage halfway between them, the '
                 'midpoint is the start plus the temporal median, rounded down, of the samples just before W crosses h in the flank\'s '
                 'direction (<= h then > h for a rise, > h then <= h for a decay); the temporal centre of W when W is identically zero, '
                 'when the flank is inverted, or when h is never crossed that way. np.median is an uninterpreted reduction of the '
                 'crossing-index array (same array in code and clause), so what "median" means is assumed. Bounded cross-check: every '
                 'integer-valued signal over {-1,0,1,2} up to length 6 (7) x every alternating extrema sequence against an independent '
                 'reference.')

prop('C08', level='proof',
     units=[BU + 'check_min_burst_cycles'],
     lemmas=['minrun_monotone', 'minrun_props', 'minrun_idempotent'],
     jobs=['min_burst_cycles', 'armed'],
     unit_jobs={BU + 'check_min_burst_cycles': ['min_burst_cycles']},
     trusted=['assumed library contracts used by the proof: np.diff(prepend=0, append=0) on a boolean array (int differences), '
              'np.flatnonzero (strictly increasing indices of the non-zero entries, with its counting function), strided slices, '
              'boolean-mask selection sharing one index map, slice store; the induction principle over the integers for the two '
              'induction steps; the definition of the spec function minrun'],
     explanation='PROVED for every boolean array of every length and every min_n_cycles (unbounded): check_min_burst_cycles returns '
                 'the same array object, of the same length, with result[i] == minrun(old, m, i) (i lies in a window of True of '
                 'length >= m), raises ValueError iff the array is non-empty and m < 0, and never indexes out of range / mismatches '
                 'shapes (the number of transitions is even). The proof script (contracts/burst.py) has 30 explicit steps: parity of '
                 'the transition count by induction, monotonicity of the count by induction, run characterisation, maximality of '
                 'runs, the loop invariant over the cleared slices, and the window argument; every step is a quantifier-free '
                 'obligation with explicit instances, discharged in milliseconds. Lemmas over the definition: kept runs are whole '
                 'maximal runs of length >= m; no False -> True; m <= 1 identity; m > n clears; idempotence; monotonicity. Ends are '
                 'treated like the interior because no clause of minrun mentions them. The bounded job is a cross-check only.')

MIRROR = 'vlemma.relations.mirror_pair'
prop('C09', level='other',
     units=[MIRROR, F + 'shape.compute_shape_features', DF + 'rename_extrema_df', F + 'burst.compute_amp_consistency',
            F + 'burst.compute_monotonicity', F + 'burst.compute_burst_fraction', F + 'burst.compute_burst_features', CF],
     lemmas=['minrun_monotone'],
     jobs=['mirror', 'burst_features_small'],
     unit_jobs={MIRROR: ['mirror']},
     trusted=[EXTERNAL['amp'], EXTERNAL['dual'] + '; assumed even in the sign of the signal (it thresholds the analytic band amplitude)'],
     assumptions=['determinism of the cyclepoint search: the trough-centred analysis of x and the peak-centred analysis of -x hand the '
                  'same array (-x) and the same options to compute_cyclepoints, so their six sample columns coincide up to the '
                  'peak/trough renaming (definitional clause of the lemma harness, where both tables exist)',
                  'sequence algebra: negation commutes with slicing and differencing and flips comparison with 0; Series.rank '
                  'depends on the first n entries only'],
     explanation='Lemma over the contracts of compute_features (vlemma/relations.py: a harness that only calls compute_features for '
                 '(x, trough) and (-x, peak); both calls are replaced by the 82-case CONTRACT that C01 / C04 - C07 prove against the '
                 'code): given equal cyclepoints, the two tables have the same number of rows and every column of the trough-centred '
                 'table is the mirror image of the peak-centred one - time_peak / time_trough, time_rise / time_decay, volt_rise / '
                 'volt_decay swapped, extremum voltages negated, time_rdsym and time_ptsym replaced by one minus themselves (x / (x + y) = '
                 '1 - y / (x + y) over the extended reals), period, volt_amp, band_amp, amp_fraction (rank), amp_consistency (min/max '
                 'ratios are symmetric), period_consistency, monotonicity (rising steps of -x are falling steps of x), burst_fraction '
                 'equal, and is_burst identical (the qualifying masks are equal, hence their minimum-run filter) - for both burst '
                 'methods, with and without threshold / burst option dictionaries (6 typed cases, explicit-instance proof script). '
                 'The per-centring contracts themselves are proved against the code (compute_shape_features[trough], '
                 'rename_extrema_df, the centring-dependent branches of the burst features). Bounded: the two-run comparison on the '
                 'corpus with exact equality (job mirror), which also exercises the determinism assumption.')

prop('C10', level='other',
     units=[CF],
     jobs=['covariance'],
     explanation='Deductive part: the functional postconditions of compute_features mention fs and f_range only inside the external '
                 'functions (osc3, amp_by_time, dual_threshold) and the sign/order-based spec functions, so a stray unit dependence '
                 'fails C04/C05/C07 obligations. The covariance statement itself (two runs compared, powers of two, exact) is '
                 'bounded: corpus x centring x method x scale factors.')

GF = 'bycycle.group.features.'
BGF = 'bycycle.objs.fit.BycycleGroup.fit'
prop('C11', level='other',
     units=[GF + 'compute_features_2d', GF + '_proxy_2d', 'bycycle.group.utils.check_kwargs_shape', BGF,
            'bycycle.group.utils.progress_bar'],
     jobs=['group_2d'],
     unit_jobs={GF + 'compute_features_2d': ['group_2d'], BGF: ['group_2d']},
     no_input_kinds=('ensures', 'frame'),
     assumptions=['group level: an option list is a map position -> value with per-position mutation, i.e. its entries are assumed to be pairwise distinct objects (lists built as [opts] * n are covered by the bounded jobs; defect D15 lived exactly there)'],
     trusted=['multiprocessing.Pool.imap yields f(x_k) in input order whatever the number of workers and their completion '
              'order (assumed contract; imap_unordered is modelled as an arbitrary permutation)',
              'functools.partial, zip, deepcopy of option lists (new element objects); tqdm.tqdm(iterable, ...) yields the items of the '
              'iterable in its order (assumed; progress_bar itself is verified: both outcomes of the optional import are explored)'],
     explanation='Proved relative to the imap ordering contract, for every number of rows and every n_jobs: '
                 'compute_features_2d(axis=0) returns len(sigs) tables and position i is CF(sigs[i], fs, f_range, return_samples, '
                 'options of row i minus return_samples) for a shared dict, None and a per-row list (the one-element-list branch '
                 'included), with progress None and tqdm; the caller\'s option objects are untouched (frame obligation on the '
                 'in-place pops: they hit the deep copy); a per-row list of the wrong length and every axis other than 0 / None '
                 'raise ValueError. CF is the uninterpreted per-signal analysis (compute_features itself is verified under C01-C07). '
                 'Independence of worker completion order inside multiprocessing is inherited from the imap contract; the bounded '
                 'job perturbs completion order with injected delays. BycycleGroup.fit (2-D): proved - the five settings reach '
                 'compute_features_2d as one option set (the dict literal as an injective-by-name constructor over opaque values), its '
                 'result is stored, and models[i] is a Bycycle object with the group\'s settings loaded with df_features[i] and sigs[i] '
                 '(group-level view of the constructor and of load).')

prop('C12', level='other',
     units=[GF + 'compute_features_3d', GF + 'compute_features_2d', GF + '_proxy_3d', 'bycycle.group.utils.check_kwargs_shape', BGF],
     jobs=['group_3d', 'kwargs_shape'],
     unit_jobs={GF + 'compute_features_3d': ['group_3d'], GF + '_proxy_3d': ['group_3d'], BGF: ['group_3d']},
     no_input_kinds=('ensures', 'frame'),
     explanation='Proved for all extents (n0, n1), size-1 dimensions included: with axis=(0,1) the nested result has n0 rows and '
                 'entry [i][j] is CF(sigs[i][j], options at [i][j]) for a shared dict, None and a 2-D option list - through the '
                 'reshape contract (row-major), the callee contract of compute_features_2d and two nested loop invariants over the '
                 'copy-back index i*n1 + j (the i + j index of the pinned tree fails inv-keep with the model n1 = 2, (i, j) = (1, 0)); '
                 'wrong option-list shapes raise ValueError. With axis=0 entry [i][j] is table j of the epoched analysis of '
                 'the slice sigs[i] (= epoch_of(CF(flat(sigs[i]), ..., return_samples=True, options of slice i), n2, j), the statement '
                 'proved for compute_features_2d(axis=None) and carried by the contract of _proxy_3d), with axis=1 entry [i][j] is '
                 'table i of the epoched analysis of sigs[:, j] - through swapaxes, the per-slice pairing zip(sigs, kwargs) with a '
                 'shared option set repeated once per slice, the ordered imap contract and the final zip(*...) transposition; shared '
                 'dict, None and per-slice 1-D lists. BycycleGroup.fit on 3-D input: df_features[i][j] is the entry the group '
                 'function puts there and models[i][j] a model loaded with df_features[i][j] and sigs[i][j], for all three axis values '
                 '(two nested loop invariants). The bounded job repeats all of this on shapes up to 2x2 (3x3) against '
                 'independent per-slice calls.')

prop('C13', level='other', units=[DF + 'epoch_df', GF + 'compute_features_2d'], jobs=['epoch_df', 'group_epoched'],
     lemmas=['epoch_partition'],
     unit_jobs={DF + 'epoch_df': ['epoch_df'], GF + 'compute_features_2d': ['group_epoched']},
     no_input_kinds=('ensures', 'frame'),
     explanation='Proved for an ARBITRARY epoch e and any number of epochs / rows (per-iteration postcondition of the loop in '
                 'epoch_df): the window is (e*L, (e+1)*L] on the closing side extremum; the table built for it consists of exactly '
                 'the cycles whose closing extremum lies in the window, in the original order, every value unchanged, every sample_* '
                 'column reduced by e*L; the input table is untouched (frame). Lemma epoch_partition (pure integer arithmetic, five '
                 'steps): for N = ceil(n / L) windows - the ones np.arange(L, n + L, L) yields - every closing sample 0 < s <= N*L lies '
                 'in exactly one window (e = (s - 1) div L; no second one), and the windows cover the signal: with the per-epoch '
                 'postcondition, every cycle of the flattened analysis appears in exactly one epoch, the one containing its closing '
                 'extremum. That the tables are collected in epoch order is bounded (exhaustive small tables incl. boundaries on '
                 'cycle ends and empty epochs). compute_features_2d(axis=None), proved over opaque signals / option sets / tables for any '
                 'number of rows: the result has one entry per row and entry e is epoch_df\'s table e (epoch length = row length) of '
                 'ONE analysis of the concatenated rows with return_samples=True and the given options (popping center_extrema and '
                 'passing it back explicitly is the identity: its default is read from compute_features\' real signature); with a '
                 'per-epoch list the flattened analysis uses the first option set and entry e is then re-labelled by the detector '
                 'named in option set e (default cycles) with option set e\'s own thresholds (loop invariant over the in-place pops '
                 'and stores; dictionary laws get_k(drop_k2(o)) = get_k(o) as axioms). The bounded job group_epoched compares with the '
                 'flattened analysis + epoch_df on real signals.')

OB = 'bycycle.objs.fit.'
prop('C14', level='other',
     units=[OB + 'Bycycle.fit', OB + 'BycycleBase.reduce_thresholds', OB + 'BycycleBase.__init__', CF, BGF,
            OB + 'Bycycle.recompute_edges', OB + 'Bycycle.load', OB + 'Bycycle.__getattr__', OB + 'BycycleGroup.recompute_edges'],
     jobs=['objects', 'group_2d', 'group_3d'],
     unit_jobs={BGF: ['group_2d', 'group_3d']},
     explanation='Proved: Bycycle.fit hands exactly the stored settings (the very same option objects, positionally in the right '
                 'order) and the given signal / fs / band to compute_features and stores its result, for every typed setting '
                 'combination; the stored option dictionaries are not modified (compute_features has an empty frame); '
                 'reduce_thresholds returns a new dictionary with every *threshold key lowered by r and all others equal; the '
                 'constructor expands every shorthand name, keeps full names and min_n_cycles, and installs the documented defaults '
                 '(three representative names in both spellings plus min_n_cycles: 2^7 presence patterns). Since fit reads nothing but the current settings and its arguments, "a fit yields what a '
                 'fresh object with the current settings yields" follows for every history. BycycleGroup.fit: models mirror df_features and sigs '
                 'position by position for 2-D and 3-D input (proved at group level, see C11 / C12). Bycycle.recompute_edges(r): the functional recompute_edges is called on the stored '
                 'table with the dictionary that reduce_thresholds returns - every *_threshold lowered by r, min_n_cycles unchanged, key '
                 'by key - and its result replaces the stored table; load stores the very objects it is given; attribute access '
                 'returns the values of the named column, in order, and raises AttributeError for an unknown name or an unfitted object. '
                 'BycycleGroup.recompute_edges applies recompute_edges(reduction) to every model exactly once, in place (2-D and 3-D, '
                 'group level). Bounded: whole operation sequences (incl. refits with the same array object).')

prop('C15', level='other',
     units=[CF, F + 'shape.compute_shape_features', F + 'shape.compute_durations', F + 'shape.compute_extrema_voltage',
            F + 'shape.compute_symmetry', F + 'shape.compute_band_amp', F + 'cyclepoints.compute_cyclepoints',
            F + 'burst.compute_burst_features', F + 'burst.compute_amp_fraction', F + 'burst.compute_amp_consistency',
            F + 'burst.compute_period_consistency', F + 'burst.compute_monotonicity', F + 'burst.compute_burst_fraction',
            DF + 'drop_samples_df', DF + 'epoch_df', DF + 'limit_df', GF + 'compute_features_2d', GF + 'compute_features_3d', BU + 'recompute_edges'],
     jobs=['purity', 'pipeline:C15', 'armed', 'limit_df', 'epoch_df', 'armed_limit'],
     no_input_kinds=('frame',),
     explanation='Frame obligations (modifies = []) at every store and mutating call of the listed feature functions: a store must '
                 'reach an object allocated on the path (library allocation behaviour from the assumed numpy / pandas-3 copy-on-write '
                 'contracts); also compute_features_2d(axis=0), compute_features_3d(axis=(0,1)) and recompute_edges. Not under contract: '
                 'the axis=None / axis 0,1 group paths, plotting functions - '
                 'these are covered by the bounded purity job (call sequences sharing argument objects, deep comparison).')

prop('C16', level='other',
     units=[BU + 'recompute_edge', BU + 'recompute_edges', F + 'burst.compute_amp_consistency',
            F + 'burst.compute_period_consistency', 'bycycle.burst.cycle.detect_bursts_cycles', BU + 'check_min_burst_cycles'],
     lemmas=['minrun_monotone'], jobs=['recompute_edges'],
     unit_jobs={BU + 'recompute_edge': ['recompute_edges'], BU + 'recompute_edges': ['recompute_edges']},
     explanation='Proved: recompute_edge replaces exactly the two consistency cells of the given row by the one-sided C05 values '
                 'computed on its three-row window (NaN at the table ends), writes them INTO the table (the copy-on-write chained '
                 'assignment of the pinned tree fails this obligation), and changes nothing else; recompute_edges returns a new '
                 'table, leaves the input table and the thresholds untouched (frame obligations), keeps every column other than the '
                 'two consistencies and is_burst, and labels by the threshold-and-run rule applied to the edited table; growing q keeps '
                 'old labels (lemma minrun_monotone). WHICH rows are edited is proved for an ARBITRARY burst (per-iteration postcondition, '
                 'for tables whose first cycle is not a burst - what C06 guarantees): the change points of is_burst alternate rising / '
                 'falling (parity of the number of changes before a position, by induction), the two comprehensions pick the even- / '
                 'odd-numbered change points, so the rows handed to recompute_edge are the cycle immediately before the burst '
                 '(recomputed looking forward) and the cycle immediately after it (looking backward), and after the iteration both '
                 'rows carry exactly the one-sided C05 values (NaN at the table ends). Bounded cross-check: synthetic tables with every '
                 'is_burst pattern up to 6 (8) rows and corpus tables.')

prop('C17', level='other', units=['bycycle.cyclepoints.phase._merge_phases', 'bycycle.cyclepoints.phase.extrema_interpolated_phase'],
     jobs=['phase'],
     unit_jobs={'bycycle.cyclepoints.phase._merge_phases': ['phase'],
                'bycycle.cyclepoints.phase.extrema_interpolated_phase': ['phase']},
     trusted=[EXTERNAL['interp']],
     assumptions=['np.interp (assumed library contract, see trusted base); real arithmetic for the interpolated values; the proved '
                  'cases take alternating extrema at least two samples apart, all inside the signal (the property\'s quantifier)'],
     explanation='Proved for extrema_interpolated_phase, for every signal length, without midpoints (rises = decays = None), with '
                 'both kinds of midpoints and with either kind alone (one per flank, anywhere in its closed flank - the postcondition of find_zerox - so a '
                 'midpoint may sit on an extremum), for every alternating peak / trough placement with gaps >= 2 (either kind '
                 'first, equal counts or one more of the first kind): the result has one value per sample, is exactly 0 at every '
                 'peak and +-pi at every trough, -pi/2 at every rise and +pi/2 at every decay midpoint that does not sit on one of '
                 'the two extrema of its flank, finite and within [-pi, pi] on the whole span from the first to the last '
                 'cyclepoint, NaN outside it, and result[i + 1] >= result[i] unless i + 1 is a trough - the clauses of the '
                 'property, each a postcondition. The argument (60 - 70 small obligations per case, contracts/phase_eip.py): the '
                 'cyclepoints in temporal order are a non-decreasing slot sequence (induction), extrema strictly apart; the '
                 'scattered stores put finite anchors exactly on the slots and the later store wins (membership predicate of an '
                 'integer-array store with witness; moving the midpoint stores after the extremum stores fails here); no sample '
                 'between two consecutive slots survives the NaN mask, so consecutive distinct slots are consecutive sample '
                 'points of np.interp (counting function of the mask selection, three inductions); each branch series is exact at '
                 'the slots, constant outside them and strictly monotone on each slot interval (assumed contract of np.interp); the '
                 'precondition of _merge_phases holds at the call (finite, rises at the first slot); its first rising step and last '
                 'non-zero step are the first and last cyclepoint. '
                 'Proved for _merge_phases (all lengths, all finite branch series that rise somewhere): the result has the input '
                 'length, equals the merged series (+pi branch where the -pi branch is about to decrease) from the first rising step '
                 'up to and including the sample the last non-zero step leads to, is NaN before and after, that first step rises, the '
                 'step into the last unmasked sample is non-zero and all later steps are zero; no StopIteration (explicit witnesses); '
                 'slice bounds in range (the negative computed slice start of the pinned tree fails these obligations). '
                 'Bounded only: extrema closer than two samples (outside the property). The '
                 'bounded job (every alternating placement with gaps >= 2 on arrays up to length 9 (12) with every midpoint '
                 'placement, plus corpus cyclepoints at several boundaries) also evaluates the proved contract text on every real call.')

prop('C18', level='other', units=[DF + 'drop_samples_df', DF + 'limit_df', DF + 'split_samples_df', 'bycycle.utils.timeseries.limit_signal',
                                  DF + 'flatten_dfs'], jobs=['limit_df', 'limit_signal', 'samples_split_flatten', 'armed_limit'],
     unit_jobs={DF + 'limit_df': ['limit_df', 'armed_limit'], 'bycycle.utils.timeseries.limit_signal': ['limit_signal'],
                DF + 'split_samples_df': ['samples_split_flatten'], DF + 'flatten_dfs': ['samples_split_flatten']},
     explanation='Proved: drop_samples_df (column partition, values unaltered) and limit_df - for tables of any length whose '
                 'cycles close after they open (C01), both centrings, either limit optional: the result consists of rows of the '
                 'input in their original order, every value unchanged, every cycle entirely inside [start, stop] among them and '
                 'none entirely outside, all six sample columns lowered by the one offset int(round(fs * start)) when reset_indices '
                 'is set and by nothing otherwise; out-of-range fs / start / stop raise ValueError (witness index map composed of '
                 'the two mask selections, explicit instances; np.round(x, 6) as a nearest multiple of 1e-6 over the reals - the '
                 'floating-point side of the comparison, defect D13, stays with the bounded job); limit_signal - both returned arrays are exactly the entries with '
                 'start <= t < stop, in order (same witness construction over the two array selections); split_samples_df - the '
                 'sample_* columns are popped out of the input table into a second one, no value altered; flatten_dfs (group level, '
                 'tables and labels opaque) - the result is the row-wise concatenation of the tables in list order (row-major for 2-D '
                 'lists) and table i (table [i][j]) is the given one with the label column set to labels[i] (the row-major label '
                 'number i * n1 + j), a wrong label count raises ValueError. Bounded: all of these again on small grids, off-grid and '
                 'large-index windows; what concat and a scalar column assignment do inside pandas.')

PL = 'bycycle.plts.cyclepoints.'
prop('C20', level='other', units=[PL + 'plot_cyclepoints_array', PL + 'plot_cyclepoints_df', 'bycycle.objs.fit.Bycycle.plot',
                                  'bycycle.plts.burst.plot_burst_detect_param', 'bycycle.plts.burst.plot_burst_detect_summary'], jobs=['plots', 'limit_df', 'limit_signal'],
     unit_jobs={PL + 'plot_cyclepoints_array': ['plots'], PL + 'plot_cyclepoints_df': ['plots']},
     trusted=['bycycle.plts.burst.plot_burst_detect_summary as a callee of Bycycle.plot: bound against its real signature and logged, not '
              'verified (returns None, raises nothing, changes none of its arguments - assumed; decided by the bounded plots job)',
              'neurodsp.plts.plot_time_series: nothing is assumed about it; its calls and arguments are logged as ghost state and '
              'the contracts state what is handed to it (a call with ls=\'\' is "the marker call"); the @savefig decorator is dropped',
              'matplotlib Axes.axvspan on the opaque drawing surface: external, only logged', 'scipy.stats.zscore: an unconstrained real array of the input\'s length; matplotlib.pyplot.subplots: opaque figure / axes; neurodsp plot_bursts: logged', 'np.unique(a): strictly increasing, every entry occurs in a, every entry of a occurs in it (assumed library contract)'],
     assumptions=['the time grid np.arange(0, n / fs, 1 / fs) is taken as the exact grid i / fs over the reals and (i / fs) * fs as i: the '
                  'floating-point behaviour of the grid (where D10, D12 - D14 lived) is NOT covered by the deductive part; it stays with '
                  'the bounded job'],
     explanation='Proved for every signal, rate and cyclepoint arrays, without x-limits and with x-limits ON THE SAMPLE GRID (first / fs, '
                 'stop / fs) for any two integers 0 <= first < stop <= len(sig) - the quantifier of the statement: '
                 'plot_cyclepoints_array (15 typed cases: limits, which kinds are given, plot_sig) hands the marker call one (x, y) '
                 'series per given kind, in the order peaks / troughs / rises / decays, and the series of a kind consists of '
                 'cyclepoints of that kind only, in order, each at (sample / fs, value of the ORIGINAL signal at that sample), '
                 'including every cyclepoint strictly inside the view - the displayed sample range [first, stop - 1] (whether a '
                 'cyclepoint exactly on its first or last sample is drawn is left open: four boundary conventions); all indexing in '
                 'range. Under limits the argument is: the two successive mask selections of limit_signal (executed in place) keep '
                 'exactly the samples first .. stop - 1 (counting functions of the two selections, one induction each), so entry j of '
                 'the limited arrays is entry first + j of the originals and the index shift int(round(times[0] * fs)) is first. '
                 'plot_cyclepoints_df (20 cases: both centrings x the kind switches x plot_sig x limits) passes to the array version '
                 'the centre extremum column of the table\'s own centring as first kind, the sorted union of the opening and closing '
                 'side extrema as second kind (each value once, nothing else), the rise / decay columns as third / fourth, None for a '
                 'kind switched off, and the signal, rate and limits unchanged - the trough-centred column names of the statement. '
                 'Bycycle.plot: unfitted -> ValueError; fitted -> the summary plot receives the model\'s own table, signal, rate and '
                 'thresholds and the caller\'s limits, figure size and switches, each in its right position (the summary plot itself is '
                 'only logged here: assumed to return None, raise nothing and change nothing). '
                 'plot_burst_detect_param without x-limits (both centrings): with interp=True the panel\'s marker series is the '
                 'parameter\'s per-cycle values at the cycle centres (sample / fs, the centre column of the table\'s own centring); '
                 'with interp=False it is, per cycle, the value drawn as a step from the opening to the closing side extremum (loop '
                 'invariant over the two arrays that every iteration re-binds to longer ones); the threshold line spans the time '
                 'axis at the given threshold; all indexing in range given the table invariant (side extrema inside the signal). '
                 'plot_burst_detect_summary without x-limits (both centrings, with and without the parameter panels, both interp settings, two '
                 'thresholds given): the sample mask handed to plot_bursts has one entry per sample, the time axis is sample / fs, '
                 'and the mask is true on ALL samples of every cycle labelled is_burst (from its opening to its closing side extremum, '
                 'inclusive) and ONLY on samples of such cycles (loop invariant over the bursting rows, lifted to the whole table '
                 'through the row selection); the last parameter panel is drawn from the same table with its own column and '
                 'threshold. The zscore, the figure / axes and the drawing routines are external (logged, nothing assumed). '
                 'The extra keyword arguments of the plot functions (xlabel, ylabel, colors / color, figsize) are part of every typed '
                 'case, each present or absent (colours as a pair of opaque values): they are popped and handed on without touching '
                 'the marker series. '
                 'Bounded only: x-limits off the grid, the burst summary and the parameter panels under x-limits, other extra keywords, the floating-point side of the grid (D12 - D14), plot_burst_detect_summary / '
                 '_param / Bycycle.plot (burst mask, parameter panels, threshold lines): the arguments handed to the drawing routines '
                 'are intercepted on corpus tables x sample-grid windows incl. low-truncating grid points and windows on cycle '
                 'boundaries; rendered artists are not inspected.')
