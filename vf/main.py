"""check driver:  check <Cxx> [--tier quick|thorough] [--replay file]

Exit 0 held / 1 violation (VIOLATION line + replay file) / 2 undecided / 3 checker error.
"""
import argparse
import json
import multiprocessing as mp
import os
import subprocess
import sys
import time

HERE = os.path.dirname(os.path.dirname(os.path.abspath(__file__)))
sys.path.insert(0, HERE)

from vf import unit as unitmod            # noqa: E402
from vf import lemmas as lemmamod         # noqa: E402
from vf.props import PROPS, TRUSTED_BASE, ASSUMPTIONS  # noqa: E402

VENV_PY = '/venv/bin/python'


def log(*a):
    print(*a, flush=True)


def start_rtc(jobs, tier, seed, out_path, budget=None):
    if not jobs:
        return None
    cmd = [VENV_PY, '-m', 'rtc.run', '--jobs', ','.join(jobs), '--tier', tier, '--seed', str(seed), '--out', out_path]
    if budget:
        cmd += ['--budget', str(budget)]
    env = dict(os.environ)
    env['PYTHONPATH'] = HERE
    env.setdefault('MPLBACKEND', 'Agg')
    cj = os.path.join(HERE, 'evidence', '.contracts.json')
    if any(j.startswith('armed') or j == 'phase' for j in jobs):
        unitmod.export_all(cj)
    env['VF_CONTRACTS_JSON'] = cj
    for v in ('OMP_NUM_THREADS', 'OPENBLAS_NUM_THREADS', 'MKL_NUM_THREADS', 'NUMEXPR_NUM_THREADS'):
        env[v] = '1'                  # thread pools of the numerical libraries do not survive the forks of the group functions
    return subprocess.Popen(cmd, cwd=HERE, env=env, stdout=subprocess.PIPE, stderr=subprocess.PIPE, text=True,
                            start_new_session=True)


def finish_rtc(p, limit_s):
    """wait for the run-time side; whatever happens, none of its (grand)children is left behind"""
    import signal
    try:
        out, err = p.communicate(timeout=limit_s)
        timed_out = False
    except subprocess.TimeoutExpired:
        timed_out = True
        out, err = '', 'run-time side exceeded %d s and was stopped' % limit_s
    try:
        os.killpg(p.pid, signal.SIGKILL)          # stragglers of nested pools
    except (ProcessLookupError, PermissionError, OSError):
        pass
    if timed_out:
        try:
            p.communicate(timeout=10)
        except Exception:
            pass
    return out, err


def load_known():
    p = os.path.join(HERE, 'known_findings.json')
    try:
        with open(p) as f:
            return json.load(f)
    except Exception:
        return {'known': [], 'fixed': []}


def matches_known(known, pid, signature):
    for k in known.get('known', []):
        if k.get('property') == pid and k.get('match') and k['match'] in signature:
            return k
    return None


def write_replay(pid, n, doc):
    d = os.path.join(HERE, 'replays')
    os.makedirs(d, exist_ok=True)
    p = os.path.join(d, '%s_%d.json' % (pid, n))
    with open(p, 'w') as f:
        json.dump(doc, f, indent=1, default=str)
    return p


def do_replay(path):
    with open(path) as f:
        doc = json.load(f)
    if doc.get('job') or doc.get('kind') == 'model':
        env = dict(os.environ)
        env['PYTHONPATH'] = HERE
        r = subprocess.run([VENV_PY, '-m', 'rtc.run', '--replay', path], cwd=HERE, env=env, text=True,
                           capture_output=True)
        print(r.stdout.strip())
        if r.returncode not in (0, 1):
            print(r.stderr[-2000:])
        return r.returncode
    print('replay file carries no concrete input (obligation %s): solver output follows' % doc.get('obligation'))
    print(doc.get('solver_output', ''))
    return 1


def run_units(tasks, procs):
    if not tasks:
        return []
    ctx = mp.get_context('fork')
    with ctx.Pool(min(procs, len(tasks))) as pool:
        return pool.map(_dispatch_task, tasks, chunksize=1)


def _dispatch_task(task):
    if task['kind'] == 'function':
        return unitmod.run_function_case(task)
    return lemmamod.run_lemma(task)


def build_tasks(cfg, tier, overrides=None):
    contracts = unitmod.load_contracts()
    tasks = []
    for qual in cfg.get('units', []):
        c = contracts.get(qual)
        if c is None:
            tasks.append({'kind': 'function', 'qual': qual, 'case_index': 0, 'overrides': overrides})
            continue
        for k in range(len(c.get('cases') or [{}])):
            tasks.append({'kind': 'function', 'qual': qual, 'case_index': k, 'overrides': overrides,
                          'both': tier == 'thorough', 'timeout_ms': 10000 if tier == 'quick' else 20000})
    for name in cfg.get('lemmas', []):
        tasks.append({'kind': 'lemma', 'name': name, 'both': tier == 'thorough'})
    return tasks


def run_canaries(pid, cfg, tier, procs):
    """apply deliberate breakages to the in-memory source text; every one must fail a named obligation"""
    from vf.canaries import CANARIES
    from vf.sources import Sources
    results = []
    mine = [c for c in CANARIES if pid in c['props']]
    if tier == 'quick':
        mine = mine[:cfg.get('quick_canaries', 2)]
    all_tasks = []
    for ci, c in enumerate(mine):
        src = Sources()
        mi = src.module(c['module'])
        with open(mi.path) as f:
            text = f.read()
        if text.count(c['old']) != 1:
            results.append({'canary': c['name'], 'status': 'stale', 'why': 'anchor text occurs %d times' % text.count(c['old'])})
            continue
        new_text = text.replace(c['old'], c['new'])
        tasks = [t for t in build_tasks({'units': c['units']}, 'quick', overrides={c['module']: new_text})]
        if c.get('case_indices') is not None:
            tasks = [t for t in tasks if t.get('case_index') in c['case_indices']]      # (one typed case is enough to fail)
        for t in tasks:
            t['timeout_ms'] = 3000          # a canary only has to FAIL an obligation; no need to wait for long timeouts
            t['no_cvc5'] = True
            t['stop_on_fail'] = True
            t['canary'] = ci
        all_tasks += tasks
    recs_all = run_units(all_tasks, procs)
    for ci, c in enumerate(mine):
        recs = [r for t, r in zip(all_tasks, recs_all) if t.get('canary') == ci]
        if not recs:
            continue
        failed = [o['name'] for r in recs for o in r['obligations'] if o['status'] != 'unsat']
        unsupported = [r['why'] for r in recs if r['status'] != 'ok']
        results.append({'canary': c['name'], 'status': 'caught' if failed else ('unsupported' if unsupported else 'MISSED'),
                        'failed_obligations': failed[:5], 'why': '; '.join(unsupported)[:300]})
    return results


def main():
    ap = argparse.ArgumentParser()
    ap.add_argument('prop')
    ap.add_argument('--tier', default=os.environ.get('VERIF_TIER', 'quick'))
    ap.add_argument('--replay', default=None)
    ap.add_argument('--procs', type=int, default=16)
    ap.add_argument('--no-canaries', action='store_true')
    a = ap.parse_args()
    if a.replay:
        return do_replay(a.replay)
    pid = a.prop
    tier = a.tier if a.tier in ('quick', 'thorough') else 'quick'
    seed = int(os.environ.get('VERIF_SEED', '0') or 0)
    t0 = time.time()
    if pid not in PROPS:
        log('UNDECIDED property=%s no check registered' % pid)
        return 2
    cfg = PROPS[pid]
    os.makedirs(os.path.join(HERE, 'evidence'), exist_ok=True)
    tmp_out = os.path.join(HERE, 'evidence', '.%s.rtc.json' % pid)
    jobs = list(cfg.get('jobs', []))
    rtc = start_rtc(jobs, tier, seed, tmp_out, budget=cfg.get('budget', {}).get(tier))

    # ---------------- deductive side
    tasks = build_tasks(cfg, tier)
    recs = run_units(tasks, a.procs)
    obligations = [dict(o, unit=r['unit'], case=r.get('case')) for r in recs for o in r['obligations']]
    n_ob = len(obligations)
    discharged = [o for o in obligations if o['status'] == 'unsat']
    open_obs = [o for o in obligations if o['status'] != 'unsat']
    bad_units = [r for r in recs if r['status'] != 'ok']
    by_backend = {}
    solver_time = 0.0
    for o in obligations:
        by_backend[o['backend']] = by_backend.get(o['backend'], 0) + (1 if o['status'] == 'unsat' else 0)
        solver_time += o.get('time', 0.0)
    disagreements = [o for o in obligations if o['status'] == 'unsat' and o.get('cvc5') == 'sat']

    # ---------------- canaries
    canaries = [] if a.no_canaries else run_canaries(pid, cfg, tier, a.procs)

    # ---------------- bounded side
    rtc_results = []
    rtc_err = ''
    if rtc is not None:
        out, err = finish_rtc(rtc, 2400 if tier == 'quick' else 7200)
        try:
            with open(tmp_out) as f:
                rtc_results = json.load(f)
            os.unlink(tmp_out)
        except Exception:
            rtc_err = (err or '')[-1500:]
    failures = [f for r in rtc_results for f in r.get('failures', [])]
    checker_errors = [e for r in rtc_results for e in r.get('errors', [])]

    # ---------------- escalate: undischarged obligations with no concrete witness yet -> thorough stand-in
    proof_lost = []
    unit_jobs = cfg.get('unit_jobs', {})
    if (open_obs or bad_units) and not failures:
        need = set()
        for o in open_obs:
            for j in unit_jobs.get(o['unit'], jobs):
                need.add(j)
        for r in bad_units:
            for j in unit_jobs.get(r['unit'], jobs):
                need.add(j)
        if need and tier == 'quick':
            log('escalating bounded jobs to the thorough bound for: %s' % ', '.join(sorted(need)))
            p2 = start_rtc(sorted(need), 'thorough', seed, tmp_out, budget=120)
            finish_rtc(p2, 1800)
            try:
                with open(tmp_out) as f:
                    extra = json.load(f)
                os.unlink(tmp_out)
                for r in extra:
                    r['escalated'] = True
                rtc_results += extra
                failures = [f for r in rtc_results for f in r.get('failures', [])]
                checker_errors = [e for r in rtc_results for e in r.get('errors', [])]
            except Exception:
                pass

    known = load_known()
    violations = []
    known_lines = []
    nrep = 0
    # ---------------- replay solver counter-models on the real code
    model_replays = []
    for o in open_obs:
        if o.get('replay_args') is None or len(model_replays) >= 12:
            continue
        doc = {'kind': 'model', 'property': pid, 'unit': o['unit'], 'obligation': o['name'], 'solver': o.get('backend'),
               'args': o['replay_args'], 'contract': o['replay_case'], 'solver_output': (o.get('model') or '')[:1500],
               'replay_cmd': './check %s --replay <this file>' % pid}
        path = write_replay(pid, 900 + len(model_replays), doc)
        env = dict(os.environ)
        env['PYTHONPATH'] = HERE
        r = subprocess.run([VENV_PY, '-m', 'rtc.run', '--replay', path], cwd=HERE, env=env, text=True, capture_output=True)
        verdict = {0: 'passes', 1: 'fails', 4: 'skipped'}.get(r.returncode, 'error')
        model_replays.append({'obligation': o['name'], 'verdict': verdict, 'output': r.stdout.strip()[-300:]})
        o['model_replay'] = verdict
        if r.returncode == 1:
            sig = json.dumps({'unit': o['unit'], 'obligation': o['name']}, sort_keys=True)
            k = matches_known(known, pid, sig)
            if k:
                known_lines.append('KNOWN-FINDING: property=%s %s' % (pid, k.get('what', k['match'])))
            else:
                violations.append((path, {'what': 'counter-model of %s replays on the real code: %s' % (o['name'], r.stdout.strip()[-250:])}, ''))
        else:
            try:
                os.unlink(path)
            except OSError:
                pass
    for f in failures:
        sig = json.dumps(f, sort_keys=True, default=str)
        k = matches_known(known, pid, sig)
        if k:
            known_lines.append('KNOWN-FINDING: property=%s %s' % (pid, k.get('what', k['match'])))
            continue
        nrep += 1
        related = [o['name'] for o in open_obs][:10]
        path = write_replay(pid, nrep, dict(f, property=pid, failed_obligations=related,
                                            replay_cmd='./check %s --replay <this file>' % pid))
        violations.append((path, f, ''))
    if not failures and not violations:
        for o in open_obs:
            # a definite counter-model for an obligation whose falsification replay cannot force
            if o['status'] == 'sat' and o['kind'] in cfg.get('no_input_kinds', ('frame',)):
                nrep += 1
                path = write_replay(pid, nrep, {'property': pid, 'obligation': o['name'], 'unit': o['unit'],
                                                'solver_output': o.get('model'), 'job': None})
                violations.append((path, o, ' no-failing-input-found'))
            else:
                proof_lost.append(o)

    # ---------------- verdict
    exit_code = 0
    for line in sorted(set(known_lines)):
        log(line)
    for o in proof_lost:
        log('PROOF-LOST property=%s obligation=%s status=%s (no failing input in the bounded scope; level downgraded to bounded for this run)'
            % (pid, o['name'], o['status']))
    for r in bad_units:
        log('PROOF-LOST property=%s unit=%s %s: %s' % (pid, r['unit'], r['status'], r['why'][:200]))
        if r['status'] == 'crash':
            try:
                with open(os.path.join(HERE, 'evidence', '.crash_%s.log' % pid), 'a') as f:
                    f.write('%s [%s]\n%s\n\n' % (r['unit'], r.get('case'), r['why']))
            except OSError:
                pass
    for path, f, suffix in violations:
        log('VIOLATION property=%s replay=%s%s' % (pid, path, suffix))
        what = f.get('what') if isinstance(f, dict) and 'what' in f else f.get('name')
        log('  what: %s' % str(what)[:300])
        exit_code = 1
    # a canary whose anchor text is gone means the source it edits was changed (e.g. a refactoring): it says nothing about
    # the checker any more and is skipped with a note; only a canary that applies and is NOT caught is a checker error
    for c in canaries:
        if c['status'] == 'stale':
            log('NOTE canary %s skipped: %s (the source text it edits has changed)' % (c['canary'], c.get('why', '')))
    missed = [c for c in canaries if c['status'] == 'MISSED']
    if exit_code == 0:
        if checker_errors or disagreements or rtc_err or missed:
            for e in checker_errors[:3]:
                log('CHECKER-ERROR %s' % json.dumps(e, default=str)[:400])
            for o in disagreements[:3]:
                log('CHECKER-ERROR solver disagreement on %s' % o['name'])
            for c in missed:
                log('CHECKER-ERROR canary %s %s %s' % (c['canary'], c['status'], c.get('why', '')))
            if rtc_err:
                log('CHECKER-ERROR rtc: %s' % rtc_err)
            exit_code = 3
        elif n_ob == 0 and not rtc_results:
            log('UNDECIDED property=%s: zero obligations and no bounded job ran' % pid)
            exit_code = 2

    # ---------------- evidence
    level = cfg['level']
    downgraded = bool(proof_lost or bad_units)
    if downgraded and level == 'proof':
        level = 'other'
    evals = sum(r.get('evaluations', 0) for r in rtc_results)
    nontriv = sum(r.get('distinct_nontrivial', 0) for r in rtc_results)
    functions = sorted({(r['unit'], r.get('file'), r.get('module_sha256')) for r in recs if r.get('file')})
    cov = {
        'obligations': n_ob,
        'discharged': len(discharged),
        'checker_cmd': './check %s --tier %s' % (pid, tier),
        'trusted_base': TRUSTED_BASE + cfg.get('trusted', []),
        'explanation': cfg['explanation'] + (' [this run: downgraded, %d obligation(s) not discharged]' % (len(proof_lost) + len(bad_units)) if downgraded else ''),
        'discharged_by_backend': by_backend,
        'solver_time_s': round(solver_time, 3),
        'functions_under_contract': [{'function': u, 'file': f, 'module_sha256': h} for u, f, h in functions],
        'units': [{'unit': r['unit'], 'case': r.get('case'), 'status': r['status'], 'paths': r.get('paths'),
                   'obligations': len(r['obligations']), 'wall_s': r.get('wall_s'), 'why': r.get('why', '')[:200]}
                  for r in recs][:400],
        'undischarged': [{'name': o['name'], 'status': o['status'], 'cvc5': o.get('cvc5')} for o in open_obs][:50],
        'bounded_jobs': [{k: r.get(k) for k in ('job', 'bound', 'evaluations', 'distinct_nontrivial', 'exhaustive',
                                                'truncated', 'wall_s', 'escalated')} for r in rtc_results],
        'bounded_note': 'bounded jobs are stand-ins / cross-checks; they contribute nothing to "discharged"',
        'canaries': canaries,
        'definitional_clauses': sorted({d for r in recs for d in (r.get('stats') or {}).get('definitions', [])})[:20],
        'model_replays': model_replays,
        'evaluations': max(evals, 1) if rtc_results else n_ob,
        'distinct_nontrivial': nontriv if rtc_results else len({o['name'] for o in obligations}),
        'rule': 'obligations: one per named verification condition generated from the current /repo sources; '
                'bounded cases: distinct by JSON of the generated input, non-trivial by the job\'s own predicate',
        'samples': ([o['name'] for o in obligations[:6]] + [s for r in rtc_results for s in r.get('samples', [])[:1]])[:10] or ['none'],
        'exhaustive': False,
    }
    ev = {'property_id': pid, 'tier': tier, 'seed': seed, 'level': level, 'coverage': cov,
          'assumptions': ASSUMPTIONS + cfg.get('assumptions', []),
          'wall_s': round(time.time() - t0, 2), 'violations': len(violations)}
    with open(os.path.join(HERE, 'evidence', '%s.json' % pid), 'w') as f:
        json.dump(ev, f, indent=1, default=str)
    log('%s tier=%s: %d/%d obligations discharged (%s), %d bounded evaluations, %d canaries (%s), exit %d, %.1fs'
        % (pid, tier, len(discharged), n_ob, by_backend, evals, len(canaries),
           ','.join(sorted({c['status'] for c in canaries})) or '-', exit_code, time.time() - t0))
    return exit_code


if __name__ == '__main__':
    sys.exit(main())
