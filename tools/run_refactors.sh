#!/bin/bash
# usage: run_rf.sh <name>...   apply each harmless refactor to /repo, run every check (quick, with canaries), undo
cd /verif
for n in "$@"; do
  p=/verif/seeded/refactors/$n/patch.diff
  git -C /repo apply "$p" || { echo "$n: patch does not apply"; continue; }
  for c in C01 C02 C03 C04 C05 C06 C07 C08 C09 C10 C11 C12 C13 C14 C15 C16 C17 C18 C19 C20; do
    out=$(./check $c 2>&1); code=$?
    echo "$n $c exit=$code $(echo "$out" | tail -1 | cut -c1-140)"
    echo "$out" | grep -E "VIOLATION|what:|CHECKER|PROOF-LOST|UNDECIDED" | cut -c1-300 | sort | uniq -c | head -8 | sed "s/^/    /"
  done
  git -C /repo checkout -- .
done
