"""bycycle.group.features — C11 (2-D, in order), C12 (3-D placement), C13 (axis=None), C15 (frame), C19 (axis values).

Signals, option sets and tables are opaque values; the per-signal analysis is the uninterpreted function CF and the
epoched analysis of a stack of rows is CF2N (entry e).  What is verified is what these functions add."""
import z3

from . import contract
from vf.values import BOOL, INT, REAL, STR, VAL, Z, Opaque, Arr, PyList, SDict, ValSort, fresh_name
from vf.spec import form
from vf.engine import lift, to_real, zbool, Unsupported, _opq
from vf.calls import kwargs_term, EMPTY_KW
from vf import grid as G


def _cf(E, sig, fs, f_range, rs, opts_t):
    rs_t = zbool(rs) if not isinstance(rs, bool) else z3.BoolVal(rs)
    return _opq(G.CF_FN(sig.t, to_real(lift(fs)), to_real(lift(f_range[0])), to_real(lift(f_range[1])), rs_t, opts_t))


def _opts_term(E, v):
    if v is None:
        return EMPTY_KW
    if isinstance(v, Opaque):
        return v.t
    if isinstance(v, SDict) and not any(p is not False for p, _ in v.items.values()):
        return EMPTY_KW
    raise Unsupported('option set %r' % (v,))


@form('CF')
def f_CF(E, node):
    sig, fs, f_range, rs, opts = [E.eval(a) for a in node.args]
    return _cf(E, sig, fs, f_range, rs, _opts_term(E, opts))


@form('drop_rs')
def f_drop_rs(E, node):
    v = E.eval(node.args[0])
    return _opq(G.DROP_RS(_opts_term(E, v)))


@form('flat')
def f_flat(E, node):
    a = E.eval(node.args[0])
    return G.grid_flatten(E, a, node)


@form('epoch_of')
def f_epoch_of(E, node):
    df, L, e = [E.eval(a) for a in node.args]
    from vf.lib import term_int
    return _opq(G.EPOCH_FN(df.t, term_int(L), term_int(e)))


def _relabel_term(E, df_t, o_t):
    G.drop_fn('return_samples'), G.drop_fn('center_extrema'), G.drop_fn('burst_method'), G.drop_fn('threshold_kwargs')
    from vf.values import str_code
    bm = G.getstr_fn('burst_method', repr('cycles'))(o_t)
    th = G.get_fn('threshold_kwargs', 'emptydict')(o_t)
    G.get_fn('center_extrema', repr(None))
    G.option_axioms(E)
    return z3.If(bm == str_code('cycles'), G.DBC_FN(df_t, th), z3.If(bm == str_code('amp'), G.DBA_FN(df_t, th), df_t))


@form('relabel')
def f_relabel(E, node):
    """relabel(table, options): the table re-labelled by the burst detector the option set names (default 'cycles'),
    with the option set's own thresholds (default none); unchanged for any other method name"""
    df, o = [E.eval(a) for a in node.args]
    return _opq(_relabel_term(E, df.t, _opts_term(E, o)))


@form('drop_opt')
def f_drop_opt(E, node):
    k = E.eval(node.args[0])
    v = E.eval(node.args[1])
    return _opq(G.drop_fn(k)(_opts_term(E, v)))


@form('no_opts')
def f_no_opts(E, node):
    return _opq(EMPTY_KW)


def _explicit_keyword(E, qual, k, v, opts_t):
    """f(k=v, **opts): the option set that f effectively receives.  Passing f's own default for k is the same as not
    passing k; passing o.get(k, d) next to o-without-k is the same as passing o when d is f's own default for k (python
    call semantics; the default is read from the callee's real signature in /repo)."""
    import ast as _ast
    mi, fdef = E.sources.func(qual)
    d = E._default_of(fdef, k)
    if not isinstance(d, _ast.Constant):
        raise Unsupported('explicit keyword %s: callee default is not a literal' % k)
    if isinstance(v, (str, int, float, bool)) or v is None:
        if v == d.value and type(v) is type(d.value):
            return opts_t
        raise Unsupported('explicit keyword %s=%r differs from the default' % (k, v))
    getd = getattr(v, 'getd', None)
    if getd is not None and getd[0] == k and getd[1] == repr(d.value):
        base = getd[2]
        if z3.simplify(opts_t).eq(z3.simplify(G.drop_fn(k)(base))):
            return base
    raise Unsupported('explicit keyword %s with a value the option algebra cannot place' % k)


# abstract (group-level) view of compute_features: used when the signal is an opaque row
def _cf_abstract(E, ca, node):
    sig = ca.pos[0]
    fs = ca.kw.get('fs', ca.pos[1] if len(ca.pos) > 1 else None)
    fr = ca.kw.get('f_range', ca.pos[2] if len(ca.pos) > 2 else None)
    rs = ca.kw.get('return_samples', True)
    if not isinstance(sig, Opaque):
        raise Unsupported('abstract compute_features on a non-opaque signal')
    opts_t = kwargs_term(E, ca)
    for k in [k for k in ca.kw if k not in ('fs', 'f_range', 'return_samples')]:
        opts_t = _explicit_keyword(E, 'bycycle.features.features.compute_features', k, ca.kw[k], opts_t)
    r = _cf(E, sig, fs, fr, rs, opts_t)
    E.st.calls.append(('bycycle.features.features.compute_features', {'sig': sig}, r))
    return r


def _proxy2d_abstract(E, ca, node):
    args = ca.pos[0]
    if not (isinstance(args, tuple) and len(args) == 2):
        raise Unsupported('_proxy_2d argument %r' % (args,))
    sig, kw = args
    return _cf(E, sig, ca.kw.get('fs'), ca.kw.get('f_range'), ca.kw.get('return_samples'), _opts_term(E, kw))


from . import CONTRACTS  # noqa: E402

CONTRACTS['bycycle.features.features.compute_features']['abstract'] = _cf_abstract

contract(
    'bycycle.group.features._proxy_2d',
    params={'args': ('tuple', ['sigrow', 'optdict']), 'fs': REAL, 'f_range': ('tuple', [REAL, REAL]), 'return_samples': BOOL},
    # the row's own option set reaches compute_features together with the shared fs / band / return_samples
    ensures=["result == CF(args[0], fs, f_range, return_samples, args[1])"],
    modifies=[],
    abstract=_proxy2d_abstract,
)

# ------------------------------------------------------------------------------------------------ compute_features_2d
KW = 'compute_features_kwargs'


def _res_list(E, env):
    n = z3.Int(fresh_name('dfs.len'))
    E.assume(n >= 0)
    fn = z3.Function(fresh_name('dfs.at'), z3.IntSort(), ValSort)
    return G.grid(E, (n,), 1, (lambda i: _opq(fn(i))), 'list')


def _cf2d_cases():
    out = []
    common = {'sigs': ('grid', 1, True), 'fs': REAL, 'f_range': ('tuple', [REAL, REAL]), 'return_samples': BOOL,
              'n_jobs': INT, 'progress': ('const', None)}
    for kl, kt, opts in (('None', 'none', 'no_opts()'), ('dict', 'optdict', 'drop_rs(%s)' % KW),
                         ('list', ('grid', 1, False, 'list'), 'drop_rs(%s[i])' % KW)):
      for pl, pt in (('None', ('const', None)), ('tqdm', ('const', 'tqdm'))):
        valid = "True" if kl != 'list' else "len(%s) == len(sigs)" % KW
        out.append(dict(
            label='axis=0,kw=%s,progress=%s' % (kl, pl),
            params=dict(common, **{KW: kt, 'axis': ('const', 0), 'progress': pt}),
            requires=["n_jobs >= 1 or n_jobs == -1"],
            raises={'ValueError': "not (%s)" % valid},
            ensures=[
                # C11: position i holds the analysis of row i alone with the options given for row i, in order
                "len(result) == len(sigs)",
                "forall(i, 0 <= i < len(result), result[i] == CF(sigs[i], fs, f_range, return_samples, %s))" % opts,
            ],
            loops={1: dict(index='k', mutates=['kwargs'], elementwise=True, invariant=[
                "len(kwargs) == len(%s)" % KW,
                "forall(i, 0 <= i < k, kwargs[i] == drop_rs(%s[i]))" % KW,
                "forall(i, k <= i < len(kwargs), kwargs[i] == %s[i])" % KW])} if kl == 'list' else {}))
    # ---- axis=None (C13): one analysis of the concatenated rows, cut into one table per row by epoch_df
    T = "sigs.shape[1]"
    for kl, kt, opts in (('None', 'none', 'no_opts()'), ('dict', 'optdict', 'drop_rs(%s)' % KW),
                         ('list', ('grid', 1, False, 'list'), 'drop_rs(%s[0])' % KW)):
        valid = "True" if kl != 'list' else "len(%s) == len(sigs)" % KW
        flat_table = "CF(flat(sigs), fs, f_range, True, %s)" % opts
        if kl != 'list':
            entry = "epoch_of(%s, %s, e)" % (flat_table, T)
            loops = {}
        else:
            # a per-epoch option list: every epoch is re-labelled with its own method and thresholds
            entry = "relabel(epoch_of(%s, %s, e), %s[e])" % (flat_table, T, KW)
            loops = {1: dict(index='k', mutates=['kwargs'], elementwise=True, invariant=[
                         "len(kwargs) == len(%s)" % KW,
                         "forall(i, 0 <= i < k, kwargs[i] == drop_rs(%s[i]))" % KW,
                         "forall(i, k <= i < len(kwargs), kwargs[i] == %s[i])" % KW]),
                     # (the entries of the option list are only read here: no assumption about their being distinct objects)
                     2: dict(index='k', mutates=['dfs_features'], invariant=[
                         "len(dfs_features) == len(sigs)",
                         "forall(i, 0 <= i < k, dfs_features[i] == relabel(epoch_of(%s, %s, i), %s[i]))" % (flat_table, T, KW),
                         "forall(i, k <= i < len(sigs), dfs_features[i] == epoch_of(%s, %s, i))" % (flat_table, T)])}
        out.append(dict(
            label='axis=None,kw=%s' % kl,
            params=dict(common, **{KW: kt, 'axis': ('const', None)}),
            requires=["n_jobs >= 1 or n_jobs == -1", "%s >= 1" % T] + (["len(%s) >= 2" % KW] if kl == 'list' else []),
            raises={'ValueError': "not (%s)" % valid},
            ensures=["len(result) == len(sigs)",
                     "forall(e, 0 <= e < len(result), result[e] == %s)" % entry],
            loops=loops))
    # C19: any other axis value is rejected
    for al, at in (('1', ('const', 1)), ('(0,1)', ('const', (0, 1))), ('other', INT)):
        out.append(dict(label='axis=%s,kw=dict' % al, params=dict(common, **{KW: 'optdict', 'axis': at}),
                        requires=["n_jobs >= 1 or n_jobs == -1"] + (["axis != 0"] if al == 'other' else []),
                        raises={'ValueError': 'True'}))
    return out


contract('bycycle.group.features.compute_features_2d', cases=_cf2d_cases(), modifies=[], result=_res_list)


# ------------------------------------------------------------------------------------------------ _proxy_3d
def _epoched_entry(E, rows, fs, f_range, opts_t):
    """closure e -> entry e of the epoched analysis of a 2-D stack of rows with one option set (what the axis=None
    contract of compute_features_2d states for kw = None / dict)"""
    flat = G.grid_flatten(E, rows, None)
    T = rows.shape[1]
    Tt = T if not isinstance(T, int) else z3.IntVal(T)
    table = _cf(E, flat, fs, f_range, True, opts_t).t
    return lambda e: _opq(G.EPOCH_FN(table, Tt, e))


def _opts_of_element(E, kw):
    if kw is None:
        return EMPTY_KW
    if isinstance(kw, SDict):
        return _opts_term(E, kw)
    if isinstance(kw, Opaque):
        # an option set that is None stands for "no options"; otherwise return_samples is dropped by the 2-D function
        return z3.If(kw.t == G.NONE_OPTS, EMPTY_KW, G.DROP_RS(kw.t))
    raise Unsupported('option element %r' % (kw,))


def _proxy3d_abstract(E, ca, node):
    args = ca.pos[0]
    if not (isinstance(args, tuple) and len(args) == 2 and G.is_grid(args[0]) and args[0].lead == 1 and len(args[0].shape) == 2):
        raise Unsupported('_proxy_3d argument %r' % (args,))
    rows, kw = args
    entry = _epoched_entry(E, rows, ca.kw.get('fs'), ca.kw.get('f_range'), _opts_of_element(E, kw))
    return G.grid(E, (rows.shape[0],), 1, entry, 'list')


@form('epoched')
def f_epoched(E, node):
    """epoched(rows, fs, f_range, options, e): table e of the epoched (axis=None) analysis of the 2-D stack `rows` with
    one option set = epoch_of(CF(flat(rows), fs, f_range, True, drop_rs(options)), rows.shape[1], e)"""
    rows, fs, f_range, opts, e = [E.eval(a) for a in node.args]
    from vf.lib import term_int
    return _epoched_entry(E, rows, fs, f_range, _opts_of_element(E, opts))(term_int(e))


def _p3_result(E, env):
    rows = env['args'][0]
    fn = z3.Function(fresh_name('p3.at'), z3.IntSort(), ValSort)
    return G.grid(E, (rows.shape[0],), 1, (lambda i: _opq(fn(i))), 'list')


contract(
    'bycycle.group.features._proxy_3d',
    cases=[dict(label='kw=%s' % kl,
                params={'args': ('tuple', [('grid', 1, True), kt]), 'fs': REAL, 'f_range': ('tuple', [REAL, REAL]),
                        'return_samples': BOOL},
                requires=["args[0].shape[1] >= 1"],
                ensures=["len(result) == len(args[0])",
                         "forall(e, 0 <= e < len(result), result[e] == epoched(args[0], fs, f_range, args[1], e))"])
           for kl, kt in (('None', 'none'), ('dict', 'optdict'))],
    modifies=[],
    abstract=_proxy3d_abstract,
    result=_p3_result,
)


# ------------------------------------------------------------------------------------------------ compute_features_3d
def _res_grid2(E, env):
    n0 = z3.Int(fresh_name('dfs.n0'))
    n1 = z3.Int(fresh_name('dfs.n1'))
    E.assume(z3.And(n0 >= 0, n1 >= 0))
    fn = z3.Function(fresh_name('dfs.at'), z3.IntSort(), z3.IntSort(), ValSort)
    return G.grid(E, (n0, n1), 2, (lambda i, j: _opq(fn(i, j))), 'list')


def _cf3d_cases():
    out = []
    common = {'sigs': ('grid', 2, True), 'fs': REAL, 'f_range': ('tuple', [REAL, REAL]), 'return_samples': BOOL,
              'n_jobs': INT, 'progress': ('const', None)}
    N0, N1 = "sigs.shape[0]", "sigs.shape[1]"
    for kl, kt, opts, valid in (
            ('None', 'none', 'no_opts()', 'True'),
            ('dict', 'optdict', 'drop_rs(%s)' % KW, 'True'),
            ('2d-list', ('grid', 2, False, 'list'), 'drop_rs(%s[i][j])' % KW,
             "%s.shape[0] == %s and %s.shape[1] == %s" % (KW, N0, KW, N1))):
        inner_inv = ["len(dfs_features) == %s" % N0,
                     "forall((i, j), 0 <= i < dim0_idx and 0 <= j < %s, dfs_features[i][j] == df_2d[i * %s + j])" % (N1, N1),
                     "forall(j, 0 <= j < q, dfs_features[dim0_idx][j] == df_2d[dim0_idx * %s + j])" % N1]
        out.append(dict(
            label='axis=(0,1),kw=%s' % kl,
            params=dict(common, **{KW: kt, 'axis': ('const', (0, 1))}),
            requires=["n_jobs >= 1 or n_jobs == -1"],
            raises={'ValueError': "not (%s)" % valid},
            ensures=[
                # C12: entry [i][j] is the analysis of signal [i, j] alone, with the options given for position [i][j]
                "len(result) == %s" % N0,
                "forall(i, 0 <= i < %s, len(result[i]) == %s)" % (N0, N1),
                "forall((i, j), 0 <= i < %s and 0 <= j < %s, result[i][j] == CF(sigs[i][j], fs, f_range, return_samples, %s))"
                % (N0, N1, opts),
            ],
            loops={1: dict(index='p', mutates=['dfs_features'], invariant=[
                       "len(dfs_features) == %s" % N0,
                       "forall((i, j), 0 <= i < p and 0 <= j < %s, dfs_features[i][j] == df_2d[i * %s + j])" % (N1, N1)]),
                   2: dict(index='q', mutates=['dfs_features'], invariant=inner_inv)}))
    # ---- axis = 0 / 1 (C12): one epoched analysis per 2-D slice, at the position of the slice
    N2 = "sigs.shape[2]"
    for ax in (0, 1):
        for kl, kt in (('None', 'none'), ('dict', 'optdict'), ('1d-list', ('grid', 1, False, 'list'))):
            nslices = N0 if ax == 0 else N1
            valid = "True" if kl != '1d-list' else "len(%s) == %s" % (KW, nslices)
            if ax == 0:
                opts = {'None': 'None', 'dict': KW, '1d-list': '%s[i]' % KW}[kl]
                entry = "epoched(sigs[i], fs, f_range, %s, j)" % opts
            else:
                opts = {'None': 'None', 'dict': KW, '1d-list': '%s[j]' % KW}[kl]
                entry = "epoched(sigs[:, j], fs, f_range, %s, i)" % opts
            out.append(dict(
                label='axis=%d,kw=%s' % (ax, kl),
                params=dict(common, **{KW: kt, 'axis': ('const', ax)}),
                requires=["n_jobs >= 1 or n_jobs == -1", "%s >= 1" % N2, "%s >= 1 and %s >= 1" % (N0, N1)],
                raises={'ValueError': "not (%s)" % valid},
                ensures=["len(result) == %s" % N0,
                         "forall(i, 0 <= i < %s, len(result[i]) == %s)" % (N0, N1),
                         "forall((i, j), 0 <= i < %s and 0 <= j < %s, result[i][j] == %s)" % (N0, N1, entry)]))
    return out


contract('bycycle.group.features.compute_features_3d', cases=_cf3d_cases(), modifies=[], result=_res_grid2)


# ------------------------------------------------------------------------------------------------ group-level views of callees
def _epoch_abstract(E, ca, node):
    """epoch_df on an opaque table: a list with one table per epoch, entry e a function of (table, epoch length, e) - which
    is what the per-iteration contract of epoch_df establishes; the number of epochs is ceil(sig_len / epoch_len)"""
    from vf.lib import term_int
    df = ca.get(0, 'df_features')
    sig_len = term_int(ca.get(1, 'sig_len'))
    L = term_int(ca.get(2, 'epoch_len'))
    if not E.spec_mode:
        E.oblige('requires', L > 0, node, name=None, note='epoch_df: epoch_len > 0')
    s = z3.simplify(sig_len)
    cnt = None
    if z3.is_mul(s) and s.num_args() == 2:
        a, b = s.arg(0), s.arg(1)
        if b.eq(z3.simplify(L)):
            cnt = a
        elif a.eq(z3.simplify(L)):
            cnt = b
    if cnt is None:
        cnt = z3.Int(fresh_name('epochs'))
        E.assume(z3.And(cnt >= 0, (cnt - 1) * L < sig_len, sig_len <= cnt * L))
    dft = df.t
    return G.grid(E, (cnt,), 1, (lambda e: _opq(G.EPOCH_FN(dft, L, e))), 'list')


def _detector_abstract(fn):
    def h(E, ca, node):
        df = ca.pos[0]
        if len(ca.pos) > 1 or ca.kw:
            raise Unsupported('abstract burst detector with explicit thresholds')
        return _opq(fn(df.t, kwargs_term(E, ca)))
    return h


CONTRACTS['bycycle.utils.dataframes.epoch_df']['abstract'] = _epoch_abstract
CONTRACTS['bycycle.burst.cycle.detect_bursts_cycles']['abstract'] = _detector_abstract(G.DBC_FN)
CONTRACTS['bycycle.burst.amp.detect_bursts_amp']['abstract'] = _detector_abstract(G.DBA_FN)
