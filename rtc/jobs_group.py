"""Bounded stand-ins for the group utilities (C19 decision table, C11/C12 placement)."""
import itertools

import numpy as np

from .core import job

AXES = [None, 0, 1, [0, 1], 2, [1, 0], -1]


def _axis(a):
    return tuple(a) if isinstance(a, list) else a


def valid_combo(sig_shape, kw_shape, axis):
    """the documented decision table: which option-list shapes go with which array rank and axis"""
    axis = _axis(axis)
    is_int = isinstance(axis, int) and not isinstance(axis, bool)
    if len(sig_shape) == 2:
        return (axis is None or (is_int and axis == 0)) and len(kw_shape) == 1 and kw_shape[0] == sig_shape[0]
    if is_int and axis == 0:
        return len(kw_shape) == 1 and kw_shape[0] == sig_shape[0]
    if is_int and axis == 1:
        return len(kw_shape) == 1 and kw_shape[0] == sig_shape[1]
    if axis == (0, 1):
        return len(kw_shape) == 2 and tuple(kw_shape) == tuple(sig_shape[:2])
    return False


@job('kwargs_shape', props=['C19', 'C12'], function='bycycle.group.utils.check_kwargs_shape')
class KwargsShape:
    exhaustive = True
    chunk = 500

    def bound(self, tier):
        e = 3 if tier == 'quick' else 4
        return ('sigs 2-D and 3-D with extents 1..%d, axis in {None,0,1,(0,1),2,(1,0),-1}, option lists None / dict / '
                '1-D / 2-D / 3-D with extents 1..%d' % (e, e))

    def gen(self, tier, seed):
        e = 3 if tier == 'quick' else 4
        ext = range(1, e + 1)
        sig_shapes = [(a, 5) for a in ext] + [(a, b, 5) for a in ext for b in ext]
        kws = [None, 'dict'] + [[a] for a in ext] + [[a, b] for a in ext for b in ext] + [[1, 1, 1], [2, 2, 2]]
        for ss in sig_shapes:
            for kw in kws:
                for ax in AXES:
                    yield {'sigs': list(ss), 'kw': kw, 'axis': ax}

    def nontrivial(self, c):
        return isinstance(c['kw'], list)

    def run(self, c):
        from bycycle.group.utils import check_kwargs_shape
        shape = c['sigs']
        sigs = np.zeros(shape)
        kw = c['kw']
        axis = _axis(c['axis'])
        if kw is None:
            arg = None
        elif kw == 'dict':
            arg = {}
        else:
            arg = np.empty(kw, dtype=object)
            for idx in itertools.product(*[range(k) for k in kw]):
                arg[idx] = {}
        try:
            check_kwargs_shape(sigs, arg, axis)
            raised = False
        except ValueError:
            raised = True
        if not isinstance(kw, list):
            return 'raised for %r' % kw if raised else None
        ok = valid_combo(shape, kw, c['axis'])
        if ok and raised:
            return 'valid combination rejected'
        if not ok and not raised:
            return 'invalid combination accepted'
        return None
