"""Contract-language special forms (forall / exists / implies / old / ...) and registered spec functions."""
import ast

import z3

from .values import INT, REAL, BOOL, STR, XR, Z, X, Opt, Arr, Frame, SDict, PyList, fresh_name
from . import xops
from .engine import Unsupported, zbool, lift, is_sym, to_real

FORMS = {}
SPECFNS = {}


def form(name):
    def deco(f):
        FORMS[name] = f
        return f
    return deco


def specfn(name):
    """spec function taking evaluated arguments: f(E, *args)"""
    def deco(f):
        SPECFNS[name] = f

        def wrapper(E, node, f=f):
            args = [E.eval(a) for a in node.args]
            return f(E, *args)
        FORMS[name] = wrapper
        return f
    return deco


def _bind_vars(E, target):
    names = [target.id] if isinstance(target, ast.Name) else [e.id for e in target.elts]
    vs = [z3.Int(fresh_name(n)) for n in names]
    return names, vs


def _quant(E, node, is_forall):
    names, vs = _bind_vars(E, node.args[0])
    saved = dict(E.st.env)
    E.binders += 1
    try:
        for n, v in zip(names, vs):
            E.st.env[n] = Z(v, INT)
        parts = [E.eval(a) for a in node.args[1:]]
    finally:
        E.binders -= 1
        E.st.env.clear()
        E.st.env.update(saved)
    ts = [p if isinstance(p, z3.ExprRef) else zbool(p) for p in parts]
    if is_forall:
        body = ts[-1] if len(ts) == 1 else z3.Implies(z3.And(*ts[:-1]), ts[-1])
        return Z(z3.ForAll(vs, body), BOOL)
    return Z(z3.Exists(vs, z3.And(*ts)), BOOL)


@form('forall')
def f_forall(E, node):
    return _quant(E, node, True)


@form('exists')
def f_exists(E, node):
    return _quant(E, node, False)


@form('implies')
def f_implies(E, node):
    a, b = [E.eval(x) for x in node.args]
    return Z(z3.Implies(zbool(a), zbool(b)), BOOL)


@form('iff')
def f_iff(E, node):
    a, b = [E.eval(x) for x in node.args]
    return Z(zbool(a) == zbool(b), BOOL)


@form('old')
def f_old(E, node):
    saved_env = E.st.env
    env = dict(E.st.env)
    env.update(E.entry_env)
    E.st.env = env
    try:
        with E.entry_view():
            v = E.eval(node.args[0])
            v = _freeze(E, v)
    finally:
        E.st.env = saved_env
    # frozen arrays live under new identities; make them readable from the current heap as well
    for ident, clo in getattr(E, '_frozen', {}).items():
        E.st.heap.setdefault(ident, clo)
    return v


def _freeze(E, v):
    """old(x) of a mutable value: an immutable snapshot bound to the entry contents"""
    if isinstance(v, Arr):
        clo = E.st.heap[v.ident]
        key = ('frozen', v.ident, id(clo), str(v.off), v.stride, str(v.n))
        hit = E.st.ghost.get(key)
        if hit is None:
            E.st.next_ident += 1
            ident = E.st.next_ident
            hit = Arr(ident, v.shape, v.ty, v.kind, v.off, v.stride, writeable=False)
            if getattr(v, 'lead', None) is not None:           # a (nested) list of opaque values keeps its shape information
                hit.lead = v.lead
                hit.owner = ident
            E.st.ghost[key] = hit
            if not hasattr(E, '_frozen') or E._frozen_owner is not E.st:
                E._frozen = {}
                E._frozen_owner = E.st
            E._frozen[ident] = clo
        E.st.heap[hit.ident] = clo
        return hit
    if isinstance(v, Frame):
        f = Frame(v.ident, v.n, {c: _freeze(E, a) for c, a in v.cols.items()})
        return f
    if isinstance(v, tuple):
        return tuple(_freeze(E, x) for x in v)
    return v


@form('arrdef')
def f_arrdef(E, node):
    """arrdef(k, n, body): the array [body(k) for k in range(n)] (a pointwise definition)"""
    name = node.args[0].id
    n = E.eval(node.args[1])
    from .lib import term_int, _norm_elem, _elem_type
    nt = term_int(n)
    base_env = dict(E.st.env)
    heap = dict(E.st.heap)
    body = node.args[2]

    def at(i):
        saved_env, saved_heap = E.st.env, E.st.heap
        E.st.env = dict(base_env)
        E.st.env[name] = Z(i, INT) if not isinstance(i, int) else i
        E.st.heap = heap
        E.spec_mode += 1
        try:
            v = E.eval(body)
            if isinstance(v, z3.ExprRef):
                v = Z(v, BOOL)
            return _norm_elem(v)
        finally:
            E.spec_mode -= 1
            E.st.env, E.st.heap = saved_env, saved_heap
    probe = at(z3.Int(fresh_name('probe')))
    return E.new_arr(z3.simplify(nt), _elem_type(probe), at, 'ndarray')


@form('same')
def f_same(E, node):
    a, b = [E.eval(x) for x in node.args]
    return same(E, a, b)


def same(E, a, b):
    """value identity of two scalars (nan is the same as nan)"""
    if a is None or b is None:
        return a is None and b is None
    if isinstance(a, Opt) or isinstance(b, Opt):
        if isinstance(a, Opt) and isinstance(b, Opt):
            return Z(z3.And(a.isnone == b.isnone, z3.Or(a.isnone, zbool(same(E, a.val, b.val)))), BOOL)
        o, other = (a, b) if isinstance(a, Opt) else (b, a)
        if other is None:
            return Z(o.isnone, BOOL)
        return Z(z3.And(z3.Not(o.isnone), zbool(same(E, o.val, other))), BOOL)
    if isinstance(a, tuple) and isinstance(b, tuple):
        if len(a) != len(b):
            return False
        return Z(z3.And(*[zbool(same(E, x, y)) for x, y in zip(a, b)]), BOOL)
    if isinstance(a, str) or isinstance(b, str):
        return E.eq(a, b)
    a, b = lift(a), lift(b)
    if isinstance(a, X) or isinstance(b, X):
        return Z(xops.same(xops.to_x(a), xops.to_x(b)), BOOL)
    return E.eq(a, b)


@form('isnan')
def f_isnan(E, node):
    v = E.eval(node.args[0])
    if isinstance(v, X):
        return Z(xops.isnan(v), BOOL)
    return False


@form('isfinite')
def f_isfinite(E, node):
    v = E.eval(node.args[0])
    if isinstance(v, X):
        return Z(xops.isfin(v), BOOL)
    return True


@form('xdiv')
def f_xdiv(E, node):
    a, b = [lift(E.eval(x)) for x in node.args]
    return xops.div(xops.to_x(a), xops.to_x(b))


@form('present')
def f_present(E, node):
    """present(d, 'key'): the dict has the key"""
    d = E.eval(node.args[0])
    k = E.eval(node.args[1])
    if d is None:
        return False
    if isinstance(d, SDict):
        if k not in d.items:
            return False
        p = d.items[k][0]
        return p if isinstance(p, bool) else Z(p, BOOL)
    raise Unsupported('present(%r)' % (d,))


@form('value')
def f_value(E, node):
    """value(d, 'key'): the stored value irrespective of presence"""
    d = E.eval(node.args[0])
    k = E.eval(node.args[1])
    if k not in d.items:
        return None
    return d.items[k][1]


@form('is_none')
def f_is_none(E, node):
    v = E.eval(node.args[0])
    if isinstance(v, Opt):
        return Z(v.isnone, BOOL)
    return v is None


@form('xsub')
def f_xsub(E, node):
    a, b = [lift(E.eval(x)) for x in node.args]
    return xops.sub(xops.to_x(a), xops.to_x(b))


@form('xadd')
def f_xadd(E, node):
    a, b = [lift(E.eval(x)) for x in node.args]
    return xops.add(xops.to_x(a), xops.to_x(b))


@form('ncols')
def f_ncols(E, node):
    f = E.eval(node.args[0])
    return len(f.cols)


@form('call_arg')
def f_call_arg(E, node):
    """call_arg('qualified.name', 'param'): the argument bound to `param` in the last logged call of that function"""
    qual = E.eval(node.args[0])
    name = E.eval(node.args[1])
    for q, bound, res in reversed(E.st.calls):
        if q == qual:
            return bound[name]
    raise Unsupported('no logged call of %s' % qual)


@form('call_result')
def f_call_result(E, node):
    qual = E.eval(node.args[0])
    for q, bound, res in reversed(E.st.calls):
        if q == qual:
            return res
    raise Unsupported('no logged call of %s' % qual)


@form('view_start')
def f_view_start(E, node):
    """view_start(a): the position, within its underlying storage, at which the array view `a` begins (a[k:] of a view
    starting at s starts at s + k)"""
    a = E.eval(node.args[0])
    if not isinstance(a, Arr):
        raise Unsupported('view_start of a non-array')
    return Z(a.off if not isinstance(a.off, int) else z3.IntVal(a.off), INT)


@form('param')
def f_param(E, node):
    """param('name'): the argument object the function was called with (when a local of the same name shadows it)"""
    name = E.eval(node.args[0])
    env = getattr(E, 'entry_env', None) or {}
    if name not in env:
        raise Unsupported('no parameter %s' % name)
    return env[name]


@form('local')
def f_local(E, node):
    """local('name'): the value of a local variable of the function at the point where the clause is evaluated
    (ties the clause to an implementation detail: if the local disappears the obligation is lost, not failed)"""
    name = E.eval(node.args[0])
    env = getattr(E, 'final_env', None) or {}
    if name not in env:
        raise Unsupported('no local %s at this point' % name)
    return env[name]


@form('selects')
def f_selects(E, node):
    """selects(out, src, mask[, shift_cols, shift]): table `out` consists of exactly the rows of `src` whose mask entry is
    True, in order, all values equal - except that the columns named in shift_cols are reduced by `shift`"""
    from . import lib
    out = E.eval(node.args[0])
    src = E.eval(node.args[1])
    mask = E.eval(node.args[2])
    shift_cols = E.eval(node.args[3]) if len(node.args) > 3 else ()
    shift = E.eval(node.args[4]) if len(node.args) > 4 else 0
    if isinstance(shift_cols, PyList):
        shift_cols = tuple(shift_cols.items)
    m, g, cnt = lib.compress_map(E, mask, node)
    k = z3.Int(fresh_name('sk'))
    parts = [out.n == m, z3.BoolVal(set(out.cols) == set(src.cols))]
    sh = lift(shift)
    for c, a in src.cols.items():
        if c not in out.cols:
            continue
        o = E.rd(out.cols[c], k)
        sv = E.st.heap[a.ident](a.off + g(k) * a.stride)
        if c in shift_cols:
            sv = E.binop(ast.Sub(), sv, sh)
        parts.append(z3.ForAll([k], z3.Implies(z3.And(k >= 0, k < m), zbool(same(E, o, sv)))))
    return Z(z3.And(*parts), BOOL)


def _rows_chain(out, src):
    """provenance of `out` as successive boolean-mask selections starting at `src` (a table or a 1-D array): list of
    (g, cnt), outermost first; None when `out` was not obtained from `src` that way"""
    chain = []
    f = out
    for _ in range(8):
        if f is src or (f.ident == src.ident and (isinstance(f, Frame) or (str(f.off) == str(src.off) and f.stride == src.stride
                                                                          and str(f.n) == str(src.n)))):
            return chain
        meta = getattr(f, 'meta', None) or {}
        if isinstance(f, Frame) and 'rows_of' in meta:
            parent, g, cnt = meta['rows_of']
        elif isinstance(f, Arr) and 'compress_of' in meta:
            parent, _, g, cnt = meta['compress_of']
        else:
            return None
        chain.append((g, cnt))
        f = parent
    return None


def _sb_parts(E, node):
    out = E.eval(node.args[0])
    src = E.eval(node.args[1])
    lo = E.eval(node.args[2])
    hi = E.eval(node.args[3])
    shift_cols = E.eval(node.args[4]) if len(node.args) > 4 else ()
    shift = E.eval(node.args[5]) if len(node.args) > 5 else 0
    if isinstance(shift_cols, PyList):
        shift_cols = tuple(shift_cols.items)
    if isinstance(out, Frame) != isinstance(src, Frame) or not isinstance(out, (Frame, Arr)) or not isinstance(src, (Frame, Arr)):
        raise Unsupported('selects_between needs two tables or two arrays')
    chain = _rows_chain(out, src)
    proven = chain is not None
    if chain is None:
        # no provenance (the clause is being assumed about a callee's result): an unknown index map
        chain = [(z3.Function(fresh_name('sb.g'), z3.IntSort(), z3.IntSort()),
                  z3.Function(fresh_name('sb.c'), z3.IntSort(), z3.IntSort()))]
    n = src.n if not isinstance(src.n, int) else z3.IntVal(src.n)
    m = out.n if not isinstance(out.n, int) else z3.IntVal(out.n)

    def G(k):
        for g, _ in chain:
            k = g(k)
        return k

    def C(i):
        for _, cnt in reversed(chain):
            i = cnt(i)
        return i
    sh = lift(shift)
    cols = []
    if isinstance(src, Arr):
        def eq1(k):
            return zbool(same(E, E.rd(out, k), E.rd(src, G(k))))
        cols.append(('elements', eq1))
        same_cols = True
    else:
        same_cols = set(out.cols) == set(src.cols)
    for c, a in (src.cols.items() if isinstance(src, Frame) else ()):
        if c not in out.cols:
            continue

        def eq(k, c=c, a=a):
            o = E.rd(out.cols[c], k)
            sv = E.st.heap[a.ident](a.off + G(k) * a.stride)
            if c in shift_cols:
                sv = E.binop(ast.Sub(), sv, sh)
            return zbool(same(E, o, sv))
        cols.append((c, eq))
    return dict(chain=chain, proven=proven, n=n, m=m, G=G, C=C, cols=cols, same_cols=same_cols,
                lo=lambda i: zbool(E.rd(lo, i)), hi=lambda i: zbool(E.rd(hi, i)))


@form('selects_between')
def f_selects_between(E, node):
    """selects_between(out, src, lo, hi[, shift_cols, shift]): table `out` consists of rows of `src`, in their original
    order and each at most once, with all values equal (the columns named in shift_cols reduced by `shift`); every row
    whose `lo` entry is True is among them and every row among them has a True `hi` entry.  (C18: every cycle entirely
    inside the window, none entirely outside.)  Proved through the witness index map that the code's successive mask
    selections compose to; no canonical enumeration is needed, so two-stage filtering needs no induction."""
    P = _sb_parts(E, node)
    n, m, G, C = P['n'], P['m'], P['G'], P['C']
    k = z3.Int(fresh_name('sb.k'))
    k2 = z3.Int(fresh_name('sb.k'))
    i = z3.Int(fresh_name('sb.i'))
    parts = [z3.BoolVal(P['same_cols'])]
    parts.append(z3.ForAll([k], z3.Implies(z3.And(k >= 0, k < m), z3.And(G(k) >= 0, G(k) < n, P['hi'](G(k))))))
    parts.append(z3.ForAll([k, k2], z3.Implies(z3.And(k >= 0, k < k2, k2 < m), G(k) < G(k2))))
    parts.append(z3.ForAll([i], z3.Implies(z3.And(i >= 0, i < n, P['lo'](i)), z3.And(C(i) >= 0, C(i) < m, G(C(i)) == i))))
    for c, eq in P['cols']:
        parts.append(z3.ForAll([k], z3.Implies(z3.And(k >= 0, k < m), eq(k))))
    return Z(z3.And(*parts), BOOL)


PROVERS = {}


def prover(name):
    def deco(f):
        PROVERS[name] = f
        return f
    return deco


@prover('selects_between')
def prove_selects_between(E, node, name, note):
    """the same statement, discharged conjunct by conjunct for arbitrary (fresh) indices from explicit instances of the
    selection-map axioms (quantifier-free up to the caller's own quantified requires): returns False when the result has
    no row-selection provenance, and the clause is then proved as one ordinary obligation"""
    from .engine import _has_quant
    E.spec_mode += 1
    try:
        P = _sb_parts(E, node)
    finally:
        E.spec_mode -= 1
    if not P['proven']:
        return False
    ghost = E.st.ghost
    insts = []
    for g, cnt in P['chain']:
        found = None
        for key, inst in ghost.get('cmap_inst', {}).items():
            if ghost[key][1].eq(g):
                found = inst
                break
        if found is None:
            return False
        insts.append(found)
    cmap_ax = set()
    for axs in ghost.get('cmap_axioms', {}).values():
        for a in axs:
            cmap_ax.add(a.get_id())
    other_q = [a for a in E.assumptions if _has_quant(a) and a.get_id() not in cmap_ax]
    n, m, G, C = P['n'], P['m'], P['G'], P['C']
    chain = P['chain']

    def sel_insts(k):
        out = []
        for (g, _), inst in zip(chain, insts):
            out.append(inst['sel'](k))
            k = g(k)
        return out

    def hit_insts(i):
        out = []
        for (_, cnt), inst in reversed(list(zip(chain, insts))):
            out.append(inst['hit'](i))
            out.append(inst['rec'](i))
            i = cnt(i)
        return out
    k = z3.Int(fresh_name('sb.k'))
    k2 = z3.Int(fresh_name('sb.k'))
    i = z3.Int(fresh_name('sb.i'))
    E.oblige('ensures', z3.BoolVal(P['same_cols']), E.fdef, name=name + '.columns', note=note)
    E.oblige_focused('ensures', other_q + sel_insts(k) + [k >= 0, k < m],
                     z3.And(G(k) >= 0, G(k) < n, P['hi'](G(k))), E.fdef, name=name + '.none-outside', assume=False)
    inc = []
    a, b = k, k2
    for (g, _), inst in zip(chain, insts):
        inc.append(inst['inc'](a, b))
        a, b = g(a), g(b)
    E.oblige_focused('ensures', other_q + sel_insts(k) + sel_insts(k2) + inc + [k >= 0, k < k2, k2 < m],
                     G(k) < G(k2), E.fdef, name=name + '.in-order', assume=False)
    E.oblige_focused('ensures', other_q + hit_insts(i) + [i >= 0, i < n, P['lo'](i)],
                     z3.And(C(i) >= 0, C(i) < m, G(C(i)) == i), E.fdef, name=name + '.all-inside', assume=False)
    for c, eq in P['cols']:
        E.oblige_focused('ensures', other_q + sel_insts(k) + [k >= 0, k < m], eq(k), E.fdef,
                         name=name + '.values:' + c, assume=False)
    return True
