#!/usr/bin/env python3
"""Regenerate MANIFEST.json from vf/props.py (run with python3-vt from /verif)."""
import json, os, sys
HERE = os.path.dirname(os.path.dirname(os.path.abspath(__file__)))
sys.path.insert(0, HERE)
from vf.props import PROPS, TRUSTED_BASE  # noqa

props = [json.loads(l) for l in open(os.path.join(HERE, 'properties.jsonl'))]
NA = {
}
checks = []
for p in props:
    pid = p['id']
    if pid not in PROPS:
        continue
    cfg = PROPS[pid]
    checks.append({
        'property_id': pid,
        'quick_cmd': './check %s --tier quick' % pid,
        'thorough_cmd': './check %s --tier thorough' % pid,
        'evidence_file': 'evidence/%s.json' % pid,
        'replay_cmd_template': './check %s --replay {path}' % pid,
        'engine': 'pyvc+rtc',
        'level_claimed': {'category': cfg['level'], 'text': cfg['explanation'], 'design_ref': 'DESIGN.md section 4, ' + pid},
        'level_note': 'trusted: ' + '; '.join(TRUSTED_BASE + cfg.get('trusted', [])) +
                      '. Floats are exact reals with nan/inf tags. Bounded jobs are stand-ins / cross-checks and are never counted as proved.',
        'technique': cfg.get('technique', 'contract-based deductive verification: VCs generated from the real /repo AST against '
                                          'sidecar contracts, discharged by z3/cvc5; bounded stand-in (rtc) for the rest'),
    })
m = {
    'version': 1,
    'setup_cmd': 'true',
    'hooks': {'guard': 'BYCYCLE_VERIF', 'enable': 'no source hooks: contracts are sidecar files under /verif/contracts; run-time wrapping is done by the checker process',
              'baseline_off_cmd': 'cd /repo && /venv/bin/python -m pytest -ra -q -p no:cacheprovider --timeout=900 --continue-on-collection-errors',
              'source_commits': [], 'add_only': True},
    'engines': [
        {'name': 'pyvc', 'path': 'vf/', 'serves_properties': sorted(PROPS),
         'kind_free_text': 'own AST->VC generator over the real /repo sources (python3-vt, z3 + cvc5), sidecar contracts in contracts/'},
        {'name': 'rtc', 'path': 'rtc/', 'serves_properties': sorted(PROPS),
         'kind_free_text': 'run-time side under /venv/bin/python: bounded stand-ins, replay, library-contract conformance'}],
    'checks': checks,
    'notes': 'see DESIGN.md; known_findings.json lists the fifteen repaired defects (fix: commits in /repo)',
    'not_applicable': [{'property_id': p['id'], 'reason': NA.get(p['id'], 'check not built yet (framework under construction, see DESIGN.md section 8)')}
                       for p in props if p['id'] not in PROPS],
}
json.dump(m, open(os.path.join(HERE, 'MANIFEST.json'), 'w'), indent=1)
print('checks:', [c['property_id'] for c in checks], 'n/a:', [x['property_id'] for x in m['not_applicable']])
