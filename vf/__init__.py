"""vf: contract-based deductive verification of the real bycycle sources (see /verif/DESIGN.md)."""
