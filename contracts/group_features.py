"""bycycle.group.features — C11 (2-D, in order), C12 (3-D placement), C13 (axis=None), C15 (frame), C19 (axis values).

Signals, option sets and tables are opaque values; the per-signal analysis is the uninterpreted function CF and the
epoched analysis of a stack of rows is CF2N (entry e).  What is verified is what these functions add."""
import z3

from . import contract
from vf.values import BOOL, INT, REAL, STR, VAL, Z, Opaque, Arr, PyList, SDict, ValSort, fresh_name
from vf.spec import form
from vf.engine import lift, to_real, zbool, Unsupported, _opq
from vf.calls import kwargs_term, EMPTY_KW
from vf import grid as G


def _cf(E, sig, fs, f_range, rs, opts_t):
    rs_t = zbool(rs) if not isinstance(rs, bool) else z3.BoolVal(rs)
    return _opq(G.CF_FN(sig.t, to_real(lift(fs)), to_real(lift(f_range[0])), to_real(lift(f_range[1])), rs_t, opts_t))


def _opts_term(E, v):
    if v is None:
        return EMPTY_KW
    if isinstance(v, Opaque):
        return v.t
    if isinstance(v, SDict) and not any(p is not False for p, _ in v.items.values()):
        return EMPTY_KW
    raise Unsupported('option set %r' % (v,))


@form('CF')
def f_CF(E, node):
    sig, fs, f_range, rs, opts = [E.eval(a) for a in node.args]
    return _cf(E, sig, fs, f_range, rs, _opts_term(E, opts))


@form('drop_rs')
def f_drop_rs(E, node):
    v = E.eval(node.args[0])
    return _opq(G.DROP_RS(_opts_term(E, v)))


@form('no_opts')
def f_no_opts(E, node):
    return _opq(EMPTY_KW)


# abstract (group-level) view of compute_features: used when the signal is an opaque row
def _cf_abstract(E, ca, node):
    sig = ca.pos[0]
    fs = ca.kw.get('fs', ca.pos[1] if len(ca.pos) > 1 else None)
    fr = ca.kw.get('f_range', ca.pos[2] if len(ca.pos) > 2 else None)
    rs = ca.kw.get('return_samples', True)
    if not isinstance(sig, Opaque):
        raise Unsupported('abstract compute_features on a non-opaque signal')
    extra = [k for k in ca.kw if k not in ('fs', 'f_range', 'return_samples')]
    if extra:
        raise Unsupported('abstract compute_features with explicit keywords %s' % extra)
    r = _cf(E, sig, fs, fr, rs, kwargs_term(E, ca))
    E.st.calls.append(('bycycle.features.features.compute_features', {'sig': sig}, r))
    return r


def _proxy2d_abstract(E, ca, node):
    args = ca.pos[0]
    if not (isinstance(args, tuple) and len(args) == 2):
        raise Unsupported('_proxy_2d argument %r' % (args,))
    sig, kw = args
    return _cf(E, sig, ca.kw.get('fs'), ca.kw.get('f_range'), ca.kw.get('return_samples'), _opts_term(E, kw))


from . import CONTRACTS  # noqa: E402

CONTRACTS['bycycle.features.features.compute_features']['abstract'] = _cf_abstract

contract(
    'bycycle.group.features._proxy_2d',
    params={'args': ('tuple', ['sigrow', 'optdict']), 'fs': REAL, 'f_range': ('tuple', [REAL, REAL]), 'return_samples': BOOL},
    # the row's own option set reaches compute_features together with the shared fs / band / return_samples
    ensures=["result == CF(args[0], fs, f_range, return_samples, args[1])"],
    modifies=[],
    abstract=_proxy2d_abstract,
)

# ------------------------------------------------------------------------------------------------ compute_features_2d
KW = 'compute_features_kwargs'


def _res_list(E, env):
    n = z3.Int(fresh_name('dfs.len'))
    E.assume(n >= 0)
    fn = z3.Function(fresh_name('dfs.at'), z3.IntSort(), ValSort)
    return G.grid(E, (n,), 1, (lambda i: _opq(fn(i))), 'list')


def _cf2d_cases():
    out = []
    common = {'sigs': ('grid', 1, True), 'fs': REAL, 'f_range': ('tuple', [REAL, REAL]), 'return_samples': BOOL,
              'n_jobs': INT, 'progress': ('const', None)}
    for kl, kt, opts in (('None', 'none', 'no_opts()'), ('dict', 'optdict', 'drop_rs(%s)' % KW),
                         ('list', ('grid', 1, False, 'list'), 'drop_rs(%s[i])' % KW)):
      for pl, pt in (('None', ('const', None)), ('tqdm', ('const', 'tqdm'))):
        valid = "True" if kl != 'list' else "len(%s) == len(sigs)" % KW
        out.append(dict(
            label='axis=0,kw=%s,progress=%s' % (kl, pl),
            params=dict(common, **{KW: kt, 'axis': ('const', 0), 'progress': pt}),
            requires=["n_jobs >= 1 or n_jobs == -1"],
            raises={'ValueError': "not (%s)" % valid},
            ensures=[
                # C11: position i holds the analysis of row i alone with the options given for row i, in order
                "len(result) == len(sigs)",
                "forall(i, 0 <= i < len(result), result[i] == CF(sigs[i], fs, f_range, return_samples, %s))" % opts,
            ],
            loops={1: dict(index='k', mutates=['kwargs'], elementwise=True, invariant=[
                "len(kwargs) == len(%s)" % KW,
                "forall(i, 0 <= i < k, kwargs[i] == drop_rs(%s[i]))" % KW,
                "forall(i, k <= i < len(kwargs), kwargs[i] == %s[i])" % KW])} if kl == 'list' else {}))
    # C19: any other axis value is rejected
    for al, at in (('1', ('const', 1)), ('(0,1)', ('const', (0, 1))), ('other', INT)):
        out.append(dict(label='axis=%s,kw=dict' % al, params=dict(common, **{KW: 'optdict', 'axis': at}),
                        requires=["n_jobs >= 1 or n_jobs == -1"] + (["axis != 0"] if al == 'other' else []),
                        raises={'ValueError': 'True'}))
    return out


contract('bycycle.group.features.compute_features_2d', cases=_cf2d_cases(), modifies=[], result=_res_list)


# ------------------------------------------------------------------------------------------------ compute_features_3d
def _res_grid2(E, env):
    n0 = z3.Int(fresh_name('dfs.n0'))
    n1 = z3.Int(fresh_name('dfs.n1'))
    E.assume(z3.And(n0 >= 0, n1 >= 0))
    fn = z3.Function(fresh_name('dfs.at'), z3.IntSort(), z3.IntSort(), ValSort)
    return G.grid(E, (n0, n1), 2, (lambda i, j: _opq(fn(i, j))), 'list')


def _cf3d_cases():
    out = []
    common = {'sigs': ('grid', 2, True), 'fs': REAL, 'f_range': ('tuple', [REAL, REAL]), 'return_samples': BOOL,
              'n_jobs': INT, 'progress': ('const', None)}
    N0, N1 = "sigs.shape[0]", "sigs.shape[1]"
    for kl, kt, opts, valid in (
            ('None', 'none', 'no_opts()', 'True'),
            ('dict', 'optdict', 'drop_rs(%s)' % KW, 'True'),
            ('2d-list', ('grid', 2, False, 'list'), 'drop_rs(%s[i][j])' % KW,
             "%s.shape[0] == %s and %s.shape[1] == %s" % (KW, N0, KW, N1))):
        inner_inv = ["len(dfs_features) == %s" % N0,
                     "forall((i, j), 0 <= i < dim0_idx and 0 <= j < %s, dfs_features[i][j] == df_2d[i * %s + j])" % (N1, N1),
                     "forall(j, 0 <= j < q, dfs_features[dim0_idx][j] == df_2d[dim0_idx * %s + j])" % N1]
        out.append(dict(
            label='axis=(0,1),kw=%s' % kl,
            params=dict(common, **{KW: kt, 'axis': ('const', (0, 1))}),
            requires=["n_jobs >= 1 or n_jobs == -1"],
            raises={'ValueError': "not (%s)" % valid},
            ensures=[
                # C12: entry [i][j] is the analysis of signal [i, j] alone, with the options given for position [i][j]
                "len(result) == %s" % N0,
                "forall((i, j), 0 <= i < %s and 0 <= j < %s, result[i][j] == CF(sigs[i][j], fs, f_range, return_samples, %s))"
                % (N0, N1, opts),
            ],
            loops={1: dict(index='p', mutates=['dfs_features'], invariant=[
                       "len(dfs_features) == %s" % N0,
                       "forall((i, j), 0 <= i < p and 0 <= j < %s, dfs_features[i][j] == df_2d[i * %s + j])" % (N1, N1)]),
                   2: dict(index='q', mutates=['dfs_features'], invariant=inner_inv)}))
    return out


contract('bycycle.group.features.compute_features_3d', cases=_cf3d_cases(), modifies=[], result=_res_grid2)
