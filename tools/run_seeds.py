#!/usr/bin/env python3
"""Apply every seeded change (and the reverse of every fix: commit) to /repo in turn, run the property's check, undo, and
tabulate: exit code, failed obligations (deductive side), bounded-job failures, model replays.  Writes seeded/RESULTS.md."""
import glob, json, os, subprocess, sys
HERE = os.path.dirname(os.path.dirname(os.path.abspath(__file__)))
os.chdir(HERE)
rows = []
ONLY = sys.argv[1:]          # optional: labels (seed ids, or 'D14') to re-run; their rows are replaced in the existing table


def run(label, pid, apply_cmd):
    if ONLY and not any(o == label or ('revert ' + o + ' ') in label for o in ONLY):
        return
    r = subprocess.run(apply_cmd, shell=True, capture_output=True, text=True)
    if r.returncode != 0:
        rows.append((label, pid, 'patch does not apply', '', '', ''))
        return
    try:
        p = subprocess.run(['./check', pid, '--no-canaries'], capture_output=True, text=True)
        ev = json.load(open('evidence/%s.json' % pid))
        und = [u['name'].split('/', 1)[-1] + ':' + u['status'] for u in ev['coverage'].get('undischarged', [])]
        units = sorted({u['name'].split('/')[0] for u in ev['coverage'].get('undischarged', [])})
        lost = [u['unit'].split('.')[-1] + ':' + u['status'] for u in ev['coverage']['units'] if u['status'] != 'ok']
        what = [l.strip()[6:90] for l in p.stdout.splitlines() if l.strip().startswith('what:')][:1]
        mr = [m['verdict'] for m in ev['coverage'].get('model_replays', [])]
        rows.append((label, pid, 'exit %d' % p.returncode, '; '.join(units + lost)[:150] or '-', (und[0] if und else '-')[:70],
                     ('model replay ' + '/'.join(mr) + '; ' if mr else '') + (what[0] if what else '-')))
    finally:
        subprocess.run('git -C /repo checkout -- .', shell=True)


for d in sorted(glob.glob('seeded/*/meta.json')):
    m = json.load(open(d))
    run(m['id'], m['property'], 'git -C /repo apply %s/%s/patch.diff' % (HERE, os.path.dirname(d)))
k = json.load(open('known_findings.json'))
for fd in k['fixed_detail']:
    run('revert ' + fd['defect'] + ' (' + fd['commit'] + ')', fd['property'], 'git -C /repo show %s | git -C /repo apply -R' % fd['commit'])
if ONLY:
    lines = open('seeded/RESULTS.md').read().splitlines()
    for r in rows:
        new = '| ' + ' | '.join(str(x).replace('|', '/') for x in r) + ' |'
        if any(l.startswith('| ' + r[0] + ' |') for l in lines):
            lines = [new if l.startswith('| ' + r[0] + ' |') else l for l in lines]
        else:
            # a new seed: after the last seed row (the reverted fixes follow)
            at = max([i for i, l in enumerate(lines) if l.startswith('| ') and not l.startswith('| revert') and not l.startswith('| change')
                      and not l.startswith('|---')] or [len(lines) - 1])
            lines.insert(at + 1, new)
    open('seeded/RESULTS.md', 'w').write('\n'.join(lines) + '\n')
    print('\n'.join(l for l in lines if any(l.startswith('| ' + r[0] + ' |') for r in rows)))
    sys.exit(0)
with open('seeded/RESULTS.md', 'w') as f:
    f.write('# Checks against seeded changes and reverted fixes (written by tools/run_seeds.py)\n\n')
    f.write('| change | property | check | units with failed / lost obligations | first failed obligation | concrete witness |\n|---|---|---|---|---|---|\n')
    for r in rows:
        f.write('| ' + ' | '.join(str(x).replace('|', '/') for x in r) + ' |\n')
print(open('seeded/RESULTS.md').read())
