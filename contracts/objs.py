"""bycycle.objs.fit — C14 (objects reproduce the functional API, no stale state), C19 (dimensionality / fitted-state guards)."""
import z3

from . import contract
from .features_features import _cf_cases, TK_CYCLES, TK_AMP
from .features_burst import BK_KEYS
from .cyclepoints import FE_KEYS
from .burst import THRS
from vf.values import BOOL, INT, REAL, XR, STR, SDict, fresh_name

CF = 'bycycle.features.features.compute_features'
SETTINGS = ('center_extrema', 'burst_method', 'burst_kwargs', 'threshold_kwargs', 'find_extrema_kwargs', 'return_samples')
ATTR_OF = {'threshold_kwargs': 'thresholds'}


def _fit_cases():
    out = []
    for case in _cf_cases():
        p = case['params']
        if not isinstance(p.get('center_extrema'), tuple) or not isinstance(p.get('burst_method'), tuple):
            continue                      # the invalid-centre / invalid-method cases are compute_features' own
        attrs = {ATTR_OF.get(k, k): p[k] for k in SETTINGS}
        if attrs['burst_kwargs'] == 'none':
            attrs['burst_kwargs'] = ('dict', {})          # the constructor stores {} for None
        attrs.update({'sig': 'none', 'fs': 'none', 'f_range': 'none', 'df_features': 'none'})
        reqs = [r.replace('burst_kwargs', 'self.burst_kwargs').replace('threshold_kwargs', 'self.thresholds')
                 .replace('find_extrema_kwargs', 'self.find_extrema_kwargs') for r in case.get('requires', [])]
        rz = case.get('raises', {}).get('ValueError', 'False')
        rz = rz.replace('burst_kwargs', 'self.burst_kwargs').replace('threshold_kwargs', 'self.thresholds') \
               .replace('find_extrema_kwargs', 'self.find_extrema_kwargs')
        out.append(dict(
            label='1d,' + case['label'],
            params={'self': ('obj', 'bycycle.objs.fit.Bycycle', attrs), 'sig': ('arr', REAL), 'fs': REAL,
                    'f_range': ('tuple', [REAL, REAL])},
            requires=reqs,
            raises={'ValueError': rz},
            ensures=[
                # C14: the stored settings reach compute_features positionally, unchanged, and its result is stored
                "self.df_features is call_result('%s')" % CF,
                "call_arg('%s', 'sig') is sig and self.sig is sig" % CF,
                "same(call_arg('%s', 'fs'), fs) and same(self.fs, fs)" % CF,
                "same(call_arg('%s', 'f_range'), f_range) and same(self.f_range, f_range)" % CF,
            ] + ["call_arg('%s', '%s') is self.%s" % (CF, k, ATTR_OF.get(k, k)) if k in ('burst_kwargs', 'threshold_kwargs', 'find_extrema_kwargs')
                 else "same(call_arg('%s', '%s'), self.%s)" % (CF, k, k) for k in SETTINGS]))
    # C19: a signal of the wrong dimensionality is rejected
    base_attrs = {'center_extrema': ('const', 'peak'), 'burst_method': ('const', 'cycles'), 'burst_kwargs': ('dict', {}),
                  'thresholds': ('dict', TK_CYCLES), 'find_extrema_kwargs': 'none', 'return_samples': BOOL,
                  'sig': 'none', 'fs': 'none', 'f_range': 'none', 'df_features': 'none'}
    for nd in (2, 3):
        out.append(dict(label='%dd' % nd,
                        params={'self': ('obj', 'bycycle.objs.fit.Bycycle', base_attrs), 'sig': ('nd', nd), 'fs': REAL,
                                'f_range': ('tuple', [REAL, REAL])},
                        raises={'ValueError': 'True'}))
    return out


contract('bycycle.objs.fit.Bycycle.fit', cases=_fit_cases(), modifies=['self'])

# ------------------------------------------------------------------------------------------------ reduce_thresholds
ALL_TK = dict(TK_CYCLES)
ALL_TK.update(TK_AMP)


def _reduced(E, env):
    th = env['self'].attrs['thresholds']
    items = {}
    for k, (p, v) in th.items.items():
        items[k] = [p, E.fresh_z('red.' + k, v.ty)]
    return SDict(E.new_ident(), items)


def _rt_ensures():
    ens = ["result is not self.thresholds"]
    for k in ALL_TK:
        ens.append("present(result, '%s') == present(self.thresholds, '%s')" % (k, k))
        if k.endswith('threshold'):
            ens.append("implies(present(result, '%s'), same(value(result, '%s'), value(self.thresholds, '%s') - red))" % (k, k, k))
        else:
            ens.append("implies(present(result, '%s'), same(value(result, '%s'), value(self.thresholds, '%s')))" % (k, k, k))
    return ens


contract(
    'bycycle.objs.fit.BycycleBase.reduce_thresholds',
    cases=[dict(label='reduction=%s' % lbl,
                params={'self': ('obj', 'bycycle.objs.fit.Bycycle', {'thresholds': ('dict', ALL_TK)}), 'reduction': t},
                ensures=[e.replace('red', '0' if lbl == 'None' else 'reduction') for e in _rt_ensures()])
           for lbl, t in (('None', 'none'), ('number', REAL))],
    modifies=[],
    result=_reduced,
)

# ------------------------------------------------------------------------------------------------ plot before fit (C19)
contract(
    'bycycle.objs.fit.Bycycle.plot',
    cases=[dict(label='unfitted:%s' % miss,
                params={'self': ('obj', 'bycycle.objs.fit.Bycycle',
                                 {'df_features': 'none' if miss == 'df_features' else 'opaque',
                                  'sig': 'none' if miss == 'sig' else 'opaque',
                                  'fs': 'none' if miss == 'fs' else REAL, 'thresholds': ('dict', ALL_TK)}),
                        'xlim': 'none', 'figsize': ('tuple', [INT, INT]), 'plot_only_results': BOOL, 'interp': BOOL},
                raises={'ValueError': 'True'})
           for miss in ('df_features', 'sig', 'fs')] + [
        # C20: a fitted model hands ITS OWN table, signal, rate and thresholds to the summary plot, and the caller's
        # limits / switches unchanged (the summary plot itself is decided on the bounded side)
        dict(label='fitted,xlim=%s' % xl,
             params={'self': ('obj', 'bycycle.objs.fit.Bycycle',
                              {'df_features': 'opaque', 'sig': 'opaque', 'fs': REAL, 'thresholds': ('dict', ALL_TK)}),
                     'xlim': xt, 'figsize': ('tuple', [INT, INT]), 'plot_only_results': BOOL, 'interp': BOOL},
             ensures=["result is None"] + [
                 "call_arg('bycycle.plts.burst.plot_burst_detect_summary', '%s') is self.%s" % (a, b) for a, b in (('df_features', 'df_features'), ('sig', 'sig'),
                                                                           ('threshold_kwargs', 'thresholds'))] + [
                 "call_arg('bycycle.plts.burst.plot_burst_detect_summary', 'fs') == self.fs",
                 "call_arg('bycycle.plts.burst.plot_burst_detect_summary', 'plot_only_result') == plot_only_results and call_arg('bycycle.plts.burst.plot_burst_detect_summary', 'interp') == interp",
                 "call_arg('bycycle.plts.burst.plot_burst_detect_summary', 'figsize')[0] == figsize[0] and call_arg('bycycle.plts.burst.plot_burst_detect_summary', 'figsize')[1] == figsize[1]",
                 ("call_arg('bycycle.plts.burst.plot_burst_detect_summary', 'xlim') is None" if xl == 'None' else
                  "call_arg('bycycle.plts.burst.plot_burst_detect_summary', 'xlim') is not None and "
                  "call_arg('bycycle.plts.burst.plot_burst_detect_summary', 'xlim')[0] == xlim[0] and "
                  "call_arg('bycycle.plts.burst.plot_burst_detect_summary', 'xlim')[1] == xlim[1]")])
        for xl, xt in (('None', 'none'), ('given', ('tuple', [REAL, REAL])))],
    modifies=[],
)


# ------------------------------------------------------------------------------------------------ constructor (C14)
from .burst import FEATS  # noqa: E402

# three representative threshold names in both spellings (the expansion treats every key alike; 2^7 presence patterns)
SHORT = [FEATS[0], FEATS[3], 'burst_fraction']
INIT_TK = {}
for _f in SHORT:
    INIT_TK[_f] = REAL
    INIT_TK[_f + '_threshold'] = REAL
INIT_TK['min_n_cycles'] = INT


def _init_ensures_dict():
    ens = ["self.thresholds is thresholds"]
    for f in SHORT:
        full = f + '_threshold'
        ens.append("not present(self.thresholds, '%s')" % f)
        ens.append("present(self.thresholds, '%s') == (present(old(thresholds), '%s') or present(old(thresholds), '%s'))" % (full, f, full))
        # the shorthand, when given, is the value that ends up under the full name
        ens.append("implies(present(old(thresholds), '%s'), same(value(self.thresholds, '%s'), value(old(thresholds), '%s')))" % (f, full, f))
        ens.append("implies(present(old(thresholds), '%s') and not present(old(thresholds), '%s'), "
                   "same(value(self.thresholds, '%s'), value(old(thresholds), '%s')))" % (full, f, full, full))
    ens.append("present(self.thresholds, 'min_n_cycles') == present(old(thresholds), 'min_n_cycles')")
    ens.append("implies(present(self.thresholds, 'min_n_cycles'), same(value(self.thresholds, 'min_n_cycles'), value(old(thresholds), 'min_n_cycles')))")
    return ens


COMMON = ["same(self.center_extrema, center_extrema) and same(self.burst_method, burst_method) and "
          "same(self.return_samples, return_samples)",
          "self.sig is None and self.fs is None and self.f_range is None and self.df_features is None"]


def _init_cases():
    out = []
    base = {'self': ('obj', 'bycycle.objs.fit.BycycleBase', {}), 'center_extrema': STR, 'return_samples': BOOL}
    for bl, bt in (('bk=None', 'none'), ('bk=dict', ('dict', BK_KEYS))):
        for fl, ft in (('fek=None', 'none'), ('fek=dict', ('dict', FE_KEYS))):
            extra = ["self.burst_kwargs is burst_kwargs" if bt != 'none' else "len(self.burst_kwargs) == 0",
                     "self.find_extrema_kwargs is find_extrema_kwargs" if ft != 'none' else
                     "value(value(self.find_extrema_kwargs, 'filter_kwargs'), 'n_cycles') == 3 and len(self.find_extrema_kwargs) == 1"]
            p = dict(base, burst_kwargs=bt, find_extrema_kwargs=ft)
            out.append(dict(label='th=dict,%s,%s' % (bl, fl), params=dict(p, burst_method=STR, thresholds=('dict', INIT_TK)),
                            ensures=COMMON + extra + _init_ensures_dict()))
            out.append(dict(label='th=None,cycles,%s,%s' % (bl, fl), params=dict(p, burst_method=('const', 'cycles'), thresholds='none'),
                            ensures=COMMON + extra + [
                                "len(self.thresholds) == 5",
                                "value(self.thresholds, 'amp_fraction_threshold') == 0 and value(self.thresholds, 'amp_consistency_threshold') == .5 "
                                "and value(self.thresholds, 'period_consistency_threshold') == .5 and "
                                "value(self.thresholds, 'monotonicity_threshold') == .8 and value(self.thresholds, 'min_n_cycles') == 3"]))
            out.append(dict(label='th=None,amp,%s,%s' % (bl, fl), params=dict(p, burst_method=('const', 'amp'), thresholds='none'),
                            ensures=COMMON + extra + [
                                "len(self.thresholds) == 2",
                                "value(self.thresholds, 'burst_fraction_threshold') == 1 and value(self.thresholds, 'min_n_cycles') == 3"]))
    return out


contract('bycycle.objs.fit.BycycleBase.__init__', cases=_init_cases(), modifies=['self', 'thresholds'])


# ------------------------------------------------------------------------------------------------ BycycleGroup.fit (C11, C12, C14)
# Group level: signals, option values, tables and model objects are opaque values.  What is verified is what fit adds:
# which settings reach the group function, that its result is stored, and that models[i] (models[i][j]) is a Bycycle
# object with the group's settings, loaded with the table and the signal AT THE SAME POSITION.
from vf.spec import form                                 # noqa: E402
from vf.engine import Unsupported, zbool, lift, to_real, _opq   # noqa: E402
from vf.values import Opaque, Obj                        # noqa: E402
from vf import grid as G                                  # noqa: E402
from vf.calls import options_term                         # noqa: E402
from . import group_features as GFm                       # noqa: E402,F401  (forms CF, drop_rs, epoched)

GKW = ("options(center_extrema=self.center_extrema, burst_method=self.burst_method, burst_kwargs=self.burst_kwargs, "
       "threshold_kwargs=self.thresholds, find_extrema_kwargs=self.find_extrema_kwargs)")


@form('options')
def f_options(E, node):
    """options(k1=v1, ...): the option dictionary {k1: v1, ...} as an opaque option set (same constructor as a dict literal
    with these keys in this order)"""
    from vf.values import SDict
    items = {k.arg: [True, E.eval(k.value)] for k in node.keywords}
    return _opq(options_term(E, SDict(-1, items)))


@form('model_of')
def f_model_of(E, node):
    """model_of(self, table, signal, fs, f_range): a Bycycle object constructed with the group's six settings and then loaded
    with the given table and signal"""
    slf, df, sig, fs, fr = [E.eval(a) for a in node.args]
    ts = []
    for nm in ('center_extrema', 'burst_method', 'burst_kwargs', 'thresholds', 'find_extrema_kwargs'):
        v = slf.attrs[nm]
        ts.append(G.NONE_OPTS if v is None else v.t)
    rs = slf.attrs['return_samples']
    rs_t = zbool(rs) if not isinstance(rs, bool) else z3.BoolVal(rs)
    new = G.BYC_NEW(*(ts + [rs_t]))
    return _opq(G.BYC_LOADED(new, df.t, sig.t, to_real(lift(fs)), to_real(lift(fr[0])), to_real(lift(fr[1]))))


@form('expanded')
def f_expanded(E, node):
    v = E.eval(node.args[0])
    return _opq(G.EXPANDED(v.t))


def _group_cases():
    out = []
    attrs = {'center_extrema': 'opaque', 'burst_method': 'opaque', 'burst_kwargs': 'opaque', 'thresholds': 'optdict',
             'find_extrema_kwargs': 'opaque', 'return_samples': BOOL, 'sigs': 'none', 'fs': 'none', 'f_range': 'none',
             'axis': 'none', 'n_jobs': 'none', 'n_dims': 'none', 'df_features': 'none', 'models': 'none', 'sig': 'none'}
    base = {'self': ('obj', 'bycycle.objs.fit.BycycleGroup', attrs), 'fs': REAL, 'f_range': ('tuple', [REAL, REAL]),
            'n_jobs': INT, 'progress': ('const', None)}
    req = ["n_jobs >= 1 or n_jobs == -1", "expanded(self.thresholds) == self.thresholds"]
    stored = ["self.sigs is sigs", "same(self.fs, fs) and same(self.f_range, f_range)"]
    MODEL2 = "model_of(self, self.df_features[i], sigs[i], fs, f_range)"
    MODEL3 = "model_of(self, self.df_features[i][j], sigs[i][j], fs, f_range)"
    # ---- 2-D input
    for axis, entry, extra_req in ((0, "CF(sigs[i], fs, f_range, self.return_samples, drop_rs(%s))" % GKW, []),
                                   (None, "epoched(sigs, fs, f_range, %s, i)" % GKW, ["sigs.shape[1] >= 1"])):
        out.append(dict(
            label='2d,axis=%s' % (axis,),
            params=dict(base, sigs=('grid', 1, True), axis=('const', axis)),
            requires=req + extra_req,
            ensures=stored + [
                "len(self.df_features) == len(sigs) and len(self.models) == len(sigs)",
                # C11 / C13 through the group function's contract: position i holds the analysis of row i (epoch i)
                "forall(i, 0 <= i < len(sigs), self.df_features[i] == %s)" % entry,
                # C14: models mirror df_features and sigs position by position
                "forall(i, 0 <= i < len(sigs), self.models[i] == %s)" % MODEL2],
            loops={1: dict(index='k', mutates=['self.models'], invariant=[
                "len(self.models) == len(sigs)",
                "forall(i, 0 <= i < k, self.models[i] == %s)" % MODEL2])}))
    # ---- 3-D input
    N0, N1 = "sigs.shape[0]", "sigs.shape[1]"
    for axis, entry in (((0, 1), "CF(sigs[i][j], fs, f_range, self.return_samples, drop_rs(%s))" % GKW),
                        (0, "epoched(sigs[i], fs, f_range, %s, j)" % GKW),
                        (1, "epoched(sigs[:, j], fs, f_range, %s, i)" % GKW)):
        out.append(dict(
            label='3d,axis=%s' % (axis,),
            params=dict(base, sigs=('grid', 2, True), axis=('const', axis)),
            requires=req + ["sigs.shape[2] >= 1", "%s >= 1 and %s >= 1" % (N0, N1)],
            ensures=stored + [
                "len(self.df_features) == %s and len(self.models) == %s" % (N0, N0),
                "forall(i, 0 <= i < %s, len(self.models[i]) == %s)" % (N0, N1),
                # C12: the table at [i][j] is the analysis of the signal(s) at that position
                "forall((i, j), 0 <= i < %s and 0 <= j < %s, self.df_features[i][j] == %s)" % (N0, N1, entry),
                "forall((i, j), 0 <= i < %s and 0 <= j < %s, self.models[i][j] == %s)" % (N0, N1, MODEL3)],
            loops={1: dict(index='p', mutates=['self.models'], invariant=[
                       "len(self.models) == %s" % N0,
                       "forall((i, j), 0 <= i < p and 0 <= j < %s, self.models[i][j] == %s)" % (N1, MODEL3)]),
                   2: dict(index='q', mutates=['self.models'], invariant=[
                       "len(self.models) == %s" % N0,
                       "forall((i, j), 0 <= i < dim0 and 0 <= j < %s, self.models[i][j] == %s)" % (N1, MODEL3),
                       "forall(j, 0 <= j < q, self.models[dim0][j] == %s)" % MODEL3.replace('[i]', '[dim0]')])}))
    # C19: any other dimensionality is rejected
    for nd in (1, 4):
        out.append(dict(label='%dd' % nd, params=dict(base, sigs=('nd', nd), axis=('const', 0)),
                        raises={'ValueError': 'True'}))
    return out


contract('bycycle.objs.fit.BycycleGroup.fit', cases=_group_cases(), modifies=['self', 'self.thresholds'])


# ------------------------------------------------------------------------------------------------ Bycycle.recompute_edges, load (C14)
RCE = 'bycycle.burst.utils.recompute_edges'
RTH = 'bycycle.objs.fit.BycycleBase.reduce_thresholds'


def _obj_rce_cases():
    from .burst import EDGE_COLS
    out = []
    for centre, marker in (('peak', 'sample_peak'), ('trough', 'sample_trough')):
        cols = dict(EDGE_COLS)
        cols[marker] = INT
        for lbl, rt in (('None', 'none'), ('number', REAL)):
            red = '0' if lbl == 'None' else 'reduction'
            th_keys = [k for k in TK_CYCLES if k.endswith('threshold')]
            attrs = {'thresholds': ('dict', ALL_TK), 'df_features': ('frame', cols, 3)}
            out.append(dict(
                label='%s,reduction=%s' % (centre, lbl),
                params={'self': ('obj', 'bycycle.objs.fit.Bycycle', attrs), 'reduction': rt},
                requires=["forall(j, 0 <= j < len(self.df_features), self.df_features['period'][j] > 0)",
                          "not self.df_features['is_burst'][0]",          # (the first cycle of a fitted table is never a burst: C06)
                          # an object fitted with burst_method='cycles' carries the consistency thresholds only
                          "not present(self.thresholds, 'burst_fraction_threshold')"],
                raises={'ValueError': " or ".join(
                    "(present(self.thresholds, '%s') and (value(self.thresholds, '%s') - %s < 0 or value(self.thresholds, '%s') - %s > 1))"
                    % (k, k, red, k, red) for k in th_keys) +
                    " or (present(self.thresholds, 'min_n_cycles') and value(self.thresholds, 'min_n_cycles') < 0)" +
                    # a missing threshold falls back to the functional default, which is inside [0, 1]
                    ""},
                ensures=[
                    # C14: recompute_edges(r) IS the functional edge recomputation of the stored table with every *_threshold
                    # lowered by r (and min_n_cycles unchanged); its result replaces the stored table
                    "self.df_features is call_result('%s')" % RCE,
                    "call_arg('%s', 'df_features') is old(self.df_features)" % RCE,
                    "call_arg('%s', 'threshold_kwargs') is call_result('%s')" % (RCE, RTH),
                ] + ["present(call_arg('%s', 'threshold_kwargs'), '%s') == present(self.thresholds, '%s')" % (RCE, k, k) for k in TK_CYCLES] +
                    ["implies(present(self.thresholds, '%s'), same(value(call_arg('%s', 'threshold_kwargs'), '%s'), value(self.thresholds, '%s') - %s))"
                     % (k, RCE, k, k, red) for k in th_keys] +
                    ["implies(present(self.thresholds, 'min_n_cycles'), value(call_arg('%s', 'threshold_kwargs'), 'min_n_cycles') == "
                     "value(self.thresholds, 'min_n_cycles'))" % RCE]))
    return out


contract('bycycle.objs.fit.Bycycle.recompute_edges', cases=_obj_rce_cases(), modifies=['self'])

contract(
    'bycycle.objs.fit.Bycycle.load',
    params={'self': ('obj', 'bycycle.objs.fit.Bycycle', {'df_features': 'none', 'sig': 'none', 'fs': 'none', 'f_range': 'none'}),
            'df_features': ('frame', {'is_burst': BOOL}), 'sig': ('arr', REAL), 'fs': REAL, 'f_range': ('tuple', [REAL, REAL])},
    # C14: load stores exactly what it is given (the objects themselves)
    ensures=["self.df_features is df_features and self.sig is sig", "same(self.fs, fs) and same(self.f_range, f_range)"],
    modifies=['self'],
)


# ------------------------------------------------------------------------------------------------ Bycycle.__getattr__ (C14)
def _getattr_cases():
    cols = {'period': INT, 'volt_amp': XR, 'is_burst': BOOL}
    out = []
    for col in cols:
        out.append(dict(label='column:%s' % col,
                        params={'self': ('obj', 'bycycle.objs.fit.Bycycle', {'df_features': ('frame', cols)}), 'key': ('const', col)},
                        # C14: attribute access returns the table's column (its values, in order)
                        ensures=["len(result) == len(self.df_features)",
                                 "forall(i, 0 <= i < len(result), same(result[i], self.df_features['%s'][i]))" % col]))
    out.append(dict(label='no-such-column',
                    params={'self': ('obj', 'bycycle.objs.fit.Bycycle', {'df_features': ('frame', cols)}), 'key': ('const', 'no_such_column')},
                    raises={'AttributeError': 'True'}))
    out.append(dict(label='unfitted',
                    params={'self': ('obj', 'bycycle.objs.fit.Bycycle', {'df_features': 'none'}), 'key': ('const', 'period')},
                    raises={'AttributeError': 'True'}))
    return out


contract('bycycle.objs.fit.Bycycle.__getattr__', cases=_getattr_cases(), modifies=[])


# ------------------------------------------------------------------------------------------------ BycycleGroup.recompute_edges (C14)
@form('edges_of')
def f_edges_of(E, node):
    """edges_of(model, reduction): the model after Bycycle.recompute_edges(reduction) (reduction may be None)"""
    m, red = [E.eval(a) for a in node.args]
    has = z3.BoolVal(red is not None)
    rv = to_real(lift(red)) if red is not None else z3.RealVal(0)
    return _opq(G.BYC_EDGES(m.t, has, rv))


def _group_edges_cases():
    out = []
    for nd, grid in ((2, ('grid', 1, False, 'list')), (3, ('grid', 2, False, 'list'))):
        for lbl, rt in (('None', 'none'), ('number', REAL)):
            attrs = {'models': grid, 'sigs': ('grid', nd - 1, True), 'n_dims': ('const', nd)}
            if nd == 2:
                req = ["len(self.models) == len(self.sigs)"]
                ens = ["len(self.models) == len(self.sigs)",
                       "forall(i, 0 <= i < len(self.sigs), self.models[i] == edges_of(old(self.models)[i], reduction))"]
                loops = {1: dict(index='k', mutates=['self.models'], invariant=[
                    "len(self.models) == len(self.sigs)",
                    "forall(i, 0 <= i < k, self.models[i] == edges_of(old(self.models)[i], reduction))",
                    "forall(i, k <= i < len(self.sigs), self.models[i] == old(self.models)[i])"])}
            else:
                N0, N1 = "self.sigs.shape[0]", "self.sigs.shape[1]"
                req = ["len(self.models) == %s" % N0, "forall(i, 0 <= i < %s, len(self.models[i]) == %s)" % (N0, N1)]
                E_ = "edges_of(old(self.models)[i][j], reduction)"
                ens = ["forall((i, j), 0 <= i < %s and 0 <= j < %s, self.models[i][j] == %s)" % (N0, N1, E_)]
                loops = {1: dict(index='p', mutates=['self.models'], invariant=[
                             "forall((i, j), 0 <= i < p and 0 <= j < %s, self.models[i][j] == %s)" % (N1, E_),
                             "forall((i, j), p <= i < %s and 0 <= j < %s, self.models[i][j] == old(self.models)[i][j])" % (N0, N1)]),
                         2: dict(index='q', mutates=['self.models'], invariant=[
                             "forall((i, j), 0 <= i < dim0 and 0 <= j < %s, self.models[i][j] == %s)" % (N1, E_),
                             "forall((i, j), dim0 < i < %s and 0 <= j < %s, self.models[i][j] == old(self.models)[i][j])" % (N0, N1),
                             "forall(j, 0 <= j < q, self.models[dim0][j] == %s)" % E_.replace('[i]', '[dim0]'),
                             "forall(j, q <= j < %s, self.models[dim0][j] == old(self.models)[dim0][j])" % N1])}
            out.append(dict(label='%dd,reduction=%s' % (nd, lbl),
                            params={'self': ('obj', 'bycycle.objs.fit.BycycleGroup', attrs), 'reduction': rt},
                            requires=req, ensures=ens, loops=loops))
    return out


contract('bycycle.objs.fit.BycycleGroup.recompute_edges', cases=_group_edges_cases(), modifies=['self', 'self.models'])
