"""Job registry, counting, parallel execution and replay for the bounded side."""
import hashlib
import itertools
import json
import os
import random
import sys
import time
import traceback
import warnings

import multiprocessing
import zlib


def stable_hash(x):
    """hash() of strings changes per process (PYTHONHASHSEED); case generation must not"""
    return zlib.crc32(repr(x).encode())
import multiprocessing.pool

JOBS = {}


class _NoDaemonProcess(multiprocessing.get_context('fork').Process):
    @property
    def daemon(self):
        return False

    @daemon.setter
    def daemon(self, value):
        pass


class _NoDaemonContext(type(multiprocessing.get_context('fork'))):
    Process = _NoDaemonProcess


class NestablePool(multiprocessing.pool.Pool):
    """worker processes that may themselves start pools (the group functions do)"""

    def __init__(self, *args, **kwargs):
        kwargs['context'] = _NoDaemonContext()
        super().__init__(*args, **kwargs)


def job(name, **meta):
    """register a bounded job: gen(tier, seed) yields JSON-serialisable cases; run(case) -> None | failure text;
    nontrivial(case) -> bool"""
    def deco(cls):
        inst = cls()
        inst.name = name
        inst.meta = meta
        JOBS[name] = inst
        return cls
    return deco


def case_key(case):
    return hashlib.sha1(json.dumps(case, sort_keys=True, default=str).encode()).hexdigest()


def _run_chunk(args):
    name, cases = args
    warnings.simplefilter('ignore')
    j = JOBS[name]
    out = []
    import signal

    def _alarm(signum, frame):
        raise TimeoutError('case exceeded the per-case time limit')
    try:
        from . import safe_pool
        safe_pool.install()
    except Exception:
        pass
    for c in cases:
        try:
            signal.signal(signal.SIGALRM, _alarm)
            signal.alarm(int(getattr(j, 'case_timeout', 300)))
            try:
                r = j.run(c)
            finally:
                signal.alarm(0)
        except Exception as e:
            frames = traceback.extract_tb(e.__traceback__)
            where = ' @ ' + traceback.format_tb(e.__traceback__)[-1].strip().replace('\n', ' | ')
            # an exception that comes out of the code under test (raised in or below /repo) is a finding of the job;
            # one raised by the oracle code itself is a checker error
            idx_rtc = max([k for k, f in enumerate(frames) if '/verif/rtc/' in f.filename] or [-1])
            in_repo = any('/bycycle/' in f.filename and '/verif/' not in f.filename for f in frames[idx_rtc + 1:])
            if in_repo and not isinstance(e, TimeoutError):
                r = 'the library raised ' + ''.join(traceback.format_exception_only(type(e), e)).strip()[:200] + where[:200]
            else:
                r = 'CHECKER-ERROR ' + ''.join(traceback.format_exception_only(type(e), e)).strip() + where
        out.append(r)
    return out


def run_job(name, tier, seed, budget_s=None, procs=None, max_fail=5):
    """returns dict(evaluations, distinct_nontrivial, failures[], samples[], bound, wall_s, exhaustive)"""
    import multiprocessing as mp
    j = JOBS[name]
    t0 = time.time()
    seen = set()
    nontriv = set()
    failures = []
    errors = []
    samples = []
    n_eval = 0
    procs = procs or min(16, os.cpu_count() or 1)
    gen = j.gen(tier, seed)
    chunk_size = getattr(j, 'chunk', 200)
    truncated = False
    def chunks():
        nonlocal truncated
        while True:
            if budget_s is not None and time.time() - t0 > budget_s:
                truncated = True
                return
            block = list(itertools.islice(gen, chunk_size))
            if not block:
                return
            yield (name, block)
    chunk_timeout = float(getattr(j, 'chunk_timeout', 60 + min(900, chunk_size * int(getattr(j, 'case_timeout', 300)))))
    for (nm, block), results in _imap_with_input(procs, chunks(), chunk_timeout):
        for c, r in zip(block, results):
            n_eval += 1
            k = case_key(c)
            if k not in seen:
                seen.add(k)
                if j.nontrivial(c):
                    nontriv.add(k)
            if len(samples) < 3 and j.nontrivial(c):
                samples.append(c)
            if r is not None:
                if isinstance(r, str) and r.startswith('CHECKER-ERROR'):
                    if len(errors) < max_fail:
                        errors.append({'case': c, 'what': r})
                elif len(failures) < max_fail:
                    failures.append({'job': name, 'case': c, 'what': r})
        if len(failures) >= max_fail or len(errors) >= max_fail:
            truncated = True
            break
    return {'job': name, 'evaluations': n_eval, 'distinct': len(seen), 'distinct_nontrivial': len(nontriv),
            'failures': failures, 'errors': errors, 'samples': samples, 'bound': j.bound(tier),
            'exhaustive': bool(getattr(j, 'exhaustive', False)) and not truncated,
            'truncated': truncated, 'wall_s': round(time.time() - t0, 2)}


def _isolated(name, case, limit):
    """one case in a fresh interpreter (no fork of a threaded parent, single-threaded numerical libraries): what a hang
    inside the pool is re-tried with.  A case that does not return here either is a finding (the call does not terminate)."""
    import subprocess
    import tempfile
    with tempfile.NamedTemporaryFile('w', suffix='.json', delete=False) as f:
        json.dump({'job': name, 'case': case}, f, default=str)
        path = f.name
    try:
        env = dict(os.environ)
        env['PYTHONPATH'] = os.path.dirname(os.path.dirname(os.path.abspath(__file__)))
        p = subprocess.run([sys.executable, '-m', 'rtc.run', '--one-case', path], capture_output=True, text=True,
                           timeout=limit, env=env, cwd=env['PYTHONPATH'])
        for line in p.stdout.splitlines():
            if line.startswith('ONE-CASE-RESULT '):
                return json.loads(line[len('ONE-CASE-RESULT '):])
        return 'CHECKER-ERROR isolated run produced no result: ' + (p.stderr or p.stdout)[-300:]
    except subprocess.TimeoutExpired:
        return 'the call did not return within %d s (also when run alone in a fresh process)' % limit
    finally:
        try:
            os.unlink(path)
        except OSError:
            pass


def _imap_with_input(procs, it, chunk_timeout, depth=64):
    """ordered imap that also returns the input block, with bounded look-ahead.  A chunk that does not come back within
    chunk_timeout means a worker is stuck (a deadlock after fork, or a call that does not terminate): the pool is torn
    down, the cases of that chunk are re-run one by one in fresh interpreters, and the work goes on in a new pool."""
    pool = NestablePool(procs)
    pending = []

    def take():
        nonlocal pool, pending
        inp, res = pending.pop(0)
        try:
            return inp, res.get(timeout=chunk_timeout)
        except multiprocessing.TimeoutError:
            pass
        todo = [i for i, _ in pending]
        try:
            pool.terminate()
        except Exception:
            pass
        j = JOBS[inp[0]]
        limit = int(getattr(j, 'case_timeout', 300))
        out = [_isolated(inp[0], c, limit) for c in inp[1]]
        pool = NestablePool(procs)
        pending = [(i, pool.apply_async(_run_chunk, (i,))) for i in todo]
        return inp, out
    try:
        for item in it:
            pending.append((item, pool.apply_async(_run_chunk, (item,))))
            if len(pending) >= depth:
                yield take()
        while pending:
            yield take()
    finally:
        try:
            pool.terminate()
            pool.join()
        except Exception:
            pass


def replay(path):
    with open(path) as f:
        doc = json.load(f)
    name = doc['job']
    j = JOBS[name]
    warnings.simplefilter('ignore')
    r = j.run(doc['case'])
    return r
