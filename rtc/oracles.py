"""The spec functions of DESIGN.md section 3 as plain python — none of this is code from the repo."""
import math
import numpy as np


def minrun(b, m):
    """reference for the minimum-run filter: position i survives iff it lies in a maximal run of True of
    length >= m"""
    n = len(b)
    out = [False] * n
    i = 0
    while i < n:
        if b[i]:
            j = i
            while j < n and b[j]:
                j += 1
            if j - i >= m:
                for k in range(i, j):
                    out[k] = True
            i = j
        else:
            i += 1
    return out


def gt(a, t):
    """IEEE >: false on nan"""
    return (not (isinstance(a, float) and math.isnan(a))) and a > t


def ge(a, t):
    return (not (isinstance(a, float) and math.isnan(a))) and a >= t


def same_float(a, b, tol=0.0):
    a, b = float(a), float(b)
    if math.isnan(a) or math.isnan(b):
        return math.isnan(a) and math.isnan(b)
    if a == b:
        return True
    if math.isinf(a) or math.isinf(b):
        return False
    return abs(a - b) <= tol * max(1.0, abs(a), abs(b))


def same_array(a, b, tol=0.0):
    a, b = np.asarray(a), np.asarray(b)
    if a.shape != b.shape:
        return False
    if a.dtype == object or b.dtype == object:
        return all(x == y or (x != x and y != y) for x, y in zip(a.ravel(), b.ravel()))
    if a.dtype.kind in 'biu' and b.dtype.kind in 'biu':
        return bool(np.array_equal(a, b))
    return all(same_float(x, y, tol) for x, y in zip(a.ravel().tolist(), b.ravel().tolist()))


def frames_identical(a, b, tol=0.0, cols=None):
    """None if the two tables have the same columns (in order) and values, else a description"""
    if list(a.columns) != list(b.columns) and cols is None:
        return 'columns differ: %s vs %s' % (list(a.columns), list(b.columns))
    if len(a) != len(b):
        return 'row counts differ: %d vs %d' % (len(a), len(b))
    for c in (cols or a.columns):
        if not same_array(a[c].values, b[c].values, tol):
            return 'column %s differs: %s vs %s' % (c, a[c].values[:8], b[c].values[:8])
    return None
