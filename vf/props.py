"""Per-property obligation sets: which functions under contract, which lemmas, which bounded jobs."""

TRUSTED_BASE = [
    'pyvc engine (/verif/vf): python-AST symbolic executor and its numpy/pandas/neurodsp library contracts '
    '(vf/lib.py, vf/calls.py), conformance-tested by the bounded jobs but not verified',
    'z3 5.1 (python3-vt) and cvc5 1.0.3 (/usr/bin/cvc5)',
    'CPython semantics as encoded in vf/engine.py (unbounded ints, slice normalisation, argument binding)',
]

ASSUMPTIONS = [
    'floats are exact reals plus nan/+inf/-inf tags: no rounding, no int64 overflow',
    'dropped by extraction: docstrings, warnings.warn, print, exception message text, np.errstate, savefig decorator, tqdm',
    'callees are used through their contracts only; numpy / pandas / neurodsp behave as their assumed contracts say',
]

PROPS = {}


def prop(pid, **kw):
    PROPS[pid] = kw


prop('C19',
     level='other',
     units=['bycycle.group.utils.check_kwargs_shape',
            'bycycle.burst.cycle.detect_bursts_cycles',
            'bycycle.burst.amp.detect_bursts_amp'],
     lemmas=[],
     jobs=['kwargs_shape', 'detect_bursts_cycles', 'detect_bursts_amp'],
     unit_jobs={'bycycle.group.utils.check_kwargs_shape': ['kwargs_shape'],
                'bycycle.burst.cycle.detect_bursts_cycles': ['detect_bursts_cycles'],
                'bycycle.burst.amp.detect_bursts_amp': ['detect_bursts_amp']},
     explanation='under construction',
     )
