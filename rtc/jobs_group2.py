"""Group-level bounded jobs: 2-D (C11), 3-D (C12), epoched (C13) analyses against per-signal analyses; objects (C14)."""
import copy
import itertools
import random
import time

import numpy as np
import pandas as pd

from .core import job
from . import oracles as O
from .signals import FAMILIES, make_signal
from .jobs_pipeline import TH_PRESETS

FS, FR = 500.0, (7.0, 13.0)
N = 800


def row_signal(k, seed):
    fam = FAMILIES[(k * 3 + seed) % len(FAMILIES)]
    return make_signal(fam, seed * 17 + k, n=N, f=8.5 + 0.4 * (k % 7))


def kwargs_variant(k):
    th = dict(amp_fraction_threshold=0.05 * (k % 3), amp_consistency_threshold=.3 + .1 * (k % 4),
              period_consistency_threshold=.4, monotonicity_threshold=.5 + .05 * (k % 5), min_n_cycles=2 + k % 2)
    if k % 3 == 2:
        # every third row uses the amplitude method (per-row lists then mix burst methods: [cycles, cycles, amp, ...])
        return dict(center_extrema='trough' if k % 2 else 'peak', burst_method='amp',
                    burst_kwargs=dict(min_n_cycles=2 + k % 2),
                    threshold_kwargs=dict(burst_fraction_threshold=.5 + .1 * (k % 4), min_n_cycles=2 + k % 2),
                    find_extrema_kwargs=dict(boundary=k % 3, filter_kwargs=dict(n_cycles=3)))
    return dict(center_extrema='trough' if k % 2 else 'peak', threshold_kwargs=th,
                find_extrema_kwargs=dict(boundary=k % 3, filter_kwargs=dict(n_cycles=3)))


def _delayed_compute_features(*a, **k):
    """worker-side wrapper: rows given in `_DELAYS` finish late (perturbs the completion order under a real pool)"""
    from bycycle.features.features import compute_features as real
    sig = a[0]
    key = float(sig[0])
    d = _DELAYS.get(key, 0.0)
    if d:
        time.sleep(d)
    return real(*a, **k)


_DELAYS = {}


@job('group_2d', props=['C11', 'C14'], function='bycycle.group.features.compute_features_2d')
class Group2d:
    chunk = 1
    case_timeout = 150

    def bound(self, tier):
        return ('2-D arrays with 1..%d pairwise different rows (corpus signals, n=800), shared option set or per-row list, '
                'n_jobs in {1, 2, rows+2}, progress None / tqdm, return_samples True/False, injected delays so that the first rows '
                'finish last; BycycleGroup.fit on the same inputs' % (4 if tier == 'quick' else 6))

    def gen(self, tier, seed):
        rmax = 4 if tier == 'quick' else 6
        for rows in range(1, rmax + 1):
            for per_row in (False, True):
                for n_jobs in sorted({1, 2, rows + 2}):
                    for rs in ((True,) if tier == 'quick' and rows > 2 else (True, False)):
                        for delay in ((False, True) if n_jobs > 1 else (False,)):
                            for progress in ((None, 'tqdm') if (delay or rows == 2) else (None,)):
                                yield dict(rows=rows, per_row=per_row, n_jobs=n_jobs, rs=rs, delay=delay, seed=seed,
                                           progress=progress)

    def nontrivial(self, c):
        return c['rows'] >= 2

    def run(self, c):
        import bycycle.group.features as gf
        from bycycle.features import compute_features
        from bycycle import BycycleGroup
        sigs = np.stack([row_signal(k, c['seed']) for k in range(c['rows'])])
        if c['per_row']:
            kws = [kwargs_variant(k) for k in range(c['rows'])]
        else:
            kws = kwargs_variant(1)
        kws0 = copy.deepcopy(kws)
        global _DELAYS
        _DELAYS = {float(sigs[k][0]): 0.25 * (c['rows'] - k) for k in range(c['rows'])} if c['delay'] else {}
        orig = gf.compute_features
        gf.compute_features = _delayed_compute_features
        try:
            import io
            import contextlib
            with contextlib.redirect_stdout(io.StringIO()):
                out = gf.compute_features_2d(sigs, FS, FR, compute_features_kwargs=kws, axis=0, return_samples=c['rs'],
                                             n_jobs=c['n_jobs'], progress=c.get('progress'))
        finally:
            gf.compute_features = orig
            _DELAYS = {}
        if kws != kws0:
            return 'caller option sets were modified'
        if len(out) != c['rows']:
            return '%d tables for %d rows' % (len(out), c['rows'])
        for k in range(c['rows']):
            kw = copy.deepcopy(kws0[k] if c['per_row'] else kws0)
            ref = compute_features(sigs[k], FS, FR, return_samples=c['rs'], **kw)
            d = O.frames_identical(out[k], ref)
            if d:
                return 'position %d is not the analysis of row %d alone: %s' % (k, k, d)
        if not c['per_row'] and c['rs'] and not c['delay']:
            kw = copy.deepcopy(kws0)
            bg = BycycleGroup(center_extrema=kw['center_extrema'], thresholds=kw['threshold_kwargs'],
                              find_extrema_kwargs=kw['find_extrema_kwargs'])
            bg.fit(sigs, FS, FR, axis=0, n_jobs=c['n_jobs'])
            if len(bg.models) != c['rows']:
                return 'BycycleGroup has %d models for %d rows' % (len(bg.models), c['rows'])
            for k in range(c['rows']):
                d = O.frames_identical(bg.df_features[k], out[k]) or O.frames_identical(bg.models[k].df_features, out[k])
                if d:
                    return 'BycycleGroup position %d: %s' % (k, d)
                if not np.array_equal(bg.models[k].sig, sigs[k]):
                    return 'BycycleGroup.models[%d].sig is not row %d' % (k, k)
        return None


@job('group_3d', props=['C12', 'C14'], function='bycycle.group.features.compute_features_3d')
class Group3d:
    chunk = 1
    case_timeout = 150

    def bound(self, tier):
        return ('3-D arrays of shape (n0, n1, 800) for all n0, n1 in 1..%d with pairwise different signals; axis (0,1), 0, 1; '
                'shared option set, 1-D and 2-D option lists; n_jobs in {1, 3}' % (2 if tier == 'quick' else 3))

    def gen(self, tier, seed):
        m = 2 if tier == 'quick' else 3
        for n0 in range(1, m + 1):
            for n1 in range(1, m + 1):
                for axis in ([0, 1], 0, 1):
                    for kwk in ('shared', 'list'):
                        for n_jobs in ((1,) if tier == 'quick' and (n0, n1) != (2, 2) else (1, 3)):
                            yield dict(n0=n0, n1=n1, axis=axis, kw=kwk, n_jobs=n_jobs, seed=seed)
        for layout in ('F', 'T'):
            for axis in ([0, 1], 0, 1):
                yield dict(n0=2, n1=2, axis=axis, kw='shared', n_jobs=1, seed=seed, layout=layout)
            yield dict(n0=2, n1=3, axis=[0, 1], kw='list', n_jobs=1, seed=seed, layout=layout)
        yield dict(n0=3, n1=2, axis=[0, 1], kw='list', n_jobs=2, seed=seed)
        yield dict(n0=2, n1=3, axis=1, kw='list', n_jobs=2, seed=seed)
        yield dict(n0=3, n1=2, axis=0, kw='list', n_jobs=2, seed=seed)

    def nontrivial(self, c):
        return c['n0'] * c['n1'] >= 2

    def run(self, c):
        from bycycle.group import compute_features_3d, compute_features_2d
        from bycycle.features import compute_features
        n0, n1 = c['n0'], c['n1']
        axis = tuple(c['axis']) if isinstance(c['axis'], list) else c['axis']
        sigs = np.stack([np.stack([row_signal(i * n1 + j, c['seed']) for j in range(n1)]) for i in range(n0)])
        # memory layouts with identical values and indexing: C-ordered, Fortran-ordered, transposed view
        layout = c.get('layout', 'C')
        if layout == 'F':
            sigs = np.asfortranarray(sigs)
        elif layout == 'T':
            sigs = np.ascontiguousarray(sigs.transpose(2, 1, 0)).transpose(2, 1, 0)
        if c['kw'] == 'shared':
            kws = kwargs_variant(1)
        elif axis == (0, 1):
            kws = [[kwargs_variant(i * n1 + j) for j in range(n1)] for i in range(n0)]
        elif axis == 0:
            kws = [kwargs_variant(i) for i in range(n0)]
        else:
            kws = [kwargs_variant(j) for j in range(n1)]
        kws0 = copy.deepcopy(kws)
        out = compute_features_3d(sigs, FS, FR, compute_features_kwargs=kws, axis=axis, n_jobs=c['n_jobs'])
        if kws != kws0:
            return 'caller option sets were modified'
        if len(out) != n0 or any(len(r) != n1 for r in out):
            return 'result is not %dx%d nested' % (n0, n1)
        if len({id(r) for r in out}) != n0:
            return 'rows of the nested result are the same list object'
        for i in range(n0):
            for j in range(n1):
                if axis == (0, 1):
                    kw = copy.deepcopy(kws0 if c['kw'] == 'shared' else kws0[i][j])
                    ref = compute_features(sigs[i, j], FS, FR, **kw)
                    what = 'the analysis of signal [%d, %d] alone' % (i, j)
                elif axis == 0:
                    kw = copy.deepcopy(kws0 if c['kw'] == 'shared' else kws0[i])
                    ref = compute_features_2d(sigs[i], FS, FR, compute_features_kwargs=kw, axis=None, n_jobs=1)[j]
                    what = 'epoch %d of the flattened analysis of sigs[%d]' % (j, i)
                else:
                    kw = copy.deepcopy(kws0 if c['kw'] == 'shared' else kws0[j])
                    ref = compute_features_2d(sigs[:, j], FS, FR, compute_features_kwargs=kw, axis=None, n_jobs=1)[i]
                    what = 'epoch %d of the flattened analysis of sigs[:, %d]' % (i, j)
                d = O.frames_identical(out[i][j], ref)
                if d:
                    return 'entry [%d][%d] is not %s: %s' % (i, j, what, d)
        if c['kw'] == 'shared':
            # BycycleGroup on the same input: models mirror df_features and sigs position by position
            from bycycle import BycycleGroup
            kw = copy.deepcopy(kws0)
            bg = BycycleGroup(center_extrema=kw['center_extrema'], thresholds=kw['threshold_kwargs'],
                              find_extrema_kwargs=kw['find_extrema_kwargs'])
            bg.fit(sigs, FS, FR, axis=axis, n_jobs=c['n_jobs'])
            if len(bg.models) != n0 or any(len(r) != n1 for r in bg.models):
                return 'BycycleGroup.models is not %dx%d nested' % (n0, n1)
            for i in range(n0):
                for j in range(n1):
                    d = O.frames_identical(bg.df_features[i][j], out[i][j]) or \
                        O.frames_identical(bg.models[i][j].df_features, out[i][j])
                    if d:
                        return 'BycycleGroup position [%d][%d]: %s' % (i, j, d)
                    if not np.array_equal(bg.models[i][j].sig, sigs[i, j]):
                        return 'BycycleGroup.models[%d][%d].sig is not sigs[%d, %d]' % (i, j, i, j)
        return None


@job('group_epoched', props=['C13'], function='bycycle.group.features.compute_features_2d')
class GroupEpoched:
    chunk = 1
    case_timeout = 150

    def bound(self, tier):
        return ('2-D arrays (1..%d epochs of 400..800 samples, corpus signals) with axis=None: single option set vs flattened '
                'analysis + epoch_df; per-epoch option lists re-labelled with their own thresholds, incl. lists whose entries are one and the same dict object; Fortran-ordered / transposed-view inputs '
                '' % (4 if tier == 'quick' else 6))

    def gen(self, tier, seed):
        for rows in range(1, (4 if tier == 'quick' else 6) + 1):
            for L in (30, 400, 800):
                for kwk in ('shared', 'list', 'aliased-loose', 'aliased-strict'):
                    for centre in ('peak', 'trough'):
                        yield dict(rows=rows, L=L, kw=kwk, centre=centre, seed=seed)
                        if rows >= 2 and kwk in ('shared', 'list') and L >= 400:
                            # the same values in another memory layout: the epochs are the ROWS whatever the strides
                            yield dict(rows=rows, L=L, kw=kwk, centre=centre, seed=seed, layout='F' if centre == 'peak' else 'T')

    def nontrivial(self, c):
        return c['rows'] >= 2

    def run(self, c):
        from bycycle.group import compute_features_2d
        from bycycle.features import compute_features
        from bycycle.utils import epoch_df
        from bycycle.burst import detect_bursts_cycles
        nrows = c['rows'] if c['L'] > 100 else 20 + c['rows']          # short epochs: some hold no cycle at all
        c = dict(c, rows=nrows)
        flat = make_signal(FAMILIES[(c['seed'] + c['rows'] + c['L'] // 400) % len(FAMILIES)], c['seed'] + c['rows'], n=c['rows'] * c['L'])
        sigs = flat.reshape(c['rows'], c['L'])
        if c.get('layout') == 'F':
            sigs = np.asfortranarray(sigs)
        elif c.get('layout') == 'T':
            sigs = np.ascontiguousarray(sigs.T).T                # a transposed view of a (samples, epochs) recording
        base = dict(center_extrema=c['centre'], threshold_kwargs=dict(TH_PRESETS['loose']),
                    find_extrema_kwargs=dict(filter_kwargs=dict(n_cycles=3)))
        if c['kw'] == 'shared':
            kws = base
        elif c['kw'].startswith('aliased'):
            # one and the same dict object at every position ([opts] * n): every epoch has these settings.  Settings far from
            # the defaults on either side, so that falling back to the defaults shows on clean and on noisy signals alike
            k = copy.deepcopy(base)
            v = 0.0 if c['kw'] == 'aliased-loose' else 0.95
            k['threshold_kwargs'] = dict(amp_fraction_threshold=v, amp_consistency_threshold=v, period_consistency_threshold=v,
                                         monotonicity_threshold=v, min_n_cycles=1 if v == 0.0 else 3)
            kws = [k] * c['rows']
        else:
            kws = []
            for e in range(c['rows']):
                k = copy.deepcopy(base)
                k['threshold_kwargs']['monotonicity_threshold'] = .4 + .1 * (e % 4)
                k['threshold_kwargs']['min_n_cycles'] = 2 + e % 2
                kws.append(k)
        kws0 = copy.deepcopy(kws)
        out = compute_features_2d(sigs, FS, FR, compute_features_kwargs=kws, axis=None, n_jobs=1)
        if kws != kws0:
            return 'caller option sets were modified'
        first = copy.deepcopy(kws0 if c['kw'] == 'shared' else kws0[0])
        ref_flat = compute_features(flat, FS, FR, **first)
        ref = epoch_df(ref_flat, len(flat), c['L'])
        if len(out) != c['rows']:
            return '%d epochs returned for %d rows' % (len(out), c['rows'])
        for e in range(c['rows']):
            exp = ref[e].copy()
            if (c['kw'] == 'list' or c['kw'].startswith('aliased')) and c['rows'] > 1:
                th = copy.deepcopy(kws0[e]['threshold_kwargs'])
                exp = detect_bursts_cycles(exp, **th) if len(exp) else exp
            if len(exp) == 0 and len(out[e]) == 0:
                continue
            d = O.frames_identical(out[e].reset_index(drop=True), exp.reset_index(drop=True))
            if d:
                return 'epoch %d: %s' % (e, d)
        return None


@job('objects', props=['C14'], function='bycycle.objs.fit.Bycycle')
class Objects:
    chunk = 1
    case_timeout = 150

    def bound(self, tier):
        return ('seeded operation sequences (length %d) on one Bycycle object: fit on corpus signals, recompute_edges(r), '
                'load, threshold edits, attribute access; after every fit the table is compared with compute_features and with '
                'a freshly constructed object; shorthand threshold names' % (6 if tier == 'quick' else 14))

    def gen(self, tier, seed):
        for k in range(8 if tier == 'quick' else 40):
            for method in ('cycles', 'amp'):
                yield dict(k=k, method=method, seed=seed, steps=6 if tier == 'quick' else 14)

    def nontrivial(self, c):
        return True

    def run(self, c):
        from bycycle import Bycycle
        from bycycle.features import compute_features
        from bycycle.burst.utils import recompute_edges
        rng = random.Random(c['seed'] * 977 + c['k'] * 13 + (c['method'] == 'amp'))
        centre = rng.choice(['peak', 'trough'])
        if c['method'] == 'cycles':
            short = rng.random() < 0.5
            th = {('amp_fraction' if short else 'amp_fraction_threshold'): 0.1,
                  ('amp_consistency' if short else 'amp_consistency_threshold'): .4,
                  ('period_consistency' if short else 'period_consistency_threshold'): .4,
                  ('monotonicity' if short else 'monotonicity_threshold'): .6, 'min_n_cycles': 2}
            bk = None
        else:
            th = {'burst_fraction_threshold': .6, 'min_n_cycles': 2}
            bk = rng.choice([None, {}, {'min_n_cycles': 3}, {'amp_threshes': (.5, 1.5)}])
        fek = rng.choice([None, dict(boundary=2, filter_kwargs=dict(n_cycles=3))])
        rs = rng.choice([True, True, False])

        def expanded(t):
            return {(k if k.endswith('_threshold') or k == 'min_n_cycles' else k + '_threshold'): v for k, v in t.items()}
        bm = Bycycle(center_extrema=centre, burst_method=c['method'], burst_kwargs=copy.deepcopy(bk),
                     thresholds=copy.deepcopy(th), find_extrema_kwargs=copy.deepcopy(fek), return_samples=rs)
        if bm.thresholds != expanded(th):
            return 'shorthand thresholds not expanded: %r' % (bm.thresholds,)
        try:
            bm.plot()
            return 'plot() before fit did not raise ValueError'
        except ValueError:
            pass
        cur_sig = None
        ops = []
        for step in range(c['steps']):
            op = rng.choice(['fit', 'refit', 'refit', 'edges', 'load', 'edit', 'attr']) if cur_sig is not None else 'fit'
            ops.append(op)
            if op in ('fit', 'refit'):
                if op == 'fit':
                    cur_sig = make_signal(rng.choice(FAMILIES), rng.randint(0, 50), n=1000)
                # 'refit': the very same array object again (after edits / loads / edge recomputations)
                bm.fit(cur_sig, FS, FR)
                settings = dict(center_extrema=bm.center_extrema, burst_method=bm.burst_method,
                                burst_kwargs=copy.deepcopy(bm.burst_kwargs), threshold_kwargs=copy.deepcopy(bm.thresholds),
                                find_extrema_kwargs=copy.deepcopy(bm.find_extrema_kwargs), return_samples=bm.return_samples)
                ref = compute_features(cur_sig, FS, FR, **settings)
                d = O.frames_identical(bm.df_features, ref)
                if d:
                    return 'after %s: fit differs from compute_features with the same settings: %s' % (ops, d)
                fresh = Bycycle(center_extrema=settings['center_extrema'], burst_method=settings['burst_method'],
                                burst_kwargs=copy.deepcopy(settings['burst_kwargs']),
                                thresholds=copy.deepcopy(settings['threshold_kwargs']),
                                find_extrema_kwargs=copy.deepcopy(settings['find_extrema_kwargs']),
                                return_samples=settings['return_samples'])
                fresh.fit(cur_sig, FS, FR)
                d = O.frames_identical(bm.df_features, fresh.df_features)
                if d:
                    return 'after %s: fit differs from a freshly constructed object with the current settings: %s' % (ops, d)
                if bm.thresholds != settings['threshold_kwargs'] or bm.burst_kwargs != settings['burst_kwargs']:
                    return 'after %s: fit changed the stored settings: %r %r' % (ops, bm.thresholds, bm.burst_kwargs)
            elif op == 'edges' and c['method'] == 'cycles' and bm.df_features is not None and 'amp_consistency' in bm.df_features:
                r = rng.choice([None, 0.0, 0.1, 0.25])
                before = bm.df_features.copy()
                red = {k: (v - (r or 0) if k.endswith('threshold') else v) for k, v in bm.thresholds.items()}
                try:
                    exp = recompute_edges(before.copy(), dict(red))
                except ValueError:
                    try:
                        bm.recompute_edges(r)
                        return 'recompute_edges(%r): functional form rejects the reduced thresholds, the object accepts them' % r
                    except ValueError:
                        continue
                th_before = copy.deepcopy(bm.thresholds)
                bm.recompute_edges(r)
                if bm.thresholds != th_before:
                    return 'recompute_edges changed the stored thresholds'
                d = O.frames_identical(bm.df_features, exp)
                if d:
                    return 'recompute_edges(%r) differs from the functional edge recomputation: %s' % (r, d)
            elif op == 'load':
                other = make_signal(rng.choice(FAMILIES), rng.randint(0, 50), n=1000)
                tab = compute_features(other, FS, FR, center_extrema=centre, burst_method=c['method'],
                                       burst_kwargs=copy.deepcopy(bm.burst_kwargs), threshold_kwargs=copy.deepcopy(bm.thresholds))
                bm.load(tab, other, FS, FR)
                cur_sig = other
                if bm.df_features is not tab:
                    return 'load did not store the given table'
            elif op == 'edit':
                key = rng.choice([k for k in bm.thresholds if k.endswith('_threshold')])
                bm.thresholds[key] = round(rng.uniform(0.05, 0.9), 2)
            elif op == 'attr' and bm.df_features is not None:
                col = rng.choice(list(bm.df_features.columns))
                if not O.same_array(getattr(bm, col), bm.df_features[col].values):
                    return 'attribute %s is not the table column' % col
                try:
                    bm.no_such_column_
                    return 'unknown attribute did not raise AttributeError'
                except AttributeError:
                    pass
        return None
