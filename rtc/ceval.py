"""Concrete evaluation of the contract language on real numpy / pandas values (DESIGN.md 2.3: one contract text,
two evaluators).  Used for (a) replaying solver counter-models on the real functions and (b) arming the contracts
on corpus inputs (a cross-check of the contracts themselves)."""
import ast
import copy
import math

import numpy as np
import pandas as pd

from . import oracles as O

TOL = 1e-12


class Skip(Exception):
    """clause mentions something the concrete evaluator cannot see (ghost call log, ...)"""


def _is_nan(x):
    try:
        return x != x
    except Exception:
        return False


def same(a, b):
    if a is None or b is None:
        return a is None and b is None
    if isinstance(a, (tuple, list)) and isinstance(b, (tuple, list)):
        return len(a) == len(b) and all(same(x, y) for x, y in zip(a, b))
    if isinstance(a, str) or isinstance(b, str):
        return a == b
    try:
        return O.same_float(a, b, TOL)
    except (TypeError, ValueError):
        return a == b


def xdiv(a, b):
    with np.errstate(all='ignore'):
        return np.float64(a) / np.float64(b)


def xsub(a, b):
    with np.errstate(all='ignore'):
        return np.float64(a) - np.float64(b)


def xadd(a, b):
    with np.errstate(all='ignore'):
        return np.float64(a) + np.float64(b)


def _as_list(b):
    if isinstance(b, pd.Series):
        return b.values.tolist()
    return list(b)


def minrun(b, m, i):
    return bool(O.minrun([bool(x) for x in _as_list(b)], m)[i])


def _centre(pk):
    return bool(pk)


def amp_consistency_spec(rises, decays, pk, direction, c):
    return O.amp_consistency_ref(np.asarray(_as_list(rises), float), np.asarray(_as_list(decays), float), _centre(pk), direction)[c]


def amp_consistency_raw_spec(rises, decays, pk, direction, c):
    r, d = np.asarray(_as_list(rises), float), np.asarray(_as_list(decays), float)
    cur = O._ratio(r[c], d[c])
    if pk:
        last, nxt = O._ratio(r[c], d[c - 1]), O._ratio(r[c + 1], d[c])
    else:
        last, nxt = O._ratio(r[c - 1], d[c]), O._ratio(r[c], d[c + 1])
    pairs = {'both': [cur, nxt, last], 'next': [cur, nxt], 'last': [cur, last]}[direction]
    if all(x != x for x in (cur, nxt, last)):
        return float('nan')
    return O._nanmin(pairs)


def period_consistency_spec(periods, direction, c):
    return O.period_consistency_ref(np.asarray(_as_list(periods), float), direction)[c]


def _rows_match(out, src, k, i, cols, shift_cols, shift):
    for c in cols:
        o, v = out[c][k], src[c][i]
        if c in shift_cols:
            v = v - shift
        if not same(o, v):
            return False
    return True


def selects_between(out, src, lo, hi, shift_cols=(), shift=0):
    """concrete reading of the contract form: is there an increasing map of the rows of `out` into the rows of `src`
    (values equal, shift_cols lowered by shift) that hits every `lo` row and only `hi` rows?"""
    if not hasattr(src, 'columns'):
        # two 1-D arrays: one unnamed column each
        class _One:
            def __init__(self, a):
                self.a = np.asarray(a)
                self.columns = ['v']

            def __getitem__(self, c):
                return self.a

            def __len__(self):
                return len(self.a)
        out, src = _One(out), _One(src)
    if set(out.columns) != set(src.columns):
        return False
    cols = list(src.columns)
    n, m = len(src), len(out)
    lo, hi = [bool(x) for x in lo], [bool(x) for x in hi]
    # reach[k] after processing i source rows: k output rows consumed
    reach = {0}
    for i in range(n):
        nxt = set()
        for k in reach:
            if not lo[i]:
                nxt.add(k)                                    # row i left out
            if k < m and hi[i] and _rows_match(out, src, k, i, cols, shift_cols, shift):
                nxt.add(k + 1)                                # row i is output row k
        reach = nxt
        if not reach:
            return False
    return m in reach


def selects(out, src, mask, shift_cols=(), shift=0):
    mask = [bool(x) for x in mask]
    return selects_between(out, src, mask, mask, shift_cols, shift)


class Evaluator:
    def __init__(self, env, old_env, max_index):
        self.env = env
        self.old_env = old_env
        self.max_index = max_index

    # ---- special forms, reached through the rewritten AST
    def forall(self, cond, body):
        for i in range(-1, self.max_index + 2):
            if cond(i) and not body(i):
                return False
        return True

    def exists(self, cond):
        for i in range(-1, self.max_index + 2):
            if cond(i):
                return True
        return False

    def arrdef(self, n, body):
        return [body(j) for j in range(int(n))]

    strict = False

    def osc3(self, *a, **k):
        # "the band-passed signal contains three full oscillations": true of the corpus signals the armed job uses; for an
        # input concretised from a solver model it cannot be established here
        if Evaluator.strict:
            raise Skip('osc3 cannot be evaluated concretely')
        return True

    def namespace(self):
        ns = {
            'np': np, 'pd': pd, 'len': len, 'int': int, 'float': float, 'abs': abs, 'isinstance': isinstance,
            'dict': dict, 'list': list, 'True': True, 'False': False, 'None': None,
            '_forall': self.forall, '_exists': self.exists, '_arrdef': self.arrdef,
            'same': same, 'xdiv': xdiv, 'xsub': xsub, 'xadd': xadd, 'xnan': lambda: float('nan'),
            'isnan': _is_nan, 'isfinite': lambda x: bool(np.isfinite(x)),
            'implies': lambda a, b: (not a) or bool(b), 'iff': lambda a, b: bool(a) == bool(b),
            'minrun': minrun, 'amp_consistency_spec': amp_consistency_spec,
            'amp_consistency_raw_spec': amp_consistency_raw_spec, 'period_consistency_spec': period_consistency_spec,
            'present': lambda d, k: d is not None and k in d, 'value': lambda d, k: d[k],
            'is_none': lambda v: v is None, 'ncols': lambda f: len(f.columns),
            'osc3': self.osc3, 'selects_between': selects_between, 'selects': selects, 'round': round,
        }
        try:
            from neurodsp.timefrequency import amp_by_time
            from neurodsp.burst import detect_bursts_dual_threshold
            ns['amp_by_time'] = amp_by_time
            ns['detect_bursts_dual_threshold'] = detect_bursts_dual_threshold
        except Exception:
            pass
        return ns


class _Rewrite(ast.NodeTransformer):
    """forall(i, c1, .., body) -> _forall(lambda i: c1 and .., lambda i: body); exists likewise; arrdef(j, n, b) ->
    _arrdef(n, lambda j: b); old(e) -> __old__[k] with e evaluated in the pre-call environment"""

    def __init__(self):
        self.olds = []

    def visit_Call(self, node):
        self.generic_visit(node)
        if isinstance(node.func, ast.Name):
            f = node.func.id
            if f in ('forall', 'exists') and len(node.args) >= 2:
                tgt = node.args[0]
                names = [tgt.id] if isinstance(tgt, ast.Name) else [e.id for e in tgt.elts]
                if len(names) != 1:
                    raise Skip('multi-variable quantifier')
                args = ast.arguments(posonlyargs=[], args=[ast.arg(arg=names[0])], kwonlyargs=[], kw_defaults=[], defaults=[])
                parts = node.args[1:]
                if f == 'forall':
                    conds, body = parts[:-1], parts[-1]
                    cond = ast.BoolOp(op=ast.And(), values=list(conds)) if len(conds) > 1 else (conds[0] if conds else ast.Constant(True))
                    return ast.Call(func=ast.Name('_forall', ast.Load()),
                                    args=[ast.Lambda(args=args, body=_guard(cond)), ast.Lambda(args=args, body=body)], keywords=[])
                cond = ast.BoolOp(op=ast.And(), values=list(parts)) if len(parts) > 1 else parts[0]
                return ast.Call(func=ast.Name('_exists', ast.Load()), args=[ast.Lambda(args=args, body=_guard(cond))], keywords=[])
            if f == 'arrdef':
                args = ast.arguments(posonlyargs=[], args=[ast.arg(arg=node.args[0].id)], kwonlyargs=[], kw_defaults=[], defaults=[])
                return ast.Call(func=ast.Name('_arrdef', ast.Load()), args=[node.args[1], ast.Lambda(args=args, body=node.args[2])],
                                keywords=[])
            if f == 'old':
                self.olds.append(node.args[0])
                return ast.Subscript(value=ast.Name('__old__', ast.Load()), slice=ast.Constant(len(self.olds) - 1), ctx=ast.Load())
            if f == 'call_arg':
                raise Skip('ghost call log')
        return node


def _guard(cond):
    return cond


class SeriesView:
    """df['col'] / arrays with plain integer indexing by position (the contract language indexes by position)"""


def _wrap(v):
    return v


def _positional(env):
    """DataFrames / Series are indexed by position in the contract language"""
    out = {}
    for k, v in env.items():
        out[k] = _pos(v)
    return out


class _Frame:
    def __init__(self, df):
        self.df = df
        self.columns = df.columns

    def __getitem__(self, c):
        return _Ser(self.df[c])

    def __len__(self):
        return len(self.df)


class _Ser:
    def __init__(self, s):
        self.s = s
        self.values = s.values

    def __getitem__(self, i):
        if isinstance(i, slice):
            return self.s.values[i]
        return self.s.values[i]

    def __len__(self):
        return len(self.s)

    def rank(self):
        return _Ser(self.s.rank())

    def tolist(self):
        return self.s.values.tolist()

    def __iter__(self):
        return iter(self.s.values)


def _pos(v):
    if isinstance(v, pd.DataFrame):
        return _Frame(v)
    if isinstance(v, pd.Series):
        return _Ser(v)
    if isinstance(v, tuple):
        return tuple(_pos(x) for x in v)
    if isinstance(v, dict):
        return {k: _pos(x) for k, x in v.items()}
    return v


def _max_index(*envs):
    m = 0
    for env in envs:
        for v in env.values():
            for x in (v if isinstance(v, (tuple, list)) else [v]):
                try:
                    m = max(m, len(x))
                except TypeError:
                    pass
    return m


def eval_clause(text, env, old_env):
    """-> True / False; raises Skip when the clause cannot be evaluated concretely"""
    tree = ast.parse(text.strip(), mode='eval')
    rw = _Rewrite()
    tree = rw.visit(tree)
    ast.fix_missing_locations(tree)
    ev = Evaluator(env, old_env, _max_index(env, old_env))
    ns = ev.namespace()
    penv_old = _positional(old_env)
    olds = []
    for e in rw.olds:
        code = compile(ast.fix_missing_locations(ast.Expression(body=e)), '<old>', 'eval')
        olds.append(eval(code, {**ns, **penv_old}))
    ns['__old__'] = olds
    penv = _positional(env)
    # identity clauses ("result is df_features") need the raw objects
    raw = dict(env)
    if isinstance(tree.body, ast.Compare) and len(tree.body.ops) == 1 and isinstance(tree.body.ops[0], (ast.Is, ast.IsNot)):
        code = compile(tree, '<clause>', 'eval')
        return bool(eval(code, {**ns, **raw}))
    code = compile(tree, '<clause>', 'eval')
    with np.errstate(all='ignore'):
        return bool(eval(code, {**ns, **penv}))


def check_call(fn, args, contract_case, contract_base, strict_requires=False):
    """run the real function on concrete arguments and evaluate the contract: returns None or a failure text.
    strict_requires (replay of solver models): a precondition that cannot be evaluated concretely makes the whole replay
    inconclusive ('SKIP ...') instead of being taken as satisfied."""
    import warnings
    warnings.simplefilter('ignore')
    Evaluator.strict = bool(strict_requires)
    old_env = copy.deepcopy(args)
    env = dict(args)
    raises = dict(contract_base.get('raises', {}))
    raises.update(contract_case.get('raises', {}))
    requires = list(contract_base.get('requires', [])) + list(contract_case.get('requires', []))
    for r in requires:
        try:
            if not eval_clause(r, old_env, old_env):
                return 'SKIP: requires not satisfied by the concretised input: %s' % r[:80]
        except Skip:
            if strict_requires:
                return 'SKIP: a precondition cannot be evaluated concretely: %s' % r[:80]
            continue
        except Exception as e:
            return 'SKIP: requires not evaluable (%r)' % (e,)
    import inspect
    call_kwargs = dict(args)
    try:
        for pname, prm in inspect.signature(fn).parameters.items():
            if prm.kind == inspect.Parameter.VAR_KEYWORD and pname in call_kwargs:
                extra = call_kwargs.pop(pname) or {}
                call_kwargs.update(extra)
    except (TypeError, ValueError):
        pass
    try:
        result = fn(**call_kwargs)
        raised = None
    except Exception as e:
        raised = e
        result = None
    if raised is not None:
        cls = type(raised).__name__
        cond = raises.get(cls)
        if cond is None:
            return 'raised %s(%s) which the contract does not allow' % (cls, str(raised)[:80])
        try:
            ok = eval_clause(cond, old_env, old_env)
        except Skip:
            return None
        return None if ok else 'raised %s although its condition (%s) does not hold' % (cls, cond[:80])
    for cls, cond in raises.items():
        try:
            if eval_clause(cond, old_env, old_env):
                return 'returned normally although %s was due: %s' % (cls, cond[:100])
        except Skip:
            continue
    if contract_base.get('modifies') == []:
        from .jobs_relational import deep_equal
        for name, before in old_env.items():
            if name in args and not deep_equal(args[name], before):
                return 'the call modified its argument %s (the contract says it modifies nothing)' % name
    env['result'] = result
    ens = list(contract_base.get('ensures', [])) + list(contract_case.get('ensures', []))
    for k, e in enumerate(ens):
        try:
            ok = eval_clause(e, env, old_env)
        except (Skip, NameError, AttributeError, TypeError):
            continue                       # (a form / value the concrete evaluator cannot handle is a gap of the evaluator, not a finding)
        except Exception as ex:
            return 'ensures#%d not evaluable on the real result (%r): %s' % (k + 1, ex, e[:80])
        if not ok:
            return 'ensures#%d fails on the real code: %s' % (k + 1, e[:160])
    return None
