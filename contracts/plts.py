"""bycycle.plts.cyclepoints — C20, the argument preparation of the cyclepoint plots without x-limits.

What is verified is WHAT is handed to the external drawing routine (neurodsp's plot_time_series, about which nothing is
assumed; its calls are logged as ghost state).  The time grid np.arange(0, n / fs, 1 / fs) is taken as the exact grid i / fs
(real arithmetic): the floating-point behaviour of the grid - where defects D10, D12 - D14 lived - stays with the bounded job."""
from . import contract
from vf.values import BOOL, INT, REAL, XR, STR

# extra keyword arguments of the plot functions (each may be present or absent): labels, colours, figure size
KW = ('dict', {'xlabel': STR, 'ylabel': STR, 'colors': ('tuple', ['opaque', 'opaque'])})
KWP = ('dict', {'xlabel': STR, 'ylabel': STR, 'color': 'opaque', 'figsize': 'opaque'})
PTS = "'neurodsp.plts.plot_time_series:markers'"
PCA = "'bycycle.plts.cyclepoints.plot_cyclepoints_array'"


def marker_clause(k, points, first="0", last="len(sig) - 1"):
    """C20: the markers of one kind are cyclepoints of that kind, in order, each at (sample / fs, signal value at that
    sample), and they include every cyclepoint strictly inside the view [first, last]; whether a cyclepoint exactly on the
    first or the last displayed sample is drawn is left open (four conventions)"""
    xs, ys = "call_arg(%s, 'times')[%d]" % (PTS, k), "call_arg(%s, 'sigs')[%d]" % (PTS, k)
    alts = []
    for lo in (first, "%s + 1" % first):
        for hi in (last, "%s + 1" % last):
            sel = "{p}[({p} >= {lo}) & ({p} < {hi})]".format(p=points, lo=lo, hi=hi)
            alts.append(("(len({xs}) == len({sel}) and len({ys}) == len({sel}) and "
                         "forall(j, 0 <= j < len({sel}), {xs}[j] == {sel}[j] / fs and {ys}[j] == sig[{sel}[j]]))").format(
                             xs=xs, ys=ys, sel=sel))
    return " or ".join(alts)


def _inst_of(E, g):
    for key, d in E.st.ghost.get('cmap_inst', {}).items():
        if E.st.ghost[key][1].eq(g):
            return d
    return None


def _window_proof(P):
    """after limit_signal: on the sample grid the two successive mask selections (t >= first / fs, then t < stop / fs) keep
    exactly the samples first .. stop - 1, i.e. entry j of the limited arrays is entry first + j of the originals (counting
    functions of the two selections, one induction each)"""
    import ast
    import z3
    from vf.engine import Unsupported
    E, env, node = P.E, P.env, P.node
    if not (isinstance(getattr(node, 'value', None), ast.Call) and ast.unparse(node.value.func).endswith('limit_signal')):
        return
    done = E.st.ghost.setdefault('plts_windows', {})
    a, b = E.entry_env['xlim_first'].t, E.entry_env['xlim_stop'].t
    n = E.entry_env['sig'].n
    j = z3.Int('G_j')
    for nm in ('times', 'sig'):
        arr = env[nm]
        meta = getattr(arr, 'meta', {})
        if 'cmap' not in meta or 'cmap' not in getattr(meta['compress_of'][0], 'meta', {}):
            raise Unsupported('plot proof: limit_signal did not return a two-stage selection')
        (m2, g2, cnt2), (m1, g1, cnt1) = meta['cmap'], meta['compress_of'][0].meta['cmap']
        for stage, (m, g, cnt), lo, width, total in ((1, (m1, g1, cnt1), a, n - a, n), (2, (m2, g2, cnt2), 0, b - a, n - a)):
            if str(g) in done:
                continue
            tag = 'win%d' % (len(done) + 1)
            done[str(g)] = tag
            inst = _inst_of(E, g)
            if inst is None:
                raise Unsupported('plot proof: selection map without instantiable axioms')
            # stage 1 keeps the indices >= first; stage 2 keeps the first stop - first of what is left
            keep = (lambda x: x >= a) if stage == 1 else (lambda x: x < b - a)
            by_mask = [] if stage == 1 else [P.inst(done[str(g1)] + ':map', j)]
            P.forall(tag + ':mask', [j], z3.And(j >= 0, j < total), inst['mask'](j) == keep(j), by=by_mask)
            count = (lambda x: z3.If(x <= a, 0, x - a)) if stage == 1 else (lambda x: z3.If(x <= b - a, x, b - a))
            P.induct_q(tag + ':count', j, z3.IntVal(0), total, cnt(j) == count(j), lambda i: [inst['rec'](i), P.inst(tag + ':mask', i)])
            P.ground(tag + ':len', m == width, by=[P.inst(tag + ':count', total), inst['base'], E.st.ghost['facts']['requires'][1]])
            P.forall(tag + ':map', [j], z3.And(j >= 0, j < width), g(j) == lo + j,
                     by=[inst['hit'](lo + j), P.inst(tag + ':count', lo + j), P.inst(tag + ':mask', lo + j),
                         E.st.ghost['facts']['requires'][1]], patterns=[g(j)])
        # the first and the last displayed sample, as ground facts (the code computes its window from times[0] and times[-1])
        t1, t2 = done[str(g1)], done[str(g2)]
        P.ground('%s:ends' % nm, z3.And(m2 == b - a, g2(0) == 0, g1(0) == a, g2(m2 - 1) == m2 - 1, g1(g2(0)) == a,
                                        g1(g2(m2 - 1)) == b - 1, g1(m2 - 1) == b - 1),
                 by=[P.inst(t2 + ':map', 0), P.inst(t2 + ':map', b - a - 1), P.inst(t1 + ':map', 0), P.inst(t1 + ':map', b - a - 1),
                     E.st.ghost['facts'][t2 + ':len'], E.st.ghost['facts'][t1 + ':len'], E.st.ghost['facts']['requires'][1]])


def _grid_window(E, env):
    """x-limits on the sample grid: (first / fs, stop / fs) for two integers, named xlim_first and xlim_stop in the clauses"""
    import z3
    from vf.values import Z, fresh_name
    a, b = z3.Int(fresh_name('xlim_first')), z3.Int(fresh_name('xlim_stop'))
    fs = env['fs'].t
    env['xlim_first'], env['xlim_stop'] = Z(a, INT), Z(b, INT)
    return (Z(z3.ToReal(a) / fs, REAL), Z(z3.ToReal(b) / fs, REAL))


def _grid_window_at_call(E, bound):
    """the two grid integers of x-limits that were built as (first / fs, stop / fs)"""
    import z3
    from vf.engine import Unsupported
    from vf.values import Z
    xl, fs = bound.get('xlim'), bound.get('fs')
    out = {}
    for name, v in zip(('xlim_first', 'xlim_stop'), xl if isinstance(xl, tuple) else ()):
        t = getattr(v, 't', None)
        if t is None or not (z3.is_div(t) and z3.is_to_real(t.arg(0)) and t.arg(1).eq(fs.t)):
            raise Unsupported('x-limits that are not visibly on the sample grid')
        out[name] = Z(t.arg(0).arg(0), INT)
    if len(out) != 2:
        raise Unsupported('x-limits that are not visibly on the sample grid')
    return out


def _array_cases():
    out = []
    kinds = ('peaks', 'troughs', 'rises', 'decays')
    for label, given, plot_sig in (('all-kinds', kinds, False), ('all-kinds', kinds, True), ('extrema-only', kinds[:2], False),
                                  ('zerox-only', kinds[2:], True), ('no-kinds', (), True)):
        params = {'sig': ('arr', REAL), 'fs': REAL, 'plot_sig': ('const', plot_sig), 'ax': 'opaque', 'kwargs': KW,
                  'xlim': ('derived', _grid_window, ('tuple', [REAL, REAL]))}
        for k in kinds:
            params[k] = ('arr', INT) if k in given else 'none'
        out.append(dict(
            label='xlim=grid,%s,plot_sig=%s' % (label, plot_sig), params=params,
            # a window of at least one sample inside the signal; the view is the displayed sample range [first, stop - 1]
            requires=["fs > 0", "0 <= xlim_first and xlim_first < xlim_stop and xlim_stop <= len(sig)"],
            inline_callees=['bycycle.utils.timeseries.limit_signal'], call_ghosts=_grid_window_at_call,
            proof={('after_assign', 'times'): _window_proof},
            ensures=["result is None",
                     "len(call_arg(%s, 'times')) == %d and len(call_arg(%s, 'sigs')) == %d" % (PTS, len(given), PTS, len(given))]
            + [marker_clause(k, nm, first="xlim_first", last="xlim_stop - 1") for k, nm in enumerate(given)]))
    for label, given in (('all-kinds', kinds), ('extrema-only', kinds[:2]), ('zerox-only', kinds[2:]), ('peaks-only', kinds[:1]), ('no-kinds', ())):
        for plot_sig in (False, True):
            params = {'sig': ('arr', REAL), 'fs': REAL, 'plot_sig': ('const', plot_sig), 'xlim': 'none', 'ax': 'opaque',
                      'kwargs': KW}
            for k in kinds:
                params[k] = ('arr', INT) if k in given else 'none'
            out.append(dict(
                label='xlim=None,%s,plot_sig=%s' % (label, plot_sig), params=params,
                requires=["fs > 0", "len(sig) >= 2"],
                ensures=["result is None",
                         "len(call_arg(%s, 'times')) == %d and len(call_arg(%s, 'sigs')) == %d" % (PTS, len(given), PTS, len(given))]
                + [marker_clause(k, nm) for k, nm in enumerate(given)]))
    return out


contract('bycycle.plts.cyclepoints.plot_cyclepoints_array', cases=_array_cases(), raises={'ValueError': "fs < 0"},
         modifies=['ax'])          # the drawing surface is drawn on; nothing else is touched


# ------------------------------------------------------------------------------------------------ plot_cyclepoints_df
def _unique_proof(contains, only):
    """the two membership clauses about np.unique(np.append(opening, closing)) from explicit instances of its assumed
    contract: entry i of the first half and entry len + i of the second half have a position in the result, and every
    result entry has a source"""
    def h(P):
        E = P.E
        if not E.st.ghost.get('unique'):
            return
        ax = E.st.ghost['facts']['unique#1']
        env2 = dict(E.entry_env)
        env2['result'] = None
        n = E.entry_env['df_samples'].n
        P.prove_clause('unique:contains', contains, env2, lambda i: [P.inst_formula(ax[3], i), P.inst_formula(ax[3], n + i), ax[0]])
        P.prove_clause('unique:only', only, env2, lambda j: [P.inst_formula(ax[2], j), ax[0]])
    return h


def _df_cases():
    from .features_burst import sample_cols
    out = []
    for centre in ('peak', 'trough'):
        side = 'trough' if centre == 'peak' else 'peak'
        cols = {c: INT for c in sample_cols(centre)}
        for pe, pz, ps, grid in ((True, True, True, False), (True, True, False, False), (True, False, False, False),
                                 (False, True, True, False), (False, False, True, False),
                                 (True, True, True, True), (True, True, False, True), (True, False, False, True),
                                 (False, True, True, True), (False, False, True, True)):
            if True:
                ens = ["result is None",
                       # the signal, the rate and the (absent) limits reach the array version unchanged
                       "call_arg(%s, 'sig') is sig and call_arg(%s, 'fs') == fs and " % (PCA, PCA) +
                       ("call_arg(%s, 'xlim') is None" % PCA if not grid else
                        "call_arg(%s, 'xlim')[0] == xlim[0] and call_arg(%s, 'xlim')[1] == xlim[1]" % (PCA, PCA))]
                if pe:
                    ctr = "call_arg(%s, 'peaks')" % PCA
                    sd = "call_arg(%s, 'troughs')" % PCA
                    last, nxt = "df_samples['sample_last_%s']" % side, "df_samples['sample_next_%s']" % side
                    ens += [
                        # C20: the first kind of marker is the centre extremum of every cycle (whatever the centring) ...
                        "len({c}) == len(df_samples) and forall(i, 0 <= i < len(df_samples), {c}[i] == df_samples['sample_{k}'][i])".format(c=ctr, k=centre),
                        # ... the second kind are the side extrema: every opening and every closing one, nothing else, once each
                        "forall(j, 0 <= j < len({s}) - 1, {s}[j] < {s}[j + 1])".format(s=sd),
                        "forall(i, 0 <= i < len(df_samples), exists(j, 0 <= j < len({s}), {s}[j] == {l}[i]) and "
                        "exists(j, 0 <= j < len({s}), {s}[j] == {n}[i]))".format(s=sd, l=last, n=nxt),
                        "forall(j, 0 <= j < len({s}), exists(i, 0 <= i < len(df_samples), {s}[j] == {l}[i] or {s}[j] == {n}[i]))".format(
                            s=sd, l=last, n=nxt)]
                else:
                    ens.append("call_arg(%s, 'peaks') is None and call_arg(%s, 'troughs') is None" % (PCA, PCA))
                if pz:
                    for kind in ('rise', 'decay'):
                        a = "call_arg(%s, '%ss')" % (PCA, kind)
                        ens.append("len({a}) == len(df_samples) and forall(i, 0 <= i < len(df_samples), "
                                   "{a}[i] == df_samples['sample_zerox_{k}'][i])".format(a=a, k=kind))
                else:
                    ens.append("call_arg(%s, 'rises') is None and call_arg(%s, 'decays') is None" % (PCA, PCA))
                extra = {}
                if pe:
                    extra = dict(proof={('before_return',): _unique_proof(ens[4], ens[5])},
                                 ensures_using={5: ['unique:contains'], 6: ['unique:only']})
                out.append(dict(
                    label='%s-centred,extrema=%s,zerox=%s,plot_sig=%s,xlim=%s' % (centre, pe, pz, ps, 'grid' if grid else 'None'), **extra,
                    params={'df_samples': ('frame', cols), 'sig': ('arr', REAL), 'fs': REAL, 'plot_sig': ('const', ps),
                            'plot_extrema': ('const', pe), 'plot_zerox': ('const', pz), 'ax': 'opaque', 'kwargs': KW,
                            'xlim': ('derived', _grid_window, ('tuple', [REAL, REAL])) if grid else 'none'},
                    requires=["fs > 0"] + (["len(sig) >= 2"] if not grid else
                                           ["0 <= xlim_first and xlim_first < xlim_stop and xlim_stop <= len(sig)"]),
                    ensures=ens))
    return out


contract('bycycle.plts.cyclepoints.plot_cyclepoints_df', cases=_df_cases(), raises={'ValueError': "fs < 0"}, modifies=['ax'])


# ------------------------------------------------------------------------------------------------ plot_burst_detect_param
PANEL_T = "call_arg('neurodsp.plts.plot_time_series', 'times')"
PANEL_S = "call_arg('neurodsp.plts.plot_time_series', 'sigs')"

def _step_cases():
    """interp=False: each cycle's value is drawn as a step from its opening to its closing side extremum"""
    from .features_burst import shape_frame_type
    from .burst import FEATS
    out = []
    for centre in ('peak', 'trough'):
        side = 'trough' if centre == 'peak' else 'peak'
        for param in ('amp_fraction', 'monotonicity'):
            cols = dict(shape_frame_type(centre)[1])
            cols.update({f: XR for f in FEATS})
            cols['is_burst'] = BOOL
            L, N = "df_features['sample_last_%s']" % side, "df_features['sample_next_%s']" % side
            out.append(dict(
                label='%s-centred,%s,xlim=None,interp=False' % (centre, param),
                params={'df_features': ('frame', cols), 'sig': ('arr', REAL), 'fs': REAL, 'burst_param': ('const', param),
                        'thresh': REAL, 'xlim': 'none', 'interp': ('const', False), 'ax': 'opaque', 'kwargs': KWP},
                requires=["fs > 0", "len(sig) >= 2",
                          "forall(i, 0 <= i < len(df_features), 0 <= {L}[i] and {L}[i] < {N}[i] and {N}[i] < len(sig))".format(L=L, N=N)],
                loops={1: dict(index='k', regrown={'side_times': REAL, 'side_param': XR}, invariant=[
                    "len(side_times) == 2 * k and len(side_param) == 2 * k",
                    "forall(r, 0 <= r < k, side_times[2 * r] == {L}[r] / fs and side_times[2 * r + 1] == {N}[r] / fs)".format(L=L, N=N),
                    "forall(r, 0 <= r < k, same(side_param[2 * r], df_features['{p}'][r]) and "
                    "same(side_param[2 * r + 1], df_features['{p}'][r]))".format(p=param)]),
                       2: dict(index='k2', invariant=[])},
                ensures=["result is None",
                         "len({T}[0]) == 2 * len(df_features) and forall(r, 0 <= r < len(df_features), "
                         "{T}[0][2 * r] == {L}[r] / fs and {T}[0][2 * r + 1] == {N}[r] / fs)".format(T=PANEL_T, L=L, N=N),
                         "len({S}[0]) == 2 * len(df_features) and forall(r, 0 <= r < len(df_features), "
                         "same({S}[0][2 * r], df_features['{p}'][r]) and same({S}[0][2 * r + 1], df_features['{p}'][r]))".format(
                             S=PANEL_S, p=param),
                         "{T}[1][0] == 0 and {T}[1][1] == (len(sig) - 1) / fs".format(T=PANEL_T),
                         "{S}[1][0] == thresh and {S}[1][1] == thresh".format(S=PANEL_S)]))
    return out


def _param_cases():
    from .features_burst import shape_frame_type
    from .burst import FEATS
    out = []
    for centre in ('peak', 'trough'):
        side = 'trough' if centre == 'peak' else 'peak'
        for param in ('amp_fraction', 'amp_consistency', 'period_consistency', 'monotonicity'):
            cols = dict(shape_frame_type(centre)[1])
            cols.update({f: XR for f in FEATS})
            cols['is_burst'] = BOOL
            out.append(dict(
                label='%s-centred,%s,xlim=None,interp=True' % (centre, param),
                params={'df_features': ('frame', cols), 'sig': ('arr', REAL), 'fs': REAL, 'burst_param': ('const', param),
                        'thresh': REAL, 'xlim': 'none', 'interp': ('const', True), 'ax': 'opaque', 'kwargs': KWP},
                requires=["fs > 0", "len(sig) >= 2",
                          "forall(i, 0 <= i < len(df_features), 0 <= df_features['sample_%s'][i] and "
                          "df_features['sample_%s'][i] < len(sig))" % (centre, centre),
                          "forall(i, 0 <= i < len(df_features), 0 <= df_features['sample_last_%s'][i] and "
                          "df_features['sample_last_%s'][i] < df_features['sample_next_%s'][i] and "
                          "df_features['sample_next_%s'][i] < len(sig))" % (side, side, side, side)],
                loops={2: dict(index='k', invariant=[])},
                # C20: the panel shows the parameter's per-cycle values at the cycle centres (sample / fs), and the threshold
                # line spans the displayed time axis at the given threshold
                ensures=["result is None",
                         "len({T}[0]) == len(df_features) and forall(i, 0 <= i < len(df_features), "
                         "{T}[0][i] == df_features['sample_{c}'][i] / fs)".format(T=PANEL_T, c=centre),
                         "len({S}[0]) == len(df_features) and forall(i, 0 <= i < len(df_features), "
                         "same({S}[0][i], df_features['{p}'][i]))".format(S=PANEL_S, p=param),
                         "{T}[1][0] == 0 and {T}[1][1] == (len(sig) - 1) / fs".format(T=PANEL_T),
                         "{S}[1][0] == thresh and {S}[1][1] == thresh".format(S=PANEL_S)]))
    return out


contract('bycycle.plts.burst.plot_burst_detect_param', cases=_param_cases() + _step_cases(), raises={'ValueError': "fs < 0"}, modifies=['ax'])


# ------------------------------------------------------------------------------------------------ plot_burst_detect_summary (experiment)
MASK = "call_arg('neurodsp.plts.plot_bursts', 'bursting')"
MASK_T = "call_arg('neurodsp.plts.plot_bursts', 'times')"
# C20: the highlighted samples are all samples of every cycle labelled is_burst ...
MASK_ALL = ("forall(i, 0 <= i < len(df_features) and df_features['is_burst'][i], "
            "forall(j, df_features['sample_last_{s}'][i] <= j <= df_features['sample_next_{s}'][i], {B}[j]))")
# ... and only samples of such cycles
MASK_ONLY = ("forall(j, 0 <= j < len(sig) and {B}[j], exists(i, 0 <= i < len(df_features), df_features['is_burst'][i] and "
             "df_features['sample_last_{s}'][i] <= j and j <= df_features['sample_next_{s}'][i]))")


def _mask_proof(side):
    """from the loop invariant over the bursting rows (df_osc = the rows selected by is_burst, in order) to the statement over
    the whole table: a bursting row i is row cnt(i) of the selection, and row r of the selection is row g(r) of the table"""
    def h(P):
        import z3
        E, env = P.E, P.env
        F = E.st.ghost['facts']
        dfo = env['df_osc']
        f0, g, cnt = dfo.meta['rows_of']
        inst = _inst_of(E, g)
        key = [k for k, v in E.st.ghost.items() if isinstance(k, tuple) and k and k[0] == 'cmap' and isinstance(v, tuple) and v[1].eq(g)][0]
        ax = E.st.ghost['cmap_axioms'][key]
        env2 = dict(E.entry_env)
        env2['result'] = None
        inv, ex = F['loop1-inv'], F['loop1-exit']
        exs = ex if isinstance(ex, list) else [ex]

        def by_all(i):
            return [inst['hit'](i), inst['rec'](i), inst['base']] + [P.inst_formula(f, cnt(i)) if (z3.is_quantifier(f) and f.num_vars() == 1) else f
                                                                       for f in inv] + exs
        P.prove_clause('mask:all', MASK_ALL.format(B=MASK, s=side), env2, by_all)
        P.prove_clause('mask:only', MASK_ONLY.format(B=MASK, s=side), env2,
                       lambda j: [P.inst_formula(f, j) if (z3.is_quantifier(f) and f.num_vars() == 1) else f for f in inv] + exs + list(ax))
    return h


def _summary_cases():
    from .features_burst import shape_frame_type
    from .burst import FEATS
    out = []
    for centre, only, interp in (('peak', True, True), ('trough', True, True), ('peak', False, True), ('trough', False, True),
                                 ('peak', False, False), ('trough', False, False)):
        side = 'trough' if centre == 'peak' else 'peak'
        cols = dict(shape_frame_type(centre)[1])
        cols.update({f: XR for f in FEATS})
        cols['is_burst'] = BOOL
        out.append(dict(
            label='%s-centred,xlim=None,only-result=%s,interp=%s' % (centre, only, interp),
            params={'df_features': ('frame', cols), 'sig': ('arr', REAL), 'fs': REAL,
                    'threshold_kwargs': ('dictp', {'amp_fraction_threshold': REAL, 'monotonicity_threshold': REAL}), 'xlim': 'none',
                    'figsize': ('tuple', [INT, INT]), 'plot_only_result': ('const', only), 'interp': ('const', interp)},
            requires=["fs > 0", "len(sig) >= 2",
                      "forall(i, 0 <= i < len(df_features), 0 <= df_features['sample_%s'][i] and "
                      "df_features['sample_%s'][i] < len(sig))" % (centre, centre),
                      "forall(i, 0 <= i < len(df_features), 0 <= df_features['sample_last_%s'][i] and "
                      "df_features['sample_last_%s'][i] < df_features['sample_next_%s'][i] and "
                      "df_features['sample_next_%s'][i] < len(sig))" % (side, side, side, side)],
            loops={1: dict(index='k', mutates=['is_osc'], invariant=[
                "len(is_osc) == len(sig)",
                "forall(r, 0 <= r < k, forall(j, df_osc['sample_last_%s'][r] <= j <= df_osc['sample_next_%s'][r], is_osc[j]))" % (side, side),
                "forall(j, 0 <= j < len(sig) and is_osc[j], exists(r, 0 <= r < k, df_osc['sample_last_%s'][r] <= j and "
                "j <= df_osc['sample_next_%s'][r]))" % (side, side)]),
                   2: dict(index='k2', invariant=[]), 3: dict(index='k3', invariant=[])},
            proof={('before_return',): _mask_proof(side)},
            ensures_using={3: ['mask:all'], 4: ['mask:only']},
            ensures=["result is None",
                     "len({B}) == len(sig) and len({T}) == len(sig) and forall(j, 0 <= j < len(sig), {T}[j] == j / fs)".format(B=MASK, T=MASK_T),
                     MASK_ALL.format(B=MASK, s=side), MASK_ONLY.format(B=MASK, s=side)] + ([] if only else [
                         # the (last) parameter panel is drawn from the same table with its own column and threshold
                         "call_arg(PARAM, 'df_features') is df_features and call_arg(PARAM, 'burst_param') == 'monotonicity' and "
                         "call_arg(PARAM, 'thresh') == value(threshold_kwargs, 'monotonicity_threshold') and "
                         "call_arg(PARAM, 'xlim') is None and call_arg(PARAM, 'fs') == fs".replace(
                             "PARAM", "'bycycle.plts.burst.plot_burst_detect_param'")])))
    return out


def _summary_abstract(E, args, node):
    """a call with an opaque table (Bycycle.plot at object level): bound against the real signature and logged"""
    from vf.calls import byc_plot_summary_logged
    return byc_plot_summary_logged(E, args, node)


contract('bycycle.plts.burst.plot_burst_detect_summary', cases=_summary_cases(), raises={'ValueError': "fs < 0"}, modifies=[],
         abstract=_summary_abstract)
