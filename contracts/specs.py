"""Spec functions (the oracles of DESIGN.md section 3), as terms for the deductive side.

Array-valued arguments are *materialised* (vf.engine.Engine.mat) so that arrays that agree on their range are
equal terms; the functions themselves are uninterpreted symbols whose defining axioms are supplied, as explicit
`unfold` steps, only in the proofs that need them (modular reasoning: a caller of check_min_burst_cycles sees
MR(...) as an opaque function of the mask, the count and the position).
"""
import z3

from vf.spec import specfn, form
from vf.values import Z, X, INT, REAL, BOOL, XR, Arr, fresh_name
from vf.engine import zbool, lift, Unsupported
from vf.lib import term_int

BoolArr = z3.ArraySort(z3.IntSort(), z3.BoolSort())
IntArr = z3.ArraySort(z3.IntSort(), z3.IntSort())
RealArr = z3.ArraySort(z3.IntSort(), z3.RealSort())

# MR(b, n, m, i): position i of the boolean array b[0:n] lies in a run of True of length >= m
MR = z3.Function('minrun', BoolArr, z3.IntSort(), z3.IntSort(), z3.IntSort(), z3.BoolSort())


def minrun_def(A, n, m, i):
    """the definition of MR at (A, n, m, i): A[i] and some window [a, c) of length >= m of True around i"""
    a = z3.Int(fresh_name('a'))
    c = z3.Int(fresh_name('c'))
    k = z3.Int(fresh_name('k'))
    window = z3.Exists([a, c], z3.And(0 <= a, a <= i, i < c, c <= n, c - a >= m,
                                      z3.ForAll([k], z3.Implies(z3.And(a <= k, k < c), z3.Select(A, k)))))
    return z3.And(0 <= i, i < n, z3.Select(A, i), window)


@specfn('minrun')
def minrun(E, b, m, i):
    if not isinstance(b, Arr) or b.ty != BOOL:
        raise Unsupported('minrun over %r' % (b,))
    return Z(MR(E.mat(b), term_int(lib_len(b)), term_int(m), term_int(i)), BOOL)


def lib_len(a):
    return a.n if isinstance(a.n, int) else Z(a.n, INT)
