"""bycycle.utils.dataframes.epoch_df — C13 (per-epoch table construction), C15 (frame)."""
from . import contract
from .features_burst import SHAPE_COLS, sample_cols
from .burst import FEATS
from vf.values import BOOL, INT, REAL, XR


def _epoch_cases():
    out = []
    for centre in ('peak', 'trough'):
        cols = dict(SHAPE_COLS)
        cols.update({f: XR for f in FEATS})
        cols['is_burst'] = BOOL
        samples = sample_cols(centre)
        for c in samples:
            cols[c] = INT
        closing = 'sample_next_trough' if centre == 'peak' else 'sample_next_peak'
        mask = ("arrdef(i, len(df_features), df_features['%s'][i] <= last_idx and df_features['%s'][i] > first_idx)"
                % (closing, closing))
        out.append(dict(
            label='%s-centred' % centre,
            params={'df_features': ('frame', cols), 'sig_len': INT, 'epoch_len': INT},
            requires=["epoch_len > 0 and sig_len > 0"],
            loops={1: dict(index='e', invariant=[], opaque_lists=['dfs_features'], body_ensures=[
                # C13, for an arbitrary epoch e: the half-open window (e*L, (e+1)*L] on the closing side extremum ...
                "first_idx == e * epoch_len and last_idx == (e + 1) * epoch_len",
                # ... selects exactly those cycles, in order, with every value unchanged and every sample_* column
                # shifted to be relative to the epoch start
                "selects(df_single, df_features, %s, %r, first_idx)" % (mask, tuple(samples)),
            ])}))
    return out


contract('bycycle.utils.dataframes.epoch_df', cases=_epoch_cases(), modifies=[])

contract('bycycle.utils.dataframes.get_extrema_df', inline=True)
