"""Signal corpus for the bounded pipeline jobs: the families named in C01's quantifier, seeded."""
import numpy as np

FAMILIES = ['sine', 'asym', 'bursty', 'noise1f', 'sum', 'chirp', 'quantised', 'clipped', 'zeroed', 'dc', 'scaled',
            'slowdrift']


def make_signal(family, seed, n=1500, fs=500.0, f=10.0):
    rng = np.random.RandomState(seed)
    t = np.arange(n) / fs
    ph = rng.uniform(0, 2 * np.pi)
    base = np.sin(2 * np.pi * f * t + ph)
    if family == 'sine':
        sig = base
    elif family == 'asym':
        sig = base + 0.35 * np.sin(4 * np.pi * f * t + 2 * ph + 0.7)
    elif family == 'bursty':
        env = (np.sin(2 * np.pi * 0.8 * t + rng.uniform(0, 6)) > -0.1).astype(float)
        sig = env * base + 0.25 * rng.randn(n)
    elif family == 'noise1f':
        w = rng.randn(n)
        spec = np.fft.rfft(w)
        fr = np.fft.rfftfreq(n, 1 / fs)
        fr[0] = fr[1]
        sig = np.fft.irfft(spec / fr, n)
        sig = sig / np.std(sig) + 0.8 * base
    elif family == 'sum':
        sig = base + 0.5 * np.sin(2 * np.pi * 23 * t + 1.1) + 0.3 * np.sin(2 * np.pi * 3.1 * t)
    elif family == 'chirp':
        sig = np.sin(2 * np.pi * (f - 1.5 + 3.0 * t / t[-1]) * t + ph)
    elif family == 'quantised':
        sig = np.round(3 * (base + 0.2 * rng.randn(n))) / 3.0
    elif family == 'clipped':
        sig = np.clip(base + 0.1 * rng.randn(n), -0.6, 0.6)
    elif family == 'zeroed':
        sig = base + 0.1 * rng.randn(n)
        a = rng.randint(n // 4, n // 2)
        sig[a:a + int(0.9 * fs)] = 0.0        # longer than the FIR filter: exact zeros in the band-passed signal
    elif family == 'dc':
        sig = base + 0.15 * rng.randn(n) + 7.5
    elif family == 'scaled':
        sig = (base + 0.1 * rng.randn(n)) * 10.0 ** rng.randint(-3, 4)
    elif family == 'slowdrift':
        # out-of-band content dominating the rhythm: raw peaks below adjacent raw troughs (negative flank voltages)
        sig = base + 25.0 * np.sin(2 * np.pi * 0.7 * t + 0.3 + ph)
    else:
        raise ValueError(family)
    return np.ascontiguousarray(sig, dtype=float)
