#!/bin/bash
# usage: tools/verify_seed.sh <worktree>  -- confirm a seeded change: tests pass with it, demo fails with it and passes without
wt="$1"
cd "$wt" || exit 2
export PYTHONPATH="$wt"
git -C "$wt" diff --quiet -- bycycle && { echo "worktree has no change applied"; }
echo "--- tests with the change"
/venv/bin/python -m pytest -q -p no:cacheprovider --timeout=900 bycycle/tests --deselect bycycle/tests/utils/test_download.py --deselect bycycle/tests/test_persistence.py 2>&1 | tail -1
echo "--- demo with the change (expect FAIL / exit 1)"
/venv/bin/python seed_out/demo.py 2>&1 | tail -2; echo "exit=$?"
git -C "$wt" apply -R seed_out/patch.diff
echo "--- demo without the change (expect PASS / exit 0)"
/venv/bin/python seed_out/demo.py 2>&1 | tail -1; echo "exit=${PIPESTATUS[0]}"
git -C "$wt" apply seed_out/patch.diff
