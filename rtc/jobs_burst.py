"""Bounded stand-ins for the burst-labelling functions (C06, C07, C08, C19)."""
import itertools
import math
import random

import numpy as np
import pandas as pd

from .core import job
from . import oracles as O

NAN = float('nan')


@job('min_burst_cycles', props=['C08', 'C06', 'C07', 'C16'], function='bycycle.burst.utils.check_min_burst_cycles')
class MinBurstCycles:
    exhaustive = True
    chunk = 2000

    def bound(self, tier):
        n = 10 if tier == 'quick' else 14
        return 'every boolean array of length <= %d, every min_n_cycles in [-1, n+1]; plus random arrays up to ' \
               'length 60 (thorough)' % n

    def gen(self, tier, seed):
        nmax = 10 if tier == 'quick' else 14
        for n in range(0, nmax + 1):
            for bits in range(1 << n):
                for m in range(-1, n + 2):
                    yield {'bits': bits, 'n': n, 'm': m}
        if tier != 'quick':
            rng = random.Random(seed)
            for _ in range(20000):
                n = rng.randint(15, 60)
                p = rng.choice([0.2, 0.5, 0.8])
                bits = sum((1 << k) for k in range(n) if rng.random() < p)
                yield {'bits': bits, 'n': n, 'm': rng.randint(0, 8)}

    def nontrivial(self, c):
        return c['n'] >= 2 and c['bits'] not in (0, (1 << c['n']) - 1) and c['m'] >= 2

    def run(self, c):
        from bycycle.burst.utils import check_min_burst_cycles
        n, m = c['n'], c['m']
        b = [bool((c['bits'] >> k) & 1) for k in range(n)]
        arr = np.array(b, dtype=bool)
        try:
            out = check_min_burst_cycles(arr, min_n_cycles=m)
        except ValueError:
            if m < 0 and n > 0:
                return None
            return 'ValueError for valid min_n_cycles=%d' % m
        if m < 0 and n > 0:
            return 'negative min_n_cycles accepted'
        if out is not arr and n > 0:
            pass      # the statement only fixes the returned values, identity is checked deductively
        if len(out) != n:
            return 'length changed: %d -> %d' % (n, len(out))
        exp = O.minrun(b, m)
        got = [bool(x) for x in out]
        if got != exp:
            return 'labels %s expected %s' % (got, exp)
        again = check_min_burst_cycles(np.array(got, dtype=bool), min_n_cycles=m)
        if [bool(x) for x in again] != got:
            return 'not idempotent: second application gives %s' % [bool(x) for x in again]
        return None


CELL = [('above', +1), ('at', 0), ('below', -1), ('nan', None)]


def _row_patterns():
    """per-row qualifying patterns: all above; exactly one feature at / below / nan"""
    pats = [(1, 1, 1, 1)]
    for k in range(4):
        for v in (0, -1, None):
            p = [1, 1, 1, 1]
            p[k] = v
            pats.append(tuple(p))
    return pats


@job('detect_bursts_cycles', props=['C06', 'C19'], function='bycycle.burst.cycle.detect_bursts_cycles')
class DetectCycles:
    exhaustive = True
    chunk = 300
    THR = (0.25, 0.5, 0.5, 0.75)
    COLS = ('amp_fraction', 'amp_consistency', 'period_consistency', 'monotonicity')

    def bound(self, tier):
        n = 3 if tier == 'quick' else 5
        return ('tables with <= %d rows (quick: plus 3000 seeded 4- and 5-row tables), each row one of 13 patterns (all features above their threshold, or '
                'exactly one feature exactly at / just below / NaN), min_n_cycles in [0, n+1]; plus threshold '
                'vectors at, just inside and just outside [0,1]' % n)

    def gen(self, tier, seed):
        nmax = 3 if tier == 'quick' else 5
        pats = _row_patterns()
        for n in range(1, nmax + 1):
            for rows in itertools.product(range(len(pats)), repeat=n):
                for m in range(0, n + 2):
                    yield {'rows': list(rows), 'm': m, 'thr': list(self.THR)}
        # threshold vectors on the ends of [0, 1] (a value exactly 0 or NaN must not qualify against threshold 0)
        for thr in ([0., 0., 0., 0.], [0., .5, .5, .75], [.25, 0., .5, 0.], [1., 1., 1., 1.], [0., 1., 0., 1.]):
            for n in range(3, 5):
                for rows in itertools.product(range(len(pats)), repeat=n):
                    if tier == 'quick' and n == 4 and hash(rows) % 5:
                        continue
                    yield {'rows': list(rows), 'm': 2, 'thr': thr}
        if tier == 'quick':
            rng = random.Random(seed)
            for _ in range(3000):
                n = rng.choice([4, 5, 6])
                rows = [0 if rng.random() < 0.6 else rng.randrange(len(pats)) for _ in range(n)]
                yield {'rows': rows, 'm': rng.randint(0, n + 1), 'thr': list(self.THR)}
        # range checks: every threshold at / just inside / just outside its range; negative min_n_cycles
        for k in range(4):
            for v in (-1e-9, 0.0, 1e-9, 1 - 1e-9, 1.0, 1 + 1e-9, -1.0, 2.0):
                thr = list(self.THR)
                thr[k] = v
                yield {'rows': [0, 0, 0, 0], 'm': 2, 'thr': thr}
        yield {'rows': [0, 0, 0], 'm': -1, 'thr': list(self.THR)}

    def nontrivial(self, c):
        return len(c['rows']) >= 3 and any(r == 0 for r in c['rows'][1:-1])

    def run(self, c):
        from bycycle.burst.cycle import detect_bursts_cycles
        pats = _row_patterns()
        thr = c['thr']
        eps = 1e-6
        data = {col: [] for col in self.COLS}
        for r in c['rows']:
            for k, col in enumerate(self.COLS):
                v = pats[r][k]
                base = min(max(thr[k], 0.0), 1.0)
                data[col].append(NAN if v is None else base + v * eps)
        df = pd.DataFrame(data)
        before = df.copy()
        kw = dict(zip([col + '_threshold' for col in self.COLS], thr))
        valid = all(0 <= t <= 1 for t in thr) and c['m'] >= 0
        try:
            out = detect_bursts_cycles(df, min_n_cycles=c['m'], **kw)
        except ValueError as e:
            return None if not valid else 'ValueError on valid settings: %s' % e
        if not valid:
            return 'invalid settings accepted: thr=%s m=%s' % (thr, c['m'])
        n = len(df)
        q = [0 < i < n - 1 and all(O.gt(before[col].values[i], thr[k]) for k, col in enumerate(self.COLS))
             for i in range(n)]
        exp = O.minrun(q, c['m'])
        got = [bool(x) for x in out['is_burst'].values]
        if got != exp:
            return 'is_burst %s expected %s' % (got, exp)
        for col in self.COLS:
            if not O.same_array(out[col].values, before[col].values):
                return 'feature column %s changed' % col
        return None


@job('detect_bursts_amp', props=['C07', 'C19'], function='bycycle.burst.amp.detect_bursts_amp')
class DetectAmp:
    exhaustive = True
    chunk = 500

    def bound(self, tier):
        n = 6 if tier == 'quick' else 8
        return ('burst_fraction columns of length <= %d over {thr-eps, thr, thr+eps, nan}, thresholds '
                '{0, 0.5, 1}, min_n_cycles in [0, n+1]; plus thresholds just outside [0,1]' % n)

    def gen(self, tier, seed):
        nmax = 6 if tier == 'quick' else 8
        for n in range(0, nmax + 1):
            for cells in itertools.product(range(4), repeat=n):
                for thr in (0.0, 0.5, 1.0):
                    for m in ((0, 1, 2, 3, n + 1) if n > 4 else range(0, n + 2)):
                        yield {'cells': list(cells), 'thr': thr, 'm': m}
        for thr in (-1e-9, 1 + 1e-9, -1.0, 2.0):
            yield {'cells': [0, 0, 0], 'thr': thr, 'm': 2}
        yield {'cells': [0, 0, 0], 'thr': 0.5, 'm': -1}

    def nontrivial(self, c):
        return len(c['cells']) >= 3 and 0 in c['cells'] and 2 in c['cells']

    def run(self, c):
        from bycycle.burst.amp import detect_bursts_amp
        thr, m = c['thr'], c['m']
        eps = 1e-6
        vals = [{0: thr + eps, 1: thr, 2: thr - eps, 3: NAN}[k] for k in c['cells']]
        df = pd.DataFrame({'burst_fraction': np.array(vals, dtype=float)})
        valid = 0 <= thr <= 1 and (m >= 0 or len(vals) == 0)
        try:
            out = detect_bursts_amp(df, burst_fraction_threshold=thr, min_n_cycles=m)
        except ValueError as e:
            return None if not valid else 'ValueError on valid settings: %s' % e
        if not valid:
            return 'invalid settings accepted: thr=%s m=%s' % (thr, m)
        q = [O.ge(v, thr) for v in vals]
        exp = O.minrun(q, m)
        got = [bool(x) for x in out['is_burst'].values]
        if got != exp:
            return 'is_burst %s expected %s' % (got, exp)
        return None


@job('burst_features_small', props=['C05', 'C09', 'C16'], function='bycycle.features.burst.compute_amp_consistency')
class BurstFeaturesSmall:
    exhaustive = True
    chunk = 400

    def bound(self, tier):
        n = 4 if tier == 'quick' else 5
        return ('tables with <= %d rows, volt_rise / volt_decay over {-1, 0, 1, 2} (zeros and negatives: 0/0, x/0), '
                'periods over {1, 2, 3}, both centrings, directions both/next/last; amp_fraction with ties and nan' % n)

    def gen(self, tier, seed):
        nmax = 4 if tier == 'quick' else 5
        vals = (-1, 0, 1, 2)
        for n in range(1, nmax + 1):
            for rises in itertools.product(vals, repeat=n):
                decs = list(itertools.product(vals, repeat=n))
                if n >= 4:
                    rng = random.Random(hash((seed, rises)) & 0xffffffff)
                    decs = rng.sample(decs, 24 if tier == 'quick' else 64)
                for decays in decs:
                    yield {'kind': 'amp', 'rises': list(rises), 'decays': list(decays)}
            for periods in itertools.product((1, 2, 3), repeat=n):
                yield {'kind': 'period', 'periods': list(periods)}
            for amps in itertools.product((0.5, 1.0, 2.0, None), repeat=n):
                yield {'kind': 'rank', 'amps': list(amps)}

    def nontrivial(self, c):
        return len(c.get('rises', c.get('periods', c.get('amps')))) >= 3

    def run(self, c):
        from bycycle.features.burst import compute_amp_consistency, compute_period_consistency, compute_amp_fraction
        if c['kind'] == 'amp':
            for marker in ('sample_peak', 'sample_trough'):
                df = pd.DataFrame({'volt_rise': np.array(c['rises'], float), 'volt_decay': np.array(c['decays'], float),
                                   marker: np.arange(len(c['rises']))})
                for d in ('both', 'next', 'last'):
                    got = compute_amp_consistency(df, direction=d)
                    exp = O.amp_consistency_ref(df['volt_rise'].values, df['volt_decay'].values,
                                                marker == 'sample_peak', d)
                    if not O.same_array(got, exp, 1e-12):
                        return 'amp_consistency(%s, %s) = %s expected %s' % (marker, d, got, exp)
            return None
        if c['kind'] == 'period':
            df = pd.DataFrame({'period': np.array(c['periods'])})
            for d in ('both', 'next', 'last'):
                got = compute_period_consistency(df, direction=d)
                exp = O.period_consistency_ref(np.array(c['periods'], float), d)
                if not O.same_array(got, exp, 1e-12):
                    return 'period_consistency(%s) = %s expected %s' % (d, got, exp)
            return None
        amps = np.array([np.nan if a is None else a for a in c['amps']], float)
        df = pd.DataFrame({'volt_amp': amps})
        got = compute_amp_fraction(df).values
        exp = O.avg_rank_ref(amps) / len(amps)
        if not O.same_array(got, exp, 1e-12):
            return 'amp_fraction = %s expected %s' % (got, exp)
        return None
