"""bycycle.burst.{utils,cycle,amp} — C06, C07, C08, C16, C19."""
import z3

from . import contract
from . import specs
from vf.values import Arr, Frame, Z, BOOL, INT, fresh_name


def _same_array_havoc(param):
    """result maker for in-place functions: the very same array object, contents havoc'd (then constrained by
    the ensures clauses)"""
    def make(E, env):
        a = env[param]
        E.st.heap[a.ident] = E.base_closure(param + '@post', a.ty)
        return a
    return make


contract(
    'bycycle.burst.utils.check_min_burst_cycles',
    params={'is_burst': ('arr', BOOL), 'min_n_cycles': INT},
    requires=[],
    raises={'ValueError': "len(is_burst) > 0 and min_n_cycles < 0"},
    ensures=[
        "result is is_burst",
        "len(result) == len(old(is_burst))",
        "forall(i, 0 <= i < len(result), result[i] == minrun(old(is_burst), min_n_cycles, i))",
    ],
    modifies=['is_burst'],
    result=_same_array_havoc('is_burst'),
)

FEATS = ('amp_fraction', 'amp_consistency', 'period_consistency', 'monotonicity')
THRS = tuple(f + '_threshold' for f in FEATS)

Q_CYCLES = ("arrdef(j, len(df_features), 0 < j < len(df_features) - 1 and " +
            " and ".join("old(df_features['%s'])[j] > %s" % (f, t) for f, t in zip(FEATS, THRS)) + ")")


def _frame_plus_is_burst(E, env):
    """result maker for detect_bursts_*: the same table object with an is_burst column of unknown content"""
    f = env['df_features']
    f.cols = dict(f.cols)
    f.cols['is_burst'] = E.new_arr(f.n, BOOL, kind='series', base='is_burst@post')
    return f


contract(
    'bycycle.burst.cycle.detect_bursts_cycles',
    params={'df_features': ('frame', {f: 'xr' for f in FEATS}),
            **{t: 'real' for t in THRS}, 'min_n_cycles': INT},
    requires=[],
    raises={'ValueError': " or ".join("%s < 0 or %s > 1" % (t, t) for t in THRS) +
                          " or (len(df_features) > 0 and min_n_cycles < 0)"},
    ensures=[
        "result is df_features",
        "len(result) == len(old(df_features))",
        # C06: exactly the cycles in a run of >= min_n_cycles qualifying cycles (strict >, ends never qualify)
        "forall(i, 0 <= i < len(result), result['is_burst'][i] == minrun(%s, min_n_cycles, i))" % Q_CYCLES,
    ] + ["forall(i, 0 <= i < len(result), same(result['%s'][i], old(df_features['%s'])[i]))" % (f, f) for f in FEATS],
    modifies=['df_features'],
    result=_frame_plus_is_burst,
)

Q_AMP = "arrdef(j, len(df_features), old(df_features['burst_fraction'])[j] >= burst_fraction_threshold)"

contract(
    'bycycle.burst.amp.detect_bursts_amp',
    params={'df_features': ('frame', {'burst_fraction': 'xr'}), 'burst_fraction_threshold': 'real',
            'min_n_cycles': INT},
    raises={'ValueError': "burst_fraction_threshold < 0 or burst_fraction_threshold > 1 or "
                          "(len(df_features) > 0 and min_n_cycles < 0)"},
    ensures=[
        "result is df_features",
        "len(result) == len(old(df_features))",
        "forall(i, 0 <= i < len(result), result['is_burst'][i] == minrun(%s, min_n_cycles, i))" % Q_AMP,
        "forall(i, 0 <= i < len(result), same(result['burst_fraction'][i], old(df_features['burst_fraction'])[i]))",
    ],
    modifies=['df_features'],
    result=_frame_plus_is_burst,
)


# ------------------------------------------------------------------------------------------------
# check_min_burst_cycles: proof script (C08).  Every `have` / `induct` below is an obligation discharged by the solver;
# the only statement taken on trust is the definition of the spec function minrun (unfold_minrun).
# ------------------------------------------------------------------------------------------------
from vf.engine import zbool as _zb, to_int as _ti   # noqa: E402


def _facts(P):
    E, env = P.E, P.env
    b, d, tr = env['is_burst'], env['diff'], env['transitions']
    n = b.n
    g, cnt = tr.meta['g'], tr.meta['cnt']
    t = tr.n
    bz = lambda j: _zb(E.rd(b, j))
    bp = lambda j: z3.And(0 <= j, j < n, bz(j))
    return E, env, b, d, tr, n, g, cnt, t, bz, bp


def _after_transitions(P):
    E, env, b, d, tr, n, g, cnt, t, bz, bp = _facts(P)
    i, j, k = z3.Ints('pi pj pk')
    key = [kk for kk in E.st.ghost.get('cmap_axioms', {}) if kk[1] == tr.meta['nonzero_of'].ident][0]
    P.register('AX', E.st.ghost['cmap_axioms'][key])           # assumed contract of np.flatnonzero (counting function)
    # parity: the number of transitions before position i is even exactly when the (padded) array is False at i-1
    P.induct('parity', lambda x: (cnt(x) % 2 == 0) == z3.Not(bp(x - 1)), z3.IntVal(0), n + 1, using=['AX'])
    P.have('parity-at-end', (cnt(n + 1) % 2 == 0) == z3.Not(bp(n)), using=['parity'])
    P.have('t-even', t % 2 == 0, using=['parity-at-end', 'AX'])
    # cnt is monotone
    P.induct('mono', lambda x: z3.ForAll([i], z3.Implies(z3.And(0 <= i, i <= x), cnt(i) <= cnt(x))), z3.IntVal(0), n + 1,
             using=['AX'])
    P.have('mono2', z3.ForAll([i, j], z3.Implies(z3.And(0 <= i, i <= j, j <= n + 1), cnt(i) <= cnt(j)),
                              patterns=[z3.MultiPattern(cnt(i), cnt(j))]), using=['mono'])
    P.have('cnt-after-g', z3.ForAll([k], z3.Implies(z3.And(0 <= k, k < t), z3.And(cnt(g(k) + 1) == k + 1, cnt(g(k)) == k,
                                                                                  0 <= g(k), g(k) <= n)),
                                    patterns=[g(k)]), using=['AX'])
    P.have('cnt-le-t', z3.ForAll([i], z3.Implies(z3.And(0 <= i, i <= n + 1), z3.And(0 <= cnt(i), cnt(i) <= t)),
                                 patterns=[cnt(i)]), using=['AX', 'mono2'])
    # position of the k-th transition relative to i
    P.have('g-vs-cnt-1', z3.ForAll([k, i], z3.Implies(z3.And(0 <= k, k < t, 0 <= i, i <= n + 1, g(k) < i), k < cnt(i)),
                                   patterns=[z3.MultiPattern(g(k), cnt(i))]), using=['mono2', 'cnt-after-g'])
    P.have('g-vs-cnt-2', z3.ForAll([k, i], z3.Implies(z3.And(0 <= k, k < t, 0 <= i, i <= n + 1, k < cnt(i)), g(k) < i),
                                   patterns=[z3.MultiPattern(g(k), cnt(i))]), using=['mono2', 'cnt-after-g'])
    # a True position lies in the run between transitions cnt(j+1)-1 (on) and cnt(j+1) (off)
    P.have('true-odd', z3.ForAll([j], z3.Implies(z3.And(0 <= j, j < n, bz(j)),
                                                 z3.And(cnt(j + 1) % 2 == 1, 1 <= cnt(j + 1), cnt(j + 1) < t)),
                                 patterns=[cnt(j + 1)]), using=['parity', 't-even', 'cnt-le-t'])
    P.have('true-in-run', z3.ForAll([j], z3.Implies(z3.And(0 <= j, j < n, bz(j)),
                                                    z3.And(g(cnt(j + 1) - 1) <= j, j < g(cnt(j + 1)))),
                                    patterns=[cnt(j + 1)]), using=['true-odd', 'g-vs-cnt-1', 'g-vs-cnt-2'])
    # between two consecutive transitions the transition count is constant ...
    P.have('run-interior-cnt', z3.ForAll([k, j], z3.Implies(z3.And(0 <= k, k + 1 < t, g(k) <= j, j < g(k + 1)),
                                                            z3.And(0 <= j, j < n + 1, cnt(j + 1) == k + 1)),
                                         patterns=[z3.MultiPattern(g(k), cnt(j + 1))]),
           using=['g-vs-cnt-1', 'g-vs-cnt-2', 'cnt-after-g'])
    # ... so after an even transition everything up to the next transition is True
    P.have('run-interior-true', z3.ForAll([k, j], z3.Implies(z3.And(0 <= k, k + 1 < t, k % 2 == 0, g(k) <= j, j < g(k + 1)),
                                                             z3.And(j < n, bz(j))),
                                          patterns=[z3.MultiPattern(g(k), cnt(j + 1))]),
           using=['run-interior-cnt', 'parity'])
    # runs are maximal
    P.have('run-left-end', z3.ForAll([k], z3.Implies(z3.And(0 <= k, k < t, k % 2 == 0), z3.Not(bp(g(k) - 1))), patterns=[g(k)]),
           using=['parity', 'cnt-after-g'])
    P.have('run-right-end', z3.ForAll([k], z3.Implies(z3.And(0 <= k, k < t, k % 2 == 1), z3.And(g(k) <= n, z3.Not(bp(g(k))))),
                                      patterns=[g(k)]), using=['parity', 'cnt-after-g'])


def _loop_entry(P):
    E, env, b, d, tr, n, g, cnt, t, bz, bp = _facts(P)
    too_short = env['too_short']
    son, soff = env['_zip0'], env['_zip1']
    Q = son.n
    ckey = [kk for kk in E.st.ghost.get('cmap_axioms', {}) if kk[1] == too_short.ident][0]
    mQ, G, cntG = E.st.ghost[ckey]
    P.register('AXG', E.st.ghost['cmap_axioms'][ckey])          # assumed contract of boolean-mask selection
    p = z3.Int('lp')
    SON = lambda x: _ti(E.rd(son, x))
    SOFF = lambda x: _ti(E.rd(soff, x))
    P.have('selected-bounds', z3.ForAll([p], z3.Implies(z3.And(0 <= p, p < Q),
                                                        z3.And(0 <= SON(p), SON(p) <= SOFF(p), SOFF(p) <= n)), patterns=[G(p)]),
           using=['AXG', 'AX', 'cnt-after-g', 't-even'])


def _before_return(P):
    E, env = P.E, P.env
    if 'transitions' not in env:
        return                          # the early return for an empty array
    E, env, b, d, tr, n, g, cnt, t, bz, bp = _facts(P)
    from .specs import MR, minrun_def
    m = _ti(env['min_n_cycles']) if not isinstance(env['min_n_cycles'], int) else z3.IntVal(env['min_n_cycles'])
    ons, offs, too_short = env['ons'], env['offs'], env['too_short']
    son, soff = env['_zip0'], env['_zip1']
    Q = son.n
    ckey = [kk for kk in E.st.ghost.get('cmap_axioms', {}) if kk[1] == too_short.ident][0]
    mQ, G, cntG = E.st.ghost[ckey]
    P.register('AXG', E.st.ghost['cmap_axioms'][ckey])          # assumed contract of boolean-mask selection
    i, j, k, p, r = z3.Ints('qi qj qk qp qr')
    old_b = lambda x: _zb(E.st.entry_heap[b.ident](x))
    cur = lambda x: _zb(E.rd(b, x))
    ON = lambda x: g(2 * x)
    OFF = lambda x: g(2 * x + 1)
    SON = lambda x: _ti(E.rd(son, x))
    SOFF = lambda x: _ti(E.rd(soff, x))
    SHORT = lambda x: _zb(E.rd(too_short, x))
    half = t / 2
    # the loop invariant at exit (named, so that it can be used selectively)
    facts = E.st.ghost.setdefault('facts', {})
    P.have('short-def', z3.ForAll([r], z3.Implies(z3.And(0 <= r, r < half), SHORT(r) == (OFF(r) - ON(r) < m))),
           using=['t-even'])
    P.have('selected-are-short', z3.ForAll([p], z3.Implies(z3.And(0 <= p, p < Q),
                                                           z3.And(0 <= G(p), G(p) < half, SHORT(G(p)), SON(p) == ON(G(p)),
                                                                  SOFF(p) == OFF(G(p)))), patterns=[G(p)]),
           using=['AXG', 't-even'])
    P.have('short-are-selected', z3.ForAll([r], z3.Implies(z3.And(0 <= r, r < half, SHORT(r)),
                                                           z3.And(0 <= cntG(r), cntG(r) < Q, G(cntG(r)) == r)),
                                           patterns=[cntG(r)]), using=['AXG', 't-even'])
    # the run of a True position j is r(j) = (cnt(j+1) - 1) / 2
    RUN = lambda x: (cnt(x + 1) - 1) / 2
    P.have('run-of-true', z3.ForAll([j], z3.Implies(z3.And(0 <= j, j < n, old_b(j)),
                                                    z3.And(0 <= RUN(j), RUN(j) < half, 2 * RUN(j) + 1 == cnt(j + 1),
                                                           ON(RUN(j)) <= j, j < OFF(RUN(j)))),
                                    patterns=[cnt(j + 1)]), using=['true-odd', 'true-in-run', 't-even'])
    P.have('covering-run-is-own-run', z3.ForAll([r, j], z3.Implies(z3.And(0 <= r, r < half, ON(r) <= j, j < OFF(r)),
                                                                   z3.And(0 <= j, j < n, old_b(j), RUN(j) == r))),
           using=['run-interior-cnt', 'run-interior-true', 't-even'])
    P.register('INV', facts['loop1-exit'])
    # cleared exactly when the own run is too short
    P.have('cleared-iff-short', z3.ForAll([j], z3.Implies(z3.And(0 <= j, j < n, old_b(j)),
                                                          cur(j) == z3.Not(SHORT(RUN(j)))), patterns=[cnt(j + 1)]),
           using=['INV', 'run-of-true', 'covering-run-is-own-run', 'selected-are-short', 'short-are-selected'])
    P.have('false-stays-false', z3.ForAll([j], z3.Implies(z3.And(0 <= j, j < n, z3.Not(old_b(j))), z3.Not(cur(j)))),
           using=['INV'])
    # the definition of the spec function, at this array / length / count
    B0 = E.mat(_frozen_entry(E, b))
    defn = z3.ForAll([i], MR(B0, n, m, i) == minrun_def(B0, n, m, i), patterns=[MR(B0, n, m, i)])
    E.assumptions_quant(defn)
    P.register('DEF', [defn, E.st.ghost['mat_axioms'][B0.get_id()]])
    # long run => its own interval is the witness window
    P.have('long-run-kept', z3.ForAll([j], z3.Implies(z3.And(0 <= j, j < n, old_b(j), z3.Not(SHORT(RUN(j)))), MR(B0, n, m, j)),
                                      patterns=[cnt(j + 1)]),
           using=['DEF', 'run-of-true', 'covering-run-is-own-run', 'short-def', 'cnt-after-g', 't-even'])
    # any True window around j lies inside j's run, so a window of length >= m makes the run long
    a0, c0 = z3.Ints('qa qc')
    P.have('window-inside-run', z3.ForAll([j, a0, c0], z3.Implies(
        z3.And(0 <= a0, a0 <= j, j < c0, c0 <= n, old_b(j),
               z3.ForAll([k], z3.Implies(z3.And(a0 <= k, k < c0), z3.Select(B0, k)))),
        z3.And(ON(RUN(j)) <= a0, c0 <= OFF(RUN(j))))),
        using=['DEF', 'run-of-true', 'run-left-end', 'run-right-end', 'cnt-after-g', 't-even'])
    P.have('kept-only-if-long', z3.ForAll([j], z3.Implies(z3.And(0 <= j, j < n, MR(B0, n, m, j)),
                                                          z3.And(old_b(j), z3.Not(SHORT(RUN(j))))), patterns=[MR(B0, n, m, j)]),
           using=['DEF', 'window-inside-run', 'short-def', 'run-of-true'])
    P.have('post', z3.ForAll([j], z3.Implies(z3.And(0 <= j, j < n), cur(j) == MR(B0, n, m, j))),
           using=['cleared-iff-short', 'false-stays-false', 'long-run-kept', 'kept-only-if-long'])


def _mentions(a, name):
    return name in a.sexpr()


def _mentions_term(a, t):
    return str(t) in a.sexpr() or t.sexpr() in a.sexpr()


def _frozen_entry(E, b):
    from vf.spec import _freeze
    with E.entry_view():
        f = _freeze(E, b)
    E.st.heap.setdefault(f.ident, E.st.entry_heap[b.ident])
    return f


contract(
    'bycycle.burst.utils.check_min_burst_cycles',
    params={'is_burst': ('arr', BOOL), 'min_n_cycles': INT},
    requires=[],
    raises={'ValueError': "len(is_burst) > 0 and min_n_cycles < 0"},
    ensures=[
        "result is is_burst",
        "len(result) == len(old(is_burst))",
        "forall(i, 0 <= i < len(result), result[i] == minrun(old(is_burst), min_n_cycles, i))",
    ],
    modifies=['is_burst'],
    result=_same_array_havoc('is_burst'),
    proof={('after_assign', 'transitions'): _after_transitions, ('loop_entry', 1): _loop_entry,
           ('before_return',): _before_return},
    ensures_using=['post'],
    loops={1: dict(index='q', using=['selected-bounds'], invariant=[
        "len(is_burst) == len(old(is_burst))",
        # cleared so far: exactly the positions inside one of the first q too-short runs
        "forall(j, 0 <= j < len(is_burst), is_burst[j] == (old(is_burst)[j] and "
        "not exists(p, 0 <= p and p < q and _zip0[p] <= j and j < _zip1[p])))",
    ])},
)
