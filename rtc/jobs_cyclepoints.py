"""Bounded stand-ins for the cyclepoint functions: find_zerox (C03), find_extrema (C02), phase (C17)."""
import itertools
import math
import random

import numpy as np

from .core import job
from . import oracles as O


# ------------------------------------------------------------------------------------------------ C03
def mid_ref(sig, s, e, direction):
    """sample just before the flank crosses its half height; temporal median (rounded down) of several crossings;
    temporal centre for an inverted flank or an identically zero segment"""
    x = np.asarray(sig[s:e + 1], dtype=float)
    L = len(x)
    if np.sum(np.abs(x)) == 0:
        return s + L // 2
    if (direction == 'rise' and x[0] > x[-1]) or (direction == 'decay' and x[0] < x[-1]):
        return s + L // 2
    h = (x[0] + x[-1]) / 2.0
    if direction == 'rise':
        K = [k for k in range(L - 1) if x[k] <= h < x[k + 1]]
    else:
        K = [k for k in range(L - 1) if x[k] > h >= x[k + 1]]
    if not K:
        return s + L // 2          # only possible when x[0] == x[-1]: the statement leaves this to the fallback
    K.sort()
    m = len(K)
    med = K[m // 2] if m % 2 else (K[m // 2 - 1] + K[m // 2]) / 2.0
    return s + int(math.floor(med))


def alternating_sequences(n, min_gap=1, max_len=5):
    """every alternating peak/trough index sequence over range(n) with at least one of each"""
    out = []

    def rec(seq):
        if len(seq) >= 2:
            out.append(list(seq))
        if len(seq) >= max_len:
            return
        start = seq[-1] + min_gap if seq else 0
        for p in range(start, n):
            rec(seq + [p])
    rec([])
    return out


@job('find_zerox', props=['C03', 'C01'], function='bycycle.cyclepoints.zerox.find_zerox')
class FindZerox:
    exhaustive = True
    chunk = 2000

    def bound(self, tier):
        n = 6 if tier == 'quick' else 7
        return ('every integer-valued signal over {-1,0,1,2} of length <= %d (sampled for the longest length in quick), every '
                'alternating peak/trough index sequence (either kind first, up to 5 extrema)' % n)

    def gen(self, tier, seed):
        nmax = 6 if tier == 'quick' else 7
        rng = random.Random(seed)
        for n in range(2, nmax + 1):
            seqs = alternating_sequences(n)
            sigs = list(itertools.product((-1, 0, 1, 2), repeat=n))
            cap = 300 if tier == 'quick' else 4000
            if len(sigs) > cap:
                sigs = rng.sample(sigs, cap)
            for sig in sigs:
                for seq in (seqs if len(seqs) <= 40 else rng.sample(seqs, 40)):
                    for first in ('P', 'T'):
                        yield dict(sig=list(sig), seq=seq, first=first)

    def nontrivial(self, c):
        return len(c['seq']) >= 3 and len(set(c['sig'])) >= 2

    def run(self, c):
        from bycycle.cyclepoints import find_zerox
        sig = np.array(c['sig'], dtype=float)
        kinds = [c['first'] if k % 2 == 0 else ('T' if c['first'] == 'P' else 'P') for k in range(len(c['seq']))]
        peaks = np.array([p for p, k in zip(c['seq'], kinds) if k == 'P'], dtype=int)
        troughs = np.array([p for p, k in zip(c['seq'], kinds) if k == 'T'], dtype=int)
        s0 = sig.copy()
        rises, decays = find_zerox(sig, peaks, troughs)
        if not np.array_equal(sig, s0):
            return 'signal modified'
        exp_r, exp_d = [], []
        for (a, ka), (b, kb) in zip(zip(c['seq'], kinds), list(zip(c['seq'], kinds))[1:]):
            if ka == 'T':
                exp_r.append(mid_ref(sig, a, b, 'rise'))
            else:
                exp_d.append(mid_ref(sig, a, b, 'decay'))
        if list(rises) != exp_r or list(decays) != exp_d:
            return 'rises %s decays %s, expected %s %s' % (list(rises), list(decays), exp_r, exp_d)
        return None


# ------------------------------------------------------------------------------------------------ C02
def crossings(F, kind):
    if kind == 'rise':
        return [k for k in range(len(F) - 1) if F[k] <= 0 < F[k + 1]]
    return [k for k in range(len(F) - 1) if F[k] > 0 >= F[k + 1]]


def extrema_ref(sigp, F, pad, boundary, sig_len, first_extrema):
    """one peak per positive half-wave closed by zero-crossings on both sides, at the FIRST maximum of the raw signal
    over [rise, next decay); dually for troughs; un-pad, boundary filter, first_extrema trimming"""
    rise, decay = crossings(F, 'rise'), crossings(F, 'decay')
    if not rise or not decay:
        return None
    peaks, troughs = [], []
    for r in rise:
        nxt = [d for d in decay if d > r]
        if nxt:
            w = sigp[r:nxt[0]]
            peaks.append(r + int(np.argmax(w)))
    for d in decay:
        nxt = [r for r in rise if r > d]
        if nxt:
            w = sigp[d:nxt[0]]
            troughs.append(d + int(np.argmin(w)))
    peaks = [p - pad for p in peaks]
    troughs = [t - pad for t in troughs]
    peaks = [p for p in peaks if boundary < p < sig_len - boundary]
    troughs = [t for t in troughs if boundary < t < sig_len - boundary]
    if first_extrema in ('peak', 'trough'):
        if not peaks or not troughs:
            return None
        if first_extrema == 'peak':
            if peaks[0] > troughs[0]:
                troughs = troughs[1:]
            if not troughs:
                return None
            if peaks[-1] > troughs[-1]:
                peaks = peaks[:-1]
        else:
            if troughs[0] > peaks[0]:
                peaks = peaks[1:]
            if not peaks:
                return None
            if troughs[-1] > peaks[-1]:
                troughs = troughs[:-1]
    return peaks, troughs


@job('find_extrema', props=['C02', 'C01'], function='bycycle.cyclepoints.extrema.find_extrema')
class FindExtrema:
    exhaustive = False
    chunk = 500

    def bound(self, tier):
        n = 7 if tier == 'quick' else 9
        return ('the external filter replaced by an enumerated filtered signal: every sign pattern over {-1, 0, 1} of padded '
                'length <= %d (sampled beyond length 6) x raw signals over {0,1,2} (ties and plateaus), pad widths {0,1,2}, '
                'boundary {0,1,2}, first_extrema {peak, trough, None}; integer recordings (int8 / int16 / uint16) touching the type\'s extreme values; plus the real filter on the signal corpus' % n)

    def gen(self, tier, seed):
        rng = random.Random(seed)
        nmax = 7 if tier == 'quick' else 9
        for n in range(4, nmax + 1):
            Fs = list(itertools.product((-1, 0, 1), repeat=n))
            Fs = [F for F in Fs if crossings(F, 'rise') and crossings(F, 'decay')]
            capF = 60 if tier == 'quick' else 400
            if len(Fs) > capF:
                Fs = rng.sample(Fs, capF)
            for F in Fs:
                for _ in range(4 if tier == 'quick' else 12):
                    raw = [rng.choice((0, 1, 2)) for _ in range(n)]
                    for pad in (0, 1, 2):
                        if n - 2 * pad < 2:
                            continue
                        for boundary in (0, 1, 2):
                            for fe in ('peak', 'trough', None):
                                yield dict(kind='stub', F=list(F), raw=raw, pad=pad, boundary=boundary, fe=fe)
                    # integer recordings (ADC counts) incl. the type's extreme values: order must be that of the values, not
                    # of their machine negation (-(-32768) == -32768 in int16, -0 == 0 in uint16)
                    for dt, lv in (('int16', (-32768, -5, 7)), ('uint16', (0, 8, 90)), ('int8', (-128, 0, 127))):
                        rawi = [rng.choice(lv) for _ in range(n)]
                        yield dict(kind='stub', F=list(F), raw=rawi, pad=0, boundary=rng.choice((0, 1)), fe=rng.choice(('peak', 'trough', None)),
                                   dtype=dt)
        from .signals import FAMILIES
        for fam in FAMILIES:
            for fe in ('peak', 'trough', None):
                for boundary in (0, 7):
                    for pad in (True, False):
                        yield dict(kind='corpus', family=fam, seed=seed, fe=fe, boundary=boundary, pad=pad)

    def nontrivial(self, c):
        return True

    def run(self, c):
        import bycycle.cyclepoints.extrema as ex
        if c['kind'] == 'corpus':
            from .signals import make_signal
            from neurodsp.filt import filter_signal
            from neurodsp.filt.fir import compute_filter_length
            sig = make_signal(c['family'], c['seed'])
            fs, f_range = 500.0, (7.0, 13.0)
            pad = int(np.ceil(compute_filter_length(fs, 'bandpass', 7.0, 13.0, n_cycles=3, n_seconds=None) / 2)) if c['pad'] else 0
            sigp = np.pad(sig, pad, mode='constant')
            F = filter_signal(sigp, fs, 'bandpass', f_range, remove_edges=False)
            exp = extrema_ref(sigp, F, pad, c['boundary'], len(sig), c['fe'])
            if exp is None:
                return None
            s0 = sig.copy()
            p, t = ex.find_extrema(sig, fs, f_range, boundary=c['boundary'], first_extrema=c['fe'], pad=c['pad'])
            if not np.array_equal(sig, s0):
                return 'signal modified'
            if list(p) != exp[0] or list(t) != exp[1]:
                return 'peaks/troughs differ from the first-extremum-per-half-wave reference (first diff at %s)' % \
                    next((i for i, (a, b) in enumerate(zip(list(p) + [None], exp[0] + [None])) if a != b), '?')
            return None
        F = np.array(c['F'], dtype=float)
        pad = c['pad']
        n = len(F)
        sig_len = n - 2 * pad
        raw = np.array(c['raw'][pad:n - pad] if pad else c['raw'], dtype=c.get('dtype', float))
        sigp = np.pad(raw, pad, mode='constant')
        exp = extrema_ref(sigp.astype(float), F, pad, c['boundary'], sig_len, c['fe'])       # (the reference orders exact values)
        if exp is None:
            return None
        if c['fe'] is None and (not exp[0] or not exp[1]):
            pass
        orig_filter, orig_len = ex.filter_signal, ex.compute_filter_length
        ex.filter_signal = lambda s, *a, **k: F.copy()
        ex.compute_filter_length = lambda *a, **k: 2 * pad
        try:
            p, t = ex.find_extrema(raw, 100.0, (1.0, 2.0), boundary=c['boundary'], first_extrema=c['fe'], pad=pad > 0)
        except IndexError as e:
            # fewer extrema than first_extrema trimming needs: outside the property's quantifier
            return None
        finally:
            ex.filter_signal, ex.compute_filter_length = orig_filter, orig_len
        if list(p) != exp[0] or list(t) != exp[1]:
            return 'peaks %s troughs %s, expected %s %s' % (list(p), list(t), exp[0], exp[1])
        return None


# ------------------------------------------------------------------------------------------------ C17
def phase_placements(n, mind=2):
    res = []

    def rec(seq, kinds):
        if len(seq) >= 2:
            res.append((list(seq), list(kinds)))
        start = seq[-1] + mind if seq else 0
        for p in range(start, n):
            if not seq:
                for k0 in 'PT':
                    rec([p], [k0])
            else:
                rec(seq + [p], kinds + ['P' if kinds[-1] == 'T' else 'T'])
    rec([], [])
    return res


def check_phase(n, ex, kinds, mids, pha):
    peaks = [e for e, k in zip(ex, kinds) if k == 'P']
    troughs = [e for e, k in zip(ex, kinds) if k == 'T']
    cps = list(ex) + (list(mids) if mids is not None else [])
    lo, hi = min(cps), max(cps)
    if len(pha) != n:
        return 'length %d, expected %d' % (len(pha), n)
    fin = ~np.isnan(pha)
    exp = np.zeros(n, bool)
    exp[lo:hi + 1] = True
    if not np.array_equal(fin, exp):
        return 'finite on %s, expected exactly the span [%d, %d]' % (np.flatnonzero(fin).tolist(), lo, hi)
    for p in peaks:
        if abs(pha[p]) > 1e-12:
            return 'peak %d has phase %r' % (p, pha[p])
    for t in troughs:
        if abs(abs(pha[t]) - np.pi) > 1e-12:
            return 'trough %d has phase %r' % (t, pha[t])
    if mids is not None:
        for (a, ka), m in zip(zip(ex, kinds), mids):
            if m in ex:
                continue
            want = -np.pi / 2 if ka == 'T' else np.pi / 2
            if abs(pha[m] - want) > 1e-12:
                return 'midpoint %d has phase %r, expected %r' % (m, pha[m], want)
    v = pha[lo:hi + 1]
    if (v < -np.pi - 1e-12).any() or (v > np.pi + 1e-12).any():
        return 'phase outside [-pi, pi]'
    d = np.diff(v)
    for i, di in enumerate(d):
        if di < -1e-12:
            j = lo + i
            if not (j + 1 in troughs or j in troughs):
                return 'phase decreases between samples %d and %d away from a trough' % (j, j + 1)
    return None


@job('phase', props=['C17'], function='bycycle.cyclepoints.phase.extrema_interpolated_phase')
class Phase:
    exhaustive = True
    chunk = 500

    def bound(self, tier):
        n = 9 if tier == 'quick' else 12
        return ('every alternating peak/trough placement with consecutive extrema >= 2 apart on arrays of length <= %d, '
                'without midpoints and with every midpoint placement inside its flank (coinciding with extrema included) '
                'for up to 3 flanks (also with the rise or the decay midpoints alone, decided by the armed contract); plus '
                'cyclepoints of the signal corpus at several boundaries' % n)

    def gen(self, tier, seed):
        nmax = 9 if tier == 'quick' else 12
        for n in range(3, nmax + 1):
            for ex, kinds in phase_placements(n):
                yield dict(kind='enum', n=n, ex=ex, kinds=kinds, mids=None)
                flanks = list(zip(ex[:-1], ex[1:]))
                if len(flanks) <= 3:
                    for mids in itertools.product(*[range(a, b + 1) for a, b in flanks]):
                        yield dict(kind='enum', n=n, ex=ex, kinds=kinds, mids=list(mids))
        from .signals import FAMILIES
        for fam in FAMILIES:
            for boundary in (0, 1, 20):
                yield dict(kind='corpus', family=fam, seed=seed, boundary=boundary)

    def nontrivial(self, c):
        return c['kind'] == 'corpus' or len(c['ex']) >= 3

    def run(self, c):
        from bycycle.cyclepoints import extrema_interpolated_phase
        if c['kind'] == 'corpus':
            from bycycle.cyclepoints import find_extrema, find_zerox
            from .signals import make_signal
            sig = make_signal(c['family'], c['seed'])
            p, t = find_extrema(sig, 500.0, (7.0, 13.0), boundary=c['boundary'])
            r, d = find_zerox(sig, p, t)
            if any(b - a < 2 for a, b in zip(sorted(list(p) + list(t)), sorted(list(p) + list(t))[1:])):
                return None
            for with_mids in (False, True):
                pha = extrema_interpolated_phase(sig, p, t, r if with_mids else None, d if with_mids else None)
                from .jobs_armed import armed_call
                m = armed_call('bycycle.cyclepoints.phase.extrema_interpolated_phase', extrema_interpolated_phase,
                               dict(sig=sig, peaks=p, troughs=t, rises=r if with_mids else None, decays=d if with_mids else None))
                if m:
                    return 'armed contract: ' + m
                seq = sorted([(x, 'P') for x in p] + [(x, 'T') for x in t])
                ex, kinds = [x for x, _ in seq], [k for _, k in seq]
                mids = None
                if with_mids:
                    ms = sorted(list(r) + list(d))
                    mids = ms
                    if len(ms) != len(ex) - 1:
                        return None
                m = check_phase(len(sig), ex, kinds, mids, pha)
                if m:
                    return m
            return None
        n, ex, kinds, mids = c['n'], c['ex'], c['kinds'], c['mids']
        peaks = np.array([e for e, k in zip(ex, kinds) if k == 'P'], dtype=int)
        troughs = np.array([e for e, k in zip(ex, kinds) if k == 'T'], dtype=int)
        rises = decays = None
        if mids is not None:
            rises = np.array([m for m, ka in zip(mids, kinds) if ka == 'T'], dtype=int)
            decays = np.array([m for m, ka in zip(mids, kinds) if ka == 'P'], dtype=int)
        try:
            pha = extrema_interpolated_phase(np.zeros(n), peaks, troughs, rises, decays)
        except Exception as e:
            return 'raised %r' % (e,)
        if len(peaks) and len(troughs):
            # the contract text the deductive side proves, evaluated on this real call (armed contract)
            from .jobs_armed import armed_call
            m = armed_call('bycycle.cyclepoints.phase.extrema_interpolated_phase', extrema_interpolated_phase,
                           dict(sig=np.zeros(n), peaks=peaks, troughs=troughs, rises=rises, decays=decays))
            if m:
                return 'armed contract: ' + m
            if mids is not None:
                # calls with one kind of midpoint only: decided by the armed contract
                for r_, d_ in ((rises, None), (None, decays)):
                    try:
                        m = armed_call('bycycle.cyclepoints.phase.extrema_interpolated_phase', extrema_interpolated_phase,
                                       dict(sig=np.zeros(n), peaks=peaks, troughs=troughs, rises=r_, decays=d_))
                    except Exception as e:
                        return 'raised %r with one kind of midpoint' % (e,)
                    if m:
                        return 'armed contract: ' + m
        return check_phase(n, ex, kinds, mids, pha)
