"""bycycle.cyclepoints.phase._merge_phases — C17 (the merge / masking half; anchors + interpolation are bounded)."""
from . import contract, arr_result, phase_eip
from vf.values import XR, INT

# merged value at i: the +pi branch where the -pi branch decreases towards the next sample, else the -pi branch
M = "(pha_tpi[{i}] if xsub(pha_tnpi[{i} + 1], pha_tnpi[{i}]) < 0 else pha_tnpi[{i}])"
MLAST = "pha_tnpi[len(pha_tnpi) - 1]"


def m(i):
    return "(%s if %s < len(pha_tnpi) - 1 else %s)" % (M.format(i=i), i, MLAST)


STEP_UP = "xsub(%s, %s) > 0" % (m('j + 1'), m('j'))
STEP_AT = "xsub(%s, %s)" % (m('{j} + 1'), m('{j}'))
END = "(len(result) - local('last_empirical_idx'))"

LAST_STEP = ("({s} > 0 or {s} < 0) and local('first_empirical_idx') <= {e} - 2".format(s=STEP_AT.format(j="(%s - 2)" % END), e=END))
TAIL_ZERO = ("forall(j, {e} - 1 <= j < len(result) - 1, not ({s} > 0 or {s} < 0))".format(e=END, s=STEP_AT.format(j='j')))


def _tail_proof(P):
    """the steps after the last non-zero one are zero: the reversed search skipped exactly those (explicit instance of
    'nothing earlier in the reversed differences is non-zero' at the mirrored index)"""
    E, env = P.E, P.env
    env2 = dict(E.entry_env)
    env2['result'] = env.get('__return__')
    n = E.entry_env['pha_tnpi'].n
    E.final_env = dict(env)
    P.prove_clause('tail-steps-zero', TAIL_ZERO, env2, lambda j: [P.instq('next#2', 1, n - 2 - j), P.instq('next#2', 0)])
    # the step found by the reversed search is non-zero, and it is not before the first rising step (which the search
    # would have met, from the other end, at the mirrored index)
    F = env['first_empirical_idx']
    Ft = F.t if hasattr(F, 't') else F
    P.prove_clause('last-step-nonzero', LAST_STEP, env2,
                   lambda: [P.instq('next#2', 0), P.instq('next#2', 1, n - 2 - Ft), P.instq('next#1', 0)])


contract(
    'bycycle.cyclepoints.phase._merge_phases',
    params={'pha_tpi': ('arr', XR, 2), 'pha_tnpi': ('arr', XR, 2)},
    requires=["len(pha_tpi) == len(pha_tnpi) and len(pha_tnpi) >= 2",
              "forall(i, 0 <= i < len(pha_tnpi), isfinite(pha_tpi[i]) and isfinite(pha_tnpi[i]))",
              # the merged series rises somewhere (there is at least one pair of cyclepoints)
              "exists(j, 0 <= j < len(pha_tnpi) - 1, %s)" % STEP_UP],
    ensures=[
        "len(result) == len(pha_tnpi)",
        # F: the first rising step of the merged series; everything before it is masked
        "0 <= local('first_empirical_idx') and local('first_empirical_idx') < len(result) - 1",
        ("forall(j, 0 <= j < local('first_empirical_idx'), not (%s))" % STEP_UP),
        "forall(i, 0 <= i < local('first_empirical_idx'), isnan(result[i]))",
        # K: samples after the last non-zero step are masked, and nothing else: from F up to and including the
        # sample that the last non-zero step leads to, the result is the merged series
        "0 <= local('last_empirical_idx') and local('first_empirical_idx') < len(result) - local('last_empirical_idx')",
        "forall(i, len(result) - local('last_empirical_idx') <= i < len(result), isnan(result[i]))",
        ("forall(i, local('first_empirical_idx') <= i < len(result) - local('last_empirical_idx'), same(result[i], %s))" % m('i')),
        # F is itself a rising step; the step into the last unmasked sample is non-zero and every later step is zero
        # (these three pin F and K down for the caller)
        STEP_AT.format(j="local('first_empirical_idx')") + " > 0",
        LAST_STEP,
        TAIL_ZERO,
    ],
    # explicit witnesses for the two next(...) searches: the rising step assumed to exist; and, after the head has been
    # masked, that same rising step seen from the reversed end
    witness={2: "len(pha) - 2 - first_empirical_idx"},
    exposed_locals={'first_empirical_idx': INT, 'last_empirical_idx': INT},
    proof={('before_return',): _tail_proof},
    ensures_using={9: ['last-step-nonzero'], 10: ['tail-steps-zero']},
    modifies=[],
    result=arr_result(XR),
)


# ------------------------------------------------------------------------------------------------ extrema_interpolated_phase
def _eip_cases():
    out = []
    for first in ('peak', 'trough'):
        A, B = ('peaks', 'troughs') if first == 'peak' else ('troughs', 'peaks')
        # midpoints of the flanks A -> B and B -> A
        MA, MB = ('decays', 'rises') if first == 'peak' else ('rises', 'decays')
        counts = "len({B}) >= 1 and (len({A}) == len({B}) or len({A}) == len({B}) + 1)".format(A=A, B=B)
        alternate = [
            # alternating extrema, at least two samples apart, inside the signal; at least one of each kind
            "forall(k, 0 <= k < len({B}), 0 <= {A}[k] and {A}[k] + 2 <= {B}[k] and {B}[k] < len(sig))".format(A=A, B=B),
            "forall(k, 0 <= k < len({A}) - 1, {B}[k] + 2 <= {A}[k + 1] and {A}[k + 1] < len(sig))".format(A=A, B=B)]
        out.append(dict(
            label='no-midpoints,%s-first' % first,
            params={'sig': ('arr', XR), 'peaks': ('arr', INT), 'troughs': ('arr', INT), 'rises': 'none', 'decays': 'none'},
            requires=[counts] + alternate,
            proof={('before_lib', 'numpy.interp', 1): phase_eip.before_interp(first),
                   ('before_lib', 'numpy.interp', 2): phase_eip.before_interp(first),
                   ('before_call', '_merge_phases'): phase_eip.before_merge(first),
                   ('before_return',): phase_eip.before_return(first)},
            ensures=list(phase_eip.ENSURES), ensures_using=dict(phase_eip.ENSURES_USING)))
        for has_r, has_d in ((True, True), (True, False), (False, True)):
            ens, using = phase_eip.ensures_mid(first, has_r, has_d)
            have = {'rises': has_r, 'decays': has_d}
            counts_m = counts
            flank = []
            # one midpoint per flank, inside its closed flank (the postcondition of find_zerox): it may sit on an extremum
            if have[MA]:
                counts_m += " and len({MA}) == len({B})".format(MA=MA, B=B)
                flank.append("forall(k, 0 <= k < len({MA}), {A}[k] <= {MA}[k] and {MA}[k] <= {B}[k])".format(A=A, B=B, MA=MA))
            if have[MB]:
                counts_m += " and len({MB}) == len({A}) - 1".format(MB=MB, A=A)
                flank.append("forall(k, 0 <= k < len({MB}), {B}[k] <= {MB}[k] and {MB}[k] <= {A}[k + 1])".format(A=A, B=B, MB=MB))
            out.append(dict(
                label='%s,%s-first' % ('midpoints' if has_r and has_d else 'rises-only' if has_r else 'decays-only', first),
                params={'sig': ('arr', XR), 'peaks': ('arr', INT), 'troughs': ('arr', INT),
                        'rises': ('arr', INT) if has_r else 'none', 'decays': ('arr', INT) if has_d else 'none'},
                requires=[counts_m] + alternate + flank,
                proof={('before_lib', 'numpy.interp', 1): phase_eip.before_interp(first, 'mid'),
                       ('before_lib', 'numpy.interp', 2): phase_eip.before_interp(first, 'mid'),
                       ('before_call', '_merge_phases'): phase_eip.before_merge(first, 'mid'),
                       ('before_return',): phase_eip.before_return(first, 'mid')},
                ensures=ens, ensures_using=using))
    return out


contract('bycycle.cyclepoints.phase.extrema_interpolated_phase', cases=_eip_cases(), modifies=[], result=arr_result(XR))
